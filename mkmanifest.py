#!/usr/bin/env python3
"""Regenerates /verif/MANIFEST.json from the table below (kept in one place so it stays valid)."""
import json, os
ROOT = os.path.dirname(os.path.abspath(__file__))

CHECKS = {
 "C20": dict(level="model_checking", design="§2 C20",
   technique="exhaustive enumeration of all string pairs/orderings up to a length bound against a reference comparator, and of all permutations of bounded definition sets through the real parser+printer",
   text="Bounded-exhaustive: natsort.Less is evaluated on every ordered pair of every byte string of length <=3 (thorough <=4) over a 7-byte alphabet chosen to hit digits, leading zeros, letters and extreme bytes; strict-total-order laws are decided exactly on that set (transitivity via sort-then-all-pairs) and every verdict is compared with an independent token-wise reference. Every permutation of every dependency-closed subset of <=4 (thorough <=5) top-level definitions from an 18-definition pool is parsed and printed by the real code and compared with the text the property prescribes.",
   note="Trusts the reference comparator (60 lines, written from the natsort documentation) and the hand-written expected print form of the 18 pool definitions; strings outside the alphabet / longer than the bound are not explored."),
 "C19": dict(level="fault_enumeration", design="§2 C19",
   technique="exhaustive fault enumeration: a failing writer at every byte offset x 4 failure flavours x 2 writer kinds, each followed by a clean write (history), on the real WriteTo",
   text="Every single-fault execution of Module.WriteTo is run: for each of 6 modules covering every print section, the writer fails at every byte offset k in 0..len(String()) in the flavours partial-write+error, whole-call error, full-accept+error and short-write-without-error, as plain io.Writer and as io.StringWriter; chunk sizes 1,2,3,7,64 for the non-failing writer; a clean WriteTo/String follows failing runs so state leaked by a failure is seen. Oracle: n equals bytes accepted, err is the writer's first error (identity), delivered bytes equal String()[:n], no call after the failure.",
   note="Modules are fixed (6, chosen to reach every Fprint site of WriteTo); writers outside the four flavours (e.g. failing twice with different errors while still accepting data) are not modelled."),
 "C09": dict(level="model_checking", design="§2 C09",
   technique="exhaustive enumeration of all values x all spellings for widths 1..12 (thorough 1..16) plus structured-exhaustive hex-digit-alphabet enumeration for wide types, against big-integer arithmetic and LLVM's reading",
   text="For widths 1..12 (thorough ..16) every value in [-2^(w-1), 2^w-1] is pushed through every accepted spelling (decimal, u0x, s0x in upper/lower case and with leading zeros, true/false) and compared with a big-integer reference; Ident()->NewIntFromString identity is checked on all of them, on boundary sets for widths 17..64,65,127,128,129,1024,1025 and on all hex strings of length <=12 (16) over every 1- and 2-digit alphabet, which exhausts the printer's entropy-based hex/decimal decision classes; the same literals go through asm.ParseString and the printed module through llvm-as|llvm-dis against a reference module.",
   note="Wide widths are structured-exhaustive, not all 2^w values; s0x is defined by the type's width as the property states (LLVM's own active-bits reading of s0x is deliberately not used as oracle); LLVM 14 trusted for reading decimal/u0x."),
 "C16": dict(level="model_checking", design="§2 C16",
   technique="exhaustive enumeration of a bounded type universe (constructor depth <=2, thorough <=3), Equal evaluated on all ordered pairs in 6 universes of identified-struct bodies against an independent descriptor identity, plus print->parse of every type",
   text="All types of constructor depth <=2 (thorough <=3) over every type kind (2 address spaces, fixed/scalable vectors, arrays, literal/packed structs, variadic functions, identified structs A,B) are built twice as independent object graphs in 6 universes of bodies for A,B (opaque, plain, self-recursive, mutually recursive, same-body, recursive through function/array types); types.Equal is evaluated on ALL ordered pairs (about 3.8e8 quick) and must coincide with equality of the harness's own structural descriptor, which makes it an equivalence that separates every differing attribute; every type is printed in a module, re-parsed, and compared with all types again.",
   note="Reflexivity/symmetry/transitivity are implied by agreement with an equivalence relation on every pair of the universe; universes have unique type names and only structs are named, as the property states; deeper nesting than the bound is not explored."),
 "C18": dict(level="model_checking", design="§2 C18",
   technique="exhaustive enumeration of every enum constant (listed from the current source by go/types at check time) and of all flag subsets up to a bound, through String/FromString and through print+parse of a minimal module",
   text="Every typed constant of all 35 enumerated types (653 distinct values, listed from the tree under test at check time, so an added constant is covered) goes through FromString(String(v)), per-type keyword injectivity, and a print->parse round trip inside a minimal module built through the API (one template per family); all 63 AllocKind subsets, all 2047 DISPFlag member subsets and all DIFlag subsets of <=3 (thorough <=4) members with their complements are printed, parsed and compared as values.",
   note="PreemptionDSOLocalEquivalent has no grammar position (LLVM has none either) and is checked at keyword level only; DIFlag subsets larger than the bound (other than complements) are not explored."),
 "C13": dict(level="model_checking", design="§1 E2, §2 C13", engine="vhook-sched",
   technique="stateless model checking of the real printing code under a controlled scheduler: DFS over all interleavings at lock granularity (preemption-bounded where stated), with the Go race detector (blind to the scheduler's own hand-offs) and a text oracle evaluated on every schedule",
   text="For every scenario (5 module states: parsed with unnamed values, parsed kitchen-sink with quoted names, parsed with two functions, constructed never printed, constructed printed once) x every pair of 8 printer bodies (and String||String||LLString triples under a preemption bound), ALL schedules of the real code are executed: sync.Mutex is replaced through the build overlay by a shim with a scheduling point before each Lock and after each Unlock; quick explores all interleavings for the small pairs and preemption bound 3 for whole-module pairs, thorough all interleavings (48620 per whole-module pair). On each schedule the real TSan race detector must be silent (its view contains only the program's own mutex and join edges) and each returned text must equal the lone sequential text; deadlocks and panics are violations.",
   note="Complete only up to the stated thread count (2-3) and preemption bounds; relies on DRF-SC (silence of the race detector on an execution implies equivalence to a lock-granularity interleaving); modules are fixed scenarios, not all modules."),
 "C12": dict(level="model_checking", design="§1 E2/E3, §2 C12", engine="vhook-sched",
   technique="exhaustive enumeration of owned nondeterminism on the real translator: all single (thorough: pairwise) permutations of every map-range loop (overlay rewrite driven by go/types), all parse/print histories to depth 3 (4) over every entry point and reader behaviour against fresh-process references, and preemption-bounded exploration of concurrent parses under the race-detector-visible scheduler",
   text="(a) Every map iteration in asm/ir is replaced at build time by an iteration whose order the harness decides; for 7 inputs (accepted and rejected, incl. names whose natural order needs 20-digit comparison) every non-identity permutation at each executed loop (thorough: at each pair of loops) must give the same accept/reject verdict and byte-identical printed module as the sorted order. (b) Every history of depth <=3 (thorough 4) over 11 operations (ParseString of A/B/two rejected inputs, ParseBytes, Parse with 4 reader behaviours, ParseFile, print of the previous module) is replayed in one long-lived process; each parse must equal the result of a fresh process; A and B reuse the same names, literals and IDs with different meanings so that leaked caches show. (c) 7 thread sets of concurrent parses/prints are explored under the controlled scheduler up to 2 (3) preemptions with TSan on every schedule.",
   note="Inputs are fixed scenario texts (validated against llvm-as); permutations of more than two loops at once and histories longer than the bound are not explored; error *messages* of rejected inputs are not compared (only the verdict)."),
 "C14": dict(level="model_checking", design="§2 C14",
   technique="explicit enumeration of all edit histories up to a depth over the public API (stateless: every history replayed from scratch on a fresh module), crossed with every placement of one (two) observer calls; differential oracle against the observer-free history",
   text="All histories of <=4 (thorough <=5) edit operations from a 33-operation alphabet (append/insert/remove instructions, set/replace terminators, name/rename/unname values, blocks and globals, add globals/functions/blocks, name a struct type already in use, append/prepend metadata) are enumerated by breadth-first expansion of enabled operations; for each history every placement of one observer out of 9 kinds (String, WriteTo, LLString of functions/blocks/instructions, Type/Ident/String, Operands, Succs, explicit ID assignment) at every position is executed, and every placement of two observers for histories of length <=3 (4): about 3.2e6 runs in quick. The final String() must equal that of the observer-free history, must not panic on a complete module, and must be stable when repeated; observers on incomplete modules may panic (recovered) but must leave no trace.",
   note="Known findings (print-then-renumbering-edit panics / metadata renumbering) are listed in known_findings.json by panic site + first renumbering edit kind; functions/blocks are bounded (2 functions, 3 blocks); operand replacement edits belong to C15."),
 "C15": dict(level="model_checking", design="§2 C15",
   technique="exhaustive enumeration over every instruction/terminator kind (listed from the current source) x operand-list shapes x every operand slot: reflective slot model vs Operands(), write-through and substitute-all oracles on printed text, Succs() vs printed targets, before and after list edits and caller-slice mutation",
   text="A catalogue module instantiates all 54 instruction and 12 terminator kinds (the kind list comes from go/types at check time; a kind without an instance is a machinery error) with every optional operand present/absent and lists of length 0,1,2. For every user: Operands() must equal the set of value-typed slots found by reflection over the struct (so a field added later is demanded automatically), before and after replacing list elements / reallocating argument slices; through every slot a uniquely named same-typed replacement is written and exactly that occurrence of the printed instruction must change and be restorable; every value of every function is substituted through all users and must vanish from their text; Succs() must equal the printed `label` targets in order and stay inside the function, also after writing another block through each target slot; constructor-built users are re-checked after the caller mutates the slices it passed in.",
   note="One instance per (kind, shape), fixed operand types; reflection treats helper structs of package ir that are not values (Case, Incoming, Clause, OperandBundle) as parts of the user; metadata-wrapped values are not counted as operand slots."),
 "C01": dict(level="model_checking", design="§1 E4/E5, §2 C01",
   technique="deviation-bounded exhaustive enumeration of an independent grammar catalogue (every variant with <=2, thorough <=3, departures from the simplest form of each production, types from a bounded universe), each variant run through the real parser+printer and compared with LLVM 14's own reading (llvm-as|llvm-dis canonical form) of input and output",
   text="An independent text generator (it never touches the library's data model) holds a catalogue of about 100 grammar productions covering all 54 instruction and 12 terminator kinds, call sites (calling conventions, attributes, operand bundles, inline asm), exception handling, constants and all constant-expression kinds, literal forms, globals, aliases/ifuncs, function headers, parameter/function attributes, comdats, type definitions (recursive, packed, opaque, aliases), attribute groups, module-level directives, metadata tuples/strings/values/named metadata/attachments and all 28 specialised debug-info nodes. Every result is used at the type LLVM's rules give it. All variants with at most 2 (thorough 3) non-default choices are generated (9k / 88k modules), validated by llvm-as (rejects are generator defects: skipped and counted), parsed and printed by the library; the printed text must be accepted by llvm-as and its llvm-dis canonical form (top-level order, attribute-group and metadata numbering normalised) must equal that of the input. Failures are bisected to single variants and reported per minimal deviation set.",
   note="Oracle: LLVM 14 tools (trusted); LLVM tool crashes are skipped and counted; constructs LLVM 14 reads differently from the library's LLVM 15 model (several definitions of one attribute group) are kept out of the compared alphabet; unnamed-value numbering belongs to C08; nesting deeper than the catalogue templates is not explored."),
 "C02": dict(level="model_checking", design="§2 C02",
   technique="deviation-bounded exhaustive enumeration of the generator catalogue crossed with a spelling alphabet; fixpoint and structural-digest oracles on the real parser+printer, failures bisected to single variants",
   text="Every variant with <=2 (thorough <=3) deviations of the ~100-production catalogue (9k / 88k modules, including constructs LLVM 14 does not know) is written in 4 spellings (plain, every name redundantly quoted, comments and irregular whitespace on every line, reversed top-level order); for each: y=print(parse(x)) must parse, print(parse(y)) must equal y byte for byte, the reflection digests (pointer identity made explicit) of parse(x) and parse(y) must be equal, and the quoted/whitespace spellings must print the same y as the plain one.",
   note="Inputs the parser rejects are outside the quantifier (C01 reports them); numbering spellings (explicit/implicit %N) are explored by C08, literal spellings by C09/C10; no LLVM involved."),
 "C04": dict(level="model_checking", design="§1 E6, §2 C04",
   technique="deviation-bounded exhaustive enumeration of the generator catalogue plus 16 reference topologies, parsed in batches by the real translator; reflection walk of the object graph checking pointer identity of every use against the defining lists",
   text="All variants with <=2 (thorough <=3) deviations of the catalogue, including 16 reference topologies (mutually referring globals, recursion, phi/branch cycles, use before definition in layout order, blockaddress into other functions / of equally named labels / inside metadata / in use-list orders, recursive and mutually recursive types, metadata cycles and forward references, aliases of aliases, shared comdats and attribute groups), are parsed in batches of 40 so that equally named locals of many functions coexist. A reflection walk visits every field of every definition: global-like operands must be pointer-identical to elements of Globals/Aliases/IFuncs/Funcs, block/param/instruction operands to elements of the enclosing function, blockaddress blocks to blocks of the named function, named types to the TypeDefs object, comdats, attribute groups and numbered metadata to the module's definitions; Parent links must agree with containment and no block may lack a terminator.",
   note="Identity is demanded for named entities, locals, named types, comdats, attribute groups and numbered metadata only (not for interned constants or primitive type singletons); inputs the parser rejects are outside the quantifier."),
 "C05": dict(level="fault_enumeration", design="§2 C05",
   technique="exhaustive single-fault enumeration: every tagged use site of every base module redirected to an undefined name and every definition duplicated, on the real parser; LLVM binds the fault model",
   text="Base modules are all variants with <=1 (thorough <=2) deviations of the generator catalogue (1.2k / 9k modules in which every kind of reference site occurs). A tokenizer tags every definition and use of @globals, %locals/%types, $comdats, !N metadata and labels; every use site is redirected to a fresh undefined name and every definition (top-level entity, function, instruction result, label) is duplicated, one fault per run (7.7k / 45k faults). asm.ParseString must return an error and no module without panicking. A fault the library accepts or crashes on counts only if llvm-as rejects the faulted text; every 16th fault is sent to llvm-as regardless (all sampled faults are rejected by LLVM).",
   note="Single faults only; undefined attribute-group IDs are the documented exception and are not faulted; repeated attribute groups / named metadata are legal and not counted as duplicates; definition/use tagging is done on the generator's line-oriented text."),
}

NOT_APPLICABLE = {}

def main():
    props = [json.loads(l)["id"] for l in open(os.path.join(ROOT, "properties.jsonl"))]
    checks = []
    for pid in props:
        if pid not in CHECKS:
            continue
        c = CHECKS[pid]
        checks.append({
            "property_id": pid,
            "quick_cmd": f"./check {pid} --tier quick",
            "thorough_cmd": f"./check {pid} --tier thorough",
            "evidence_file": f"/verif/evidence/{pid}.json",
            "replay_cmd_template": f"./check {pid} --replay {{path}}",
            "engine": c.get("engine", "choice"),
            "level_claimed": {"category": c["level"], "text": c["text"], "design_ref": c["design"]},
            "level_note": c["note"],
            "technique": c["technique"],
        })
    na = [{"property_id": p, "reason": NOT_APPLICABLE.get(p, "check not built yet in this round; not claimed until its check exists and is quiet on the unchanged tree")} for p in props if p not in CHECKS]
    m = {
        "version": 1,
        "setup_cmd": "./setup",
        "hooks": {
            "guard": "verif",
            "enable": "go build -tags verif -overlay <generated by tools/mkoverlay> (virtual packages vhook/vexport and rewritten copies of sync users / map-range loops are injected at build time; /repo itself carries no hook commits)",
            "baseline_off_cmd": "cd /repo && go build ./... && go test -vet=off -count=1 ./...",
            "source_commits": [],
            "add_only": True,
        },
        "engines": [
            {"name": "choice", "path": "/verif/mc/choice", "serves_properties": [p for p in props if p in CHECKS and p not in ("C12", "C13")], "kind_free_text": "deviation-bounded exhaustive enumeration of inputs / programs / histories / faults over the real code"},
            {"name": "vhook-sched", "path": "/verif/hooks/vhook", "serves_properties": [p for p in ("C12", "C13") if p in CHECKS], "kind_free_text": "controlled cooperative scheduler (stateless DFS over all interleavings at lock granularity) whose hand-offs are invisible to the Go race detector, so TSan checks every explored schedule; plus harness-decided map iteration orders"},
        ],
        "checks": checks,
        "not_applicable": na,
        "notes": "All checks are bounded-exhaustive explorations of the real implementation (see DESIGN.md). LLVM 14 tools (llvm-as-14, llvm-dis-14, lli-14) are used as reference oracle where present.",
    }
    json.dump(m, open(os.path.join(ROOT, "MANIFEST.json"), "w"), indent=1)
    print("MANIFEST.json:", len(checks), "checks,", len(na), "not claimed")

main()
