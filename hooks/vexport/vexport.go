//go:build verif
// +build verif

// Package vexport is injected into github.com/llir/llvm through `go build -overlay`; it re-exports
// the library's internal packages so that the verification harness (another module) can drive them.
package vexport

import (
	"github.com/llir/llvm/internal/enc"
	"github.com/llir/llvm/internal/natsort"
)

// natsort.
var (
	NatLess    = natsort.Less
	NatStrings = natsort.Strings
)

// enc.
var (
	GlobalName   = enc.GlobalName
	GlobalID     = enc.GlobalID
	LocalName    = enc.LocalName
	LocalID      = enc.LocalID
	LabelName    = enc.LabelName
	LabelID      = enc.LabelID
	TypeName     = enc.TypeName
	AttrGroupID  = enc.AttrGroupID
	ComdatName   = enc.ComdatName
	MetadataName = enc.MetadataName
	MetadataID   = enc.MetadataID
	EscapeIdent  = enc.EscapeIdent
	EscapeString = enc.EscapeString
	Escape       = enc.Escape
	Unescape     = enc.Unescape
	Quote        = enc.Quote
	Unquote      = enc.Unquote
)
