//go:build verif
// +build verif

// Package vhook is injected into github.com/llir/llvm through `go build -overlay` by
// /verif/tools/mkoverlay; it never exists in /repo. It provides
//
//   - a cooperative scheduler (exactly one harness thread runs at a time; at every scheduling point
//     the harness-supplied chooser decides who continues), whose own hand-offs are invisible to the
//     race detector, so that a -race build still reports the *library's* races on each schedule;
//   - drop-in shims for sync.Mutex / RWMutex / WaitGroup / Once that are scheduling points and that
//     publish exactly the program's own happens-before edges to the race detector;
//   - Keys, the harness-decided iteration order for rewritten `for k := range map` loops.
//
// Outside Run() every shim falls back to the real sync type and Keys returns sorted keys.
package vhook

import (
	"sync"
	"unsafe"
)

// MaxThreads is the largest number of scheduler threads of one execution.
const MaxThreads = 6

// MaxPoints is the harness horizon: an execution with more scheduling points is aborted.
const MaxPoints = 100000

const (
	stUnused = iota
	stRunnable
	stBlocked
	stDone
)

type thread struct {
	wake    chan struct{}
	state   int
	waiting uintptr // address of the mutex the thread is blocked on; 0 if none
	wantW   bool    // RWMutex: waiting for write lock
	token   byte    // race token: thread exit publishes its writes to the joiner
}

// Chooser decides which of the enabled threads runs next. enabled holds thread ids in canonical
// order: the running thread first if it is still enabled (curEnabled), then ascending ids.
type Chooser func(enabled []int, curEnabled bool) int

var (
	active   bool
	cur      int
	nthreads int
	threads  [MaxThreads]thread
	chooser  Chooser
	points   int
	deadlock bool
	overrun  bool
	mainWake chan struct{}
	enabledB [MaxThreads]int
	panics   [MaxThreads]interface{}
)

// Active reports whether a scheduled execution is in progress.
//
//go:norace
func Active() bool { return active }

// Result describes one scheduled execution.
type Result struct {
	Deadlock bool
	Overrun  bool
	Points   int
	Panics   []interface{} // per thread; nil if it did not panic
}

// Run executes the bodies as scheduler threads under the chooser and returns when all of them have
// finished (or deadlocked). Only one Run may be in progress per process.
func Run(bodies []func(), ch Chooser) Result {
	if len(bodies) > MaxThreads {
		panic("vhook: too many threads")
	}
	setup(len(bodies), ch)
	for i := range bodies {
		i := i
		body := bodies[i]
		go func() {
			park(i)
			func() {
				defer func() {
					if r := recover(); r != nil {
						setPanic(i, r)
					}
				}()
				body()
			}()
			exit(i)
		}()
	}
	// Start: choose the first thread.
	start()
	raceDisable()
	<-mainWake
	raceEnable()
	res := finish()
	return res
}

//go:norace
func setPanic(i int, r interface{}) { panics[i] = r }

//go:norace
func setup(n int, ch Chooser) {
	nthreads = n
	chooser = ch
	points = 0
	deadlock = false
	overrun = false
	mainWake = make(chan struct{}, 1)
	for i := 0; i < MaxThreads; i++ {
		threads[i].state = stUnused
		threads[i].waiting = 0
		panics[i] = nil
	}
	for i := 0; i < n; i++ {
		threads[i].wake = make(chan struct{}, 1)
		threads[i].state = stRunnable
	}
	cur = -1
	active = true
}

//go:norace
func finish() Result {
	active = false
	res := Result{Deadlock: deadlock, Overrun: overrun, Points: points}
	res.Panics = make([]interface{}, nthreads)
	for i := 0; i < nthreads; i++ {
		res.Panics[i] = panics[i]
		if threads[i].state == stDone {
			raceAcquire(unsafe.Pointer(&threads[i].token))
		}
	}
	return res
}

// park blocks thread i until it is chosen.
func park(i int) {
	raceDisable()
	<-wakeChan(i)
	raceEnable()
}

//go:norace
func wakeChan(i int) chan struct{} { return threads[i].wake }

// start picks the first thread (called by the main goroutine).
//
//go:norace
func start() {
	next := pick(false)
	if next < 0 {
		signalMain()
		return
	}
	cur = next
	wake(next)
}

//go:norace
func wake(i int) {
	raceDisable()
	threads[i].wake <- struct{}{}
	raceEnable()
}

//go:norace
func signalMain() {
	raceDisable()
	mainWake <- struct{}{}
	raceEnable()
}

// pick computes the enabled set and asks the chooser. Returns -1 if no thread is enabled.
//
//go:norace
func pick(curEnabled bool) int {
	n := 0
	if curEnabled {
		enabledB[n] = cur
		n++
	}
	for i := 0; i < nthreads; i++ {
		if i == cur && curEnabled {
			continue
		}
		if threads[i].state == stRunnable {
			enabledB[n] = i
			n++
		}
	}
	if n == 0 {
		return -1
	}
	points++
	if points > MaxPoints {
		overrun = true
		return enabledB[0]
	}
	if n == 1 {
		return enabledB[0]
	}
	k := chooser(enabledB[:n], curEnabled)
	if k < 0 || k >= n {
		panic("vhook: chooser out of range")
	}
	return enabledB[k]
}

// Yield is a scheduling point of the running thread: another enabled thread may be chosen.
//
//go:norace
func Yield() {
	if !active {
		return
	}
	me := cur
	next := pick(true)
	if next == me {
		return
	}
	cur = next
	wake(next)
	park(me)
}

// block parks the running thread, which is now not enabled, and runs someone else.
//
//go:norace
func block() {
	me := cur
	next := pick(false)
	if next < 0 {
		// Deadlock: nobody can run. Report to main and park forever.
		deadlock = true
		signalMain()
		park(me)
		return
	}
	cur = next
	wake(next)
	park(me)
}

//go:norace
func exit(i int) {
	raceRelease(unsafe.Pointer(&threads[i].token))
	threads[i].state = stDone
	alldone := true
	for j := 0; j < nthreads; j++ {
		if threads[j].state != stDone {
			alldone = false
		}
	}
	if alldone {
		signalMain()
		return
	}
	next := pick(false)
	if next < 0 {
		deadlock = true
		signalMain()
		return
	}
	cur = next
	wake(next)
}

//go:norace
func wakeWaiters(addr uintptr) {
	for j := 0; j < nthreads; j++ {
		if threads[j].state == stBlocked && threads[j].waiting == addr {
			threads[j].state = stRunnable
			threads[j].waiting = 0
		}
	}
}

//go:norace
func blockOn(addr uintptr) {
	threads[cur].state = stBlocked
	threads[cur].waiting = addr
	block()
}

// Go runs f as a new scheduler thread when a scheduled execution is active (rewritten `go` stmt).
func Go(f func()) {
	if !Active() {
		go f()
		return
	}
	i := spawn()
	go func() {
		park(i)
		func() {
			defer func() {
				if r := recover(); r != nil {
					setPanic(i, r)
				}
			}()
			f()
		}()
		exit(i)
	}()
	Yield()
}

//go:norace
func spawn() int {
	if nthreads >= MaxThreads {
		panic("vhook: too many threads")
	}
	i := nthreads
	threads[i].wake = make(chan struct{}, 1)
	threads[i].state = stRunnable
	nthreads++
	return i
}

var _ sync.Locker = (*Mutex)(nil)

// ---- recording chooser (race-invisible; fixed arrays) -------------------------------------------

// MaxTrace is the largest number of recorded choice points of one execution.
const MaxTrace = 4096

var (
	recPrefix   [MaxTrace]int16
	recPrefixN  int
	recChoice   [MaxTrace]int16
	recN        [MaxTrace]int8
	recCurEn    [MaxTrace]bool
	recThread   [MaxTrace]int8
	recLen      int
	recDiverged bool
)

// SetPrefix installs the choice prefix to replay in the next RunRecorded.
//
//go:norace
func SetPrefix(prefix []int) {
	if len(prefix) > MaxTrace {
		panic("vhook: prefix too long")
	}
	recPrefixN = len(prefix)
	for i, p := range prefix {
		recPrefix[i] = int16(p)
	}
	recLen = 0
	recDiverged = false
}

//go:norace
func recordingChooser(enabled []int, curEnabled bool) int {
	c := 0
	if recLen < recPrefixN {
		c = int(recPrefix[recLen])
		if c >= len(enabled) {
			recDiverged = true
			c = 0
		}
	}
	if recLen < MaxTrace {
		recChoice[recLen] = int16(c)
		recN[recLen] = int8(len(enabled))
		recCurEn[recLen] = curEnabled
		recThread[recLen] = int8(enabled[c])
		recLen++
	} else {
		overrun = true
	}
	return c
}

// RunRecorded runs the bodies replaying the installed prefix and then taking choice 0 (continue
// the running thread if enabled, else the lowest enabled id) at every later point.
func RunRecorded(bodies []func()) Result {
	return Run(bodies, recordingChooser)
}

// Trace is the recorded choice sequence of the last RunRecorded.
type Trace struct {
	Choice   []int
	N        []int
	CurEn    []bool
	Thread   []int
	Diverged bool
}

// LastTrace copies out the trace of the last RunRecorded.
//
//go:norace
func LastTrace() Trace {
	t := Trace{Diverged: recDiverged}
	t.Choice = make([]int, recLen)
	t.N = make([]int, recLen)
	t.CurEn = make([]bool, recLen)
	t.Thread = make([]int, recLen)
	for i := 0; i < recLen; i++ {
		t.Choice[i] = int(recChoice[i])
		t.N[i] = int(recN[i])
		t.CurEn[i] = recCurEn[i]
		t.Thread[i] = int(recThread[i])
	}
	return t
}
