//go:build verif
// +build verif

package vhook

import (
	"sync"
	"unsafe"
)

// Mutex is the scheduling-aware stand-in for sync.Mutex.
type Mutex struct {
	real sync.Mutex
	held bool
}

//go:norace
func (m *Mutex) addr() uintptr { return uintptr(unsafe.Pointer(m)) }

// Lock locks m; a scheduling point precedes the acquisition.
//
//go:norace
func (m *Mutex) Lock() {
	if !active {
		m.real.Lock()
		return
	}
	Yield()
	for m.held {
		blockOn(m.addr())
	}
	m.held = true
	raceAcquire(unsafe.Pointer(m))
	if postAcquireYield {
		// the tree under test observes lock states without blocking (TryLock): "inside the critical
		// section" is a state of its own, so another thread may be scheduled here.
		Yield()
	}
}

// TryLock tries to lock m.
//
//go:norace
func (m *Mutex) TryLock() bool {
	if !active {
		return m.real.TryLock()
	}
	Yield()
	if m.held {
		return false
	}
	m.held = true
	raceAcquire(unsafe.Pointer(m))
	Yield() // a lock taken by TryLock is held at a scheduling point too
	return true
}

// Unlock unlocks m; a scheduling point follows the release.
//
//go:norace
func (m *Mutex) Unlock() {
	if !active {
		m.real.Unlock()
		return
	}
	if !m.held {
		panic("vhook: unlock of unlocked mutex")
	}
	raceRelease(unsafe.Pointer(m))
	m.held = false
	wakeWaiters(m.addr())
	Yield()
}

// RWMutex is the scheduling-aware stand-in for sync.RWMutex.
type RWMutex struct {
	real    sync.RWMutex
	writer  bool
	readers int
	rtok    byte
}

//go:norace
func (m *RWMutex) addr() uintptr { return uintptr(unsafe.Pointer(m)) }

//go:norace
func (m *RWMutex) Lock() {
	if !active {
		m.real.Lock()
		return
	}
	Yield()
	for m.writer || m.readers > 0 {
		blockOn(m.addr())
	}
	m.writer = true
	raceAcquire(unsafe.Pointer(m))
	raceAcquire(unsafe.Pointer(&m.rtok))
	if postAcquireYield {
		Yield()
	}
}

// TryLock tries to lock m for writing.
//
//go:norace
func (m *RWMutex) TryLock() bool {
	if !active {
		return m.real.TryLock()
	}
	Yield()
	if m.writer || m.readers > 0 {
		return false
	}
	m.writer = true
	raceAcquire(unsafe.Pointer(m))
	raceAcquire(unsafe.Pointer(&m.rtok))
	Yield()
	return true
}

// TryRLock tries to lock m for reading.
//
//go:norace
func (m *RWMutex) TryRLock() bool {
	if !active {
		return m.real.TryRLock()
	}
	Yield()
	if m.writer {
		return false
	}
	m.readers++
	raceAcquire(unsafe.Pointer(m))
	Yield()
	return true
}

//go:norace
func (m *RWMutex) Unlock() {
	if !active {
		m.real.Unlock()
		return
	}
	raceRelease(unsafe.Pointer(m))
	m.writer = false
	wakeWaiters(m.addr())
	Yield()
}

//go:norace
func (m *RWMutex) RLock() {
	if !active {
		m.real.RLock()
		return
	}
	Yield()
	for m.writer {
		blockOn(m.addr())
	}
	m.readers++
	raceAcquire(unsafe.Pointer(m))
	if postAcquireYield {
		Yield()
	}
}

//go:norace
func (m *RWMutex) RUnlock() {
	if !active {
		m.real.RUnlock()
		return
	}
	raceReleaseMerge(unsafe.Pointer(&m.rtok))
	m.readers--
	wakeWaiters(m.addr())
	Yield()
}

// RLocker returns a Locker interface that implements Lock/Unlock via RLock/RUnlock.
func (m *RWMutex) RLocker() sync.Locker { return (*rlocker)(m) }

type rlocker RWMutex

func (r *rlocker) Lock()   { (*RWMutex)(r).RLock() }
func (r *rlocker) Unlock() { (*RWMutex)(r).RUnlock() }

// Once is the scheduling-aware stand-in for sync.Once.
type Once struct {
	m    Mutex
	done bool
}

// Do calls f if and only if Do is being called for the first time for this instance of Once.
func (o *Once) Do(f func()) {
	o.m.Lock()
	defer o.m.Unlock()
	if !o.isDone() {
		defer o.setDone()
		f()
	}
}

//go:norace
func (o *Once) isDone() bool { return o.done }

//go:norace
func (o *Once) setDone() { o.done = true }

// WaitGroup is the scheduling-aware stand-in for sync.WaitGroup.
type WaitGroup struct {
	real sync.WaitGroup
	n    int
}

//go:norace
func (w *WaitGroup) addr() uintptr { return uintptr(unsafe.Pointer(w)) }

//go:norace
func (w *WaitGroup) Add(d int) {
	if !active {
		w.real.Add(d)
		return
	}
	if d < 0 {
		raceReleaseMerge(unsafe.Pointer(w))
	}
	w.n += d
	if w.n == 0 {
		wakeWaiters(w.addr())
	}
	Yield()
}

func (w *WaitGroup) Done() { w.Add(-1) }

//go:norace
func (w *WaitGroup) Wait() {
	if !active {
		w.real.Wait()
		return
	}
	Yield()
	for w.n > 0 {
		blockOn(w.addr())
	}
	raceAcquire(unsafe.Pointer(w))
}

// Locker is re-exported unchanged.
type Locker = sync.Locker

// Map is a drop-in sync.Map whose operations are scheduling points (before and after).
type Map struct{ m sync.Map }

func (m *Map) Load(key interface{}) (value interface{}, ok bool) {
	Yield()
	value, ok = m.m.Load(key)
	Yield()
	return
}

func (m *Map) Store(key, value interface{}) {
	Yield()
	m.m.Store(key, value)
	Yield()
}

func (m *Map) LoadOrStore(key, value interface{}) (actual interface{}, loaded bool) {
	Yield()
	actual, loaded = m.m.LoadOrStore(key, value)
	Yield()
	return
}

func (m *Map) LoadAndDelete(key interface{}) (value interface{}, loaded bool) {
	Yield()
	value, loaded = m.m.LoadAndDelete(key)
	Yield()
	return
}

func (m *Map) Delete(key interface{}) {
	Yield()
	m.m.Delete(key)
	Yield()
}

func (m *Map) Range(f func(key, value interface{}) bool) {
	Yield()
	m.m.Range(f)
	Yield()
}

// Pool is a drop-in sync.Pool whose Get and Put are scheduling points (before and after the
// operation): a pool is a synchronisation object, and what one thread does between taking an item
// and returning it must be interleavable with the other threads' use of the pool.
type Pool struct {
	New func() interface{}
	p   sync.Pool
}

// Get is sync.Pool.Get.
func (p *Pool) Get() interface{} {
	Yield()
	v := p.p.Get()
	if v == nil && p.New != nil {
		v = p.New()
	}
	Yield()
	return v
}

// Put is sync.Pool.Put.
func (p *Pool) Put(x interface{}) {
	Yield()
	p.p.Put(x)
	Yield()
}
