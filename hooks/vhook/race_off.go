//go:build verif && !race
// +build verif,!race

package vhook

import "unsafe"

// RaceEnabled reports whether the binary was built with the race detector.
const RaceEnabled = false

func raceDisable()                      {}
func raceEnable()                       {}
func raceAcquire(p unsafe.Pointer)      {}
func raceRelease(p unsafe.Pointer)      {}
func raceReleaseMerge(p unsafe.Pointer) {}
