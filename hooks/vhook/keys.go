//go:build verif && go1.18
// +build verif,go1.18

package vhook

import (
	"fmt"
	"sort"
)

// Arranger, when non-nil, decides the iteration order of a rewritten map loop: it receives the
// number of keys (already in canonical sorted order) and the site, and returns a permutation of
// 0..n-1 (nil = identity).
var Arranger func(n int, site string) []int

// SiteHits counts, per site, how many rewritten map loops were executed (with >=2 keys).
var SiteHits func(site string, n int)

// Keys returns the keys of m in canonical sorted order, permuted by the Arranger if one is set.
func Keys[K comparable, V any](m map[K]V, site string) []K {
	ks := make([]K, 0, len(m))
	for k := range m {
		ks = append(ks, k)
	}
	sort.Slice(ks, func(i, j int) bool { return keyLess(ks[i], ks[j]) })
	if len(ks) >= 2 {
		if SiteHits != nil {
			SiteHits(site, len(ks))
		}
		if Arranger != nil {
			if perm := Arranger(len(ks), site); perm != nil {
				out := make([]K, len(ks))
				for i, p := range perm {
					out[i] = ks[p]
				}
				return out
			}
		}
	}
	return ks
}

func keyLess(a, b interface{}) bool {
	switch a := a.(type) {
	case string:
		return a < b.(string)
	case int:
		return a < b.(int)
	case int64:
		return a < b.(int64)
	case uint64:
		return a < b.(uint64)
	}
	return fmt.Sprintf("%#v", a) < fmt.Sprintf("%#v", b)
}
