//go:build verif && race
// +build verif,race

package vhook

import (
	"runtime"
	"unsafe"
)

// RaceEnabled reports whether the binary was built with the race detector.
const RaceEnabled = true

func raceDisable()                      { runtime.RaceDisable() }
func raceEnable()                       { runtime.RaceEnable() }
func raceAcquire(p unsafe.Pointer)      { runtime.RaceAcquire(p) }
func raceRelease(p unsafe.Pointer)      { runtime.RaceRelease(p) }
func raceReleaseMerge(p unsafe.Pointer) { runtime.RaceReleaseMerge(p) }
