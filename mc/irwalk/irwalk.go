// Package irwalk is a reflection walker over the real object graph of an *ir.Module (E6): a
// structural digest in which pointer identity is made explicit by canonical DFS numbering, so two
// graphs have the same digest iff they are isomorphic including sharing.
package irwalk

import (
	"crypto/sha256"
	"encoding/hex"
	"fmt"
	"hash"
	"math/big"
	"reflect"
	"sort"
	"strings"
)

type walker struct {
	h     hash.Hash
	seen  map[uintptr]int
	n     int
	dump  *strings.Builder // optional readable dump
	depth int
}

// Digest returns the structural digest of v (normally a *ir.Module).
func Digest(v interface{}) string {
	w := &walker{h: sha256.New(), seen: map[uintptr]int{}}
	w.walk(reflect.ValueOf(v))
	return hex.EncodeToString(w.h.Sum(nil)[:12])
}

// Dump returns a readable rendering of the same traversal (for diffs in replay files).
func Dump(v interface{}) string {
	w := &walker{h: sha256.New(), seen: map[uintptr]int{}, dump: &strings.Builder{}}
	w.walk(reflect.ValueOf(v))
	return w.dump.String()
}

func (w *walker) emit(s string) {
	w.h.Write([]byte(s))
	w.h.Write([]byte{0})
	if w.dump != nil && w.dump.Len() < 1<<20 {
		w.dump.WriteString(strings.Repeat(" ", w.depth))
		w.dump.WriteString(s)
		w.dump.WriteString("\n")
	}
}

var (
	bigIntT   = reflect.TypeOf((*big.Int)(nil))
	bigFloatT = reflect.TypeOf((*big.Float)(nil))
)

func skipType(t reflect.Type) bool {
	p := t.PkgPath()
	return p == "sync" || strings.HasSuffix(p, "/vhook") || p == "sync/atomic"
}

// leafType reports whether v points to a scalar type of ir/types that carries no type name.
func leafType(t reflect.Type, v reflect.Value) bool {
	e := t.Elem()
	if e.Kind() == reflect.Struct && e.Name() == "Int" && strings.HasSuffix(e.PkgPath(), "/ir/constant") {
		// boolean constants: `true` / `false` are read as the package singletons constant.True /
		// constant.False, the spellings `i1 1` / `i1 0` as fresh objects; a boolean is a value.
		if ty := v.Elem().FieldByName("Typ"); ty.IsValid() && !ty.IsNil() {
			if bs := ty.Elem().FieldByName("BitSize"); bs.IsValid() && bs.Uint() == 1 {
				return true
			}
		}
		return false
	}
	if e.Kind() != reflect.Struct || !strings.HasSuffix(e.PkgPath(), "/ir/types") {
		return false
	}
	switch e.Name() {
	case "IntType", "FloatType", "VoidType", "LabelType", "TokenType", "MetadataType", "MMXType":
		n := v.Elem().FieldByName("TypeName")
		return !n.IsValid() || n.String() == ""
	}
	return false
}

func (w *walker) walk(v reflect.Value) {
	if !v.IsValid() {
		w.emit("invalid")
		return
	}
	t := v.Type()
	switch t.Kind() {
	case reflect.Ptr:
		if v.IsNil() {
			w.emit("nil " + t.String())
			return
		}
		if t == bigIntT {
			w.emit("big.Int " + v.Interface().(*big.Int).String())
			return
		}
		if t == bigFloatT {
			f := v.Interface().(*big.Float)
			w.emit(fmt.Sprintf("big.Float %s prec=%d neg=%v", f.Text('p', 0), f.Prec(), f.Signbit()))
			return
		}
		if leafType(t, v) {
			// an anonymous scalar type (i32, double, void, ...) is a value: which occurrences share
			// one Go object is not structure (`i1 1` and `i1 true` are read through different
			// constructors, one of which uses the package's predeclared types.I1).
			w.emit("leaf-type " + t.String())
			w.depth++
			w.walk(v.Elem())
			w.depth--
			return
		}
		p := v.Pointer()
		if k, ok := w.seen[p]; ok {
			w.emit(fmt.Sprintf("ref #%d %s", k, t.String()))
			return
		}
		w.seen[p] = w.n
		w.emit(fmt.Sprintf("new #%d %s", w.n, t.String()))
		w.n++
		w.depth++
		w.walk(v.Elem())
		w.depth--
	case reflect.Interface:
		if v.IsNil() {
			w.emit("nil-iface")
			return
		}
		w.walk(v.Elem())
	case reflect.Struct:
		if skipType(t) {
			return
		}
		w.emit("struct " + t.String())
		w.depth++
		for i := 0; i < v.NumField(); i++ {
			f := t.Field(i)
			if skipType(f.Type) {
				continue
			}
			w.emit("." + f.Name)
			w.walk(v.Field(i))
		}
		w.depth--
	case reflect.Slice, reflect.Array:
		if t.Kind() == reflect.Slice && v.IsNil() {
			w.emit("slice len=0")
			return
		}
		w.emit(fmt.Sprintf("slice len=%d", v.Len()))
		if t.Elem().Kind() == reflect.Uint8 {
			b := make([]byte, v.Len())
			for i := range b {
				b[i] = byte(v.Index(i).Uint())
			}
			w.emit(fmt.Sprintf("%q", b))
			return
		}
		w.depth++
		for i := 0; i < v.Len(); i++ {
			w.walk(v.Index(i))
		}
		w.depth--
	case reflect.Map:
		keys := v.MapKeys()
		sort.Slice(keys, func(i, j int) bool { return fmt.Sprint(keys[i].Interface()) < fmt.Sprint(keys[j].Interface()) })
		w.emit(fmt.Sprintf("map len=%d", len(keys)))
		w.depth++
		for _, k := range keys {
			w.emit("key " + fmt.Sprint(k.Interface()))
			w.walk(v.MapIndex(k))
		}
		w.depth--
	case reflect.String:
		w.emit(fmt.Sprintf("%q", v.String()))
	case reflect.Bool:
		w.emit(fmt.Sprint(v.Bool()))
	case reflect.Int, reflect.Int8, reflect.Int16, reflect.Int32, reflect.Int64:
		w.emit(fmt.Sprint(v.Int()))
	case reflect.Uint, reflect.Uint8, reflect.Uint16, reflect.Uint32, reflect.Uint64, reflect.Uintptr:
		w.emit(fmt.Sprint(v.Uint()))
	case reflect.Float32, reflect.Float64:
		w.emit(fmt.Sprint(v.Float()))
	case reflect.Func, reflect.Chan, reflect.UnsafePointer:
		w.emit(t.Kind().String())
	default:
		w.emit("?" + t.String())
	}
}
