// Package fw is the shared plumbing of the /verif checks: evidence files, violation and
// known-finding reporting, replay artefacts, parallel enumeration helpers and the LLVM 14 oracle.
package fw

import (
	"crypto/sha256"
	"encoding/hex"
	"encoding/json"
	"fmt"
	"os"
	"path/filepath"
	"runtime"
	"sort"
	"strconv"
	"strings"
	"sync"
	"sync/atomic"
	"time"
)

// Root is the /verif directory.
var Root = envOr("VERIF_ROOT", "/verif")

func envOr(k, d string) string {
	if v := os.Getenv(k); v != "" {
		return v
	}
	return d
}

// Finding is one entry of known_findings.json.
type Finding struct {
	Property    string `json:"property"`
	Signature   string `json:"signature"`
	Witness     string `json:"witness"`
	Description string `json:"description"`
}

type knownFile struct {
	Open  []Finding `json:"open"`
	Fixed []string  `json:"fixed"`
}

// Check carries the state of one run of one property check.
type Check struct {
	ID    string
	Tier  string
	Seed  int64
	Level string // evidence level

	start time.Time
	mu    sync.Mutex

	known      map[string]Finding
	violations map[string]*violation // by signature
	vorder     []string
	knownHit   map[string]int
	extraViol  int64

	// Coverage counters (atomic).
	Evaluations int64
	Transitions int64
	Validated   int64
	Invalid     int64 // generated cases the reference (LLVM) rejected: skipped, never violations

	distinct    map[[16]byte]struct{}
	distinctN   int64 // cases distinct by construction (not hashed)
	outcomes    map[[16]byte]struct{}
	samples     []interface{}
	Exhaustive  bool
	Rule        string
	Assumptions []string
	Extra       map[string]interface{}
	deadline    time.Time
	budgetHit   int32
}

type violation struct {
	Signature string
	Detail    interface{}
	Count     int
	Path      string
}

// New creates the run state, loading known findings for the property.
func New(id, tier string) *Check {
	seed, _ := strconv.ParseInt(os.Getenv("VERIF_SEED"), 10, 64)
	c := &Check{ID: id, Tier: tier, Seed: seed, Level: "model_checking", start: time.Now(),
		known: map[string]Finding{}, violations: map[string]*violation{}, knownHit: map[string]int{},
		distinct: map[[16]byte]struct{}{}, outcomes: map[[16]byte]struct{}{}, Exhaustive: true,
		Extra: map[string]interface{}{}}
	var kf knownFile
	if b, err := os.ReadFile(filepath.Join(Root, "known_findings.json")); err == nil {
		if err := json.Unmarshal(b, &kf); err != nil {
			Fatalf("known_findings.json: %v", err)
		}
	}
	for _, f := range kf.Open {
		if f.Property == id {
			c.known[f.Signature] = f
		}
	}
	return c
}

// FullBoundsInQuick lists the checks whose complete ("thorough") bounds cost under a minute: their
// quick tier runs those bounds too, and their thorough tier goes one step deeper (Deep).
var FullBoundsInQuick = map[string]bool{"C02": true, "C03": true, "C04": true, "C06": true, "C07": true, "C09": true, "C15": true, "C16": true, "C19": true, "C20": true}

// Quick reports whether the reduced bounds of the quick tier apply.
func (c *Check) Quick() bool { return c.Tier != "thorough" && !FullBoundsInQuick[c.ID] }

// Deep reports whether the extra depth of the thorough tier of a FullBoundsInQuick check applies.
func (c *Check) Deep() bool { return c.Tier == "thorough" && FullBoundsInQuick[c.ID] }

// SetBudget sets an internal wall-clock budget; when exceeded, enumeration loops that poll
// OverBudget stop early and the run is reported exhaustive:false (never a failure).
func (c *Check) SetBudget(d time.Duration) { c.deadline = c.start.Add(d) }

// OverBudget reports whether the internal budget is spent (and records that it was hit).
func (c *Check) OverBudget() bool {
	if c.deadline.IsZero() || time.Now().Before(c.deadline) {
		return false
	}
	if atomic.CompareAndSwapInt32(&c.budgetHit, 0, 1) {
		c.mu.Lock()
		c.Exhaustive = false
		c.mu.Unlock()
	}
	return true
}

// Fatalf reports a machinery error (exit 2; never a VIOLATION line).
func Fatalf(f string, a ...interface{}) {
	fmt.Fprintf(os.Stderr, "MACHINERY-ERROR: "+f+"\n", a...)
	os.Exit(2)
}

func h16(s string) [16]byte {
	x := sha256.Sum256([]byte(s))
	var r [16]byte
	copy(r[:], x[:16])
	return r
}

// Case records one explored case: its canonical input key (for distinct counting) and its
// observed outcome (for the vacuity guard).
func (c *Check) Case(inputKey, outcome string) {
	atomic.AddInt64(&c.Evaluations, 1)
	ik, ok := h16(inputKey), h16(outcome)
	c.mu.Lock()
	c.distinct[ik] = struct{}{}
	c.outcomes[ok] = struct{}{}
	c.mu.Unlock()
}

// CaseN records n evaluations belonging to already-counted distinct cases.
func (c *Check) CaseN(n int64) { atomic.AddInt64(&c.Evaluations, n) }

// DistinctN records n evaluated cases that are pairwise distinct by construction of the
// enumeration (too many to hash individually).
func (c *Check) DistinctN(n int64) {
	atomic.AddInt64(&c.Evaluations, n)
	atomic.AddInt64(&c.distinctN, n)
}

// Distinct adds a distinct-case key without counting an evaluation.
func (c *Check) Distinct(inputKey string) {
	ik := h16(inputKey)
	c.mu.Lock()
	c.distinct[ik] = struct{}{}
	c.mu.Unlock()
}

// Outcome adds an observed-outcome key.
func (c *Check) Outcome(o string) {
	ok := h16(o)
	c.mu.Lock()
	c.outcomes[ok] = struct{}{}
	c.mu.Unlock()
}

// Sample keeps up to 12 written-out cases for the evidence file.
func (c *Check) Sample(v interface{}) {
	c.mu.Lock()
	if len(c.samples) < 12 {
		c.samples = append(c.samples, v)
	}
	c.mu.Unlock()
}

// NSamples returns how many samples were kept.
func (c *Check) NSamples() int { c.mu.Lock(); defer c.mu.Unlock(); return len(c.samples) }

// Step adds executed transitions.
func (c *Check) Step(n int64) { atomic.AddInt64(&c.Transitions, n) }

// Valid adds cases that were run on the real code / validated against LLVM.
func (c *Check) Valid(n int64) { atomic.AddInt64(&c.Validated, n) }

// Violation reports a property violation with a narrow signature. The first witness per
// signature is kept as a replay artefact. Signatures listed as open known findings are reported
// as KNOWN-FINDING and do not fail the run.
func (c *Check) Violation(sig string, detail interface{}) {
	c.mu.Lock()
	defer c.mu.Unlock()
	if _, ok := c.known[sig]; ok {
		c.knownHit[sig]++
		return
	}
	if v, ok := c.violations[sig]; ok {
		v.Count++
		return
	}
	if len(c.violations) >= 40 {
		c.extraViol++
		return
	}
	v := &violation{Signature: sig, Detail: detail, Count: 1}
	c.violations[sig] = v
	c.vorder = append(c.vorder, sig)
}

// NumViolations returns the number of distinct violation signatures so far.
func (c *Check) NumViolations() int { c.mu.Lock(); defer c.mu.Unlock(); return len(c.violations) }

// Finish writes replay artefacts and the evidence file, prints the verdict lines and exits.
func (c *Check) Finish() {
	c.mu.Lock()
	defer c.mu.Unlock()
	wall := time.Since(c.start).Seconds()
	// Known findings.
	var ks []string
	for s := range c.knownHit {
		ks = append(ks, s)
	}
	sort.Strings(ks)
	for _, s := range ks {
		fmt.Printf("KNOWN-FINDING: property=%s %s (%d cases; witness: %s)\n", c.ID, s, c.knownHit[s], Trunc(strings.ReplaceAll(c.known[s].Witness, "\n", " | "), 260))
	}
	var unseen []string
	for s := range c.known {
		if c.knownHit[s] == 0 {
			unseen = append(unseen, s)
		}
	}
	sort.Strings(unseen)
	for _, s := range unseen {
		fmt.Printf("NOTE: listed finding not observed in this run: property=%s %s\n", c.ID, s)
	}
	// Violations.
	for _, s := range c.vorder {
		v := c.violations[s]
		dir := filepath.Join(Root, "replays", c.ID)
		if d := os.Getenv("VERIF_EVIDENCE_DIR"); d != "" {
			dir = filepath.Join(d, "replays", c.ID)
		}
		os.MkdirAll(dir, 0o755)
		hs := sha256.Sum256([]byte(s))
		v.Path = filepath.Join(dir, hex.EncodeToString(hs[:6])+".json")
		b, _ := json.MarshalIndent(map[string]interface{}{"property": c.ID, "signature": s, "count": v.Count, "tier": c.Tier, "case": v.Detail}, "", " ")
		os.WriteFile(v.Path, b, 0o644)
		fmt.Printf("VIOLATION property=%s replay=%s signature=%q count=%d\n", c.ID, v.Path, s, v.Count)
	}
	if c.extraViol > 0 {
		fmt.Printf("NOTE: %d further violation reports with other signatures suppressed\n", c.extraViol)
	}
	cov := map[string]interface{}{
		"evaluations":                   c.Evaluations,
		"distinct_nontrivial":           int64(len(c.distinct)) + c.distinctN,
		"distinct_outcomes":             len(c.outcomes),
		"rule":                          c.Rule,
		"samples":                       c.samples,
		"states":                        int64(len(c.distinct)) + c.distinctN,
		"transitions":                   maxI(c.Transitions, c.Evaluations),
		"traces_validated_against_impl": c.Validated,
		"invalid_generated_skipped":     c.Invalid,
		"exhaustive":                    c.Exhaustive && len(c.violations) == 0,
		"known_findings_hit":            c.knownHit,
	}
	for k, v := range c.Extra {
		cov[k] = v
	}
	if len(c.samples) == 0 {
		cov["samples"] = []interface{}{"(none recorded)"}
	}
	ev := map[string]interface{}{
		"property_id": c.ID, "tier": c.Tier, "seed": c.Seed, "level": c.Level,
		"coverage": cov, "assumptions": c.Assumptions, "wall_s": wall, "violations": len(c.violations),
	}
	if c.Assumptions == nil {
		ev["assumptions"] = []string{}
	}
	b, _ := json.MarshalIndent(ev, "", " ")
	evdir := filepath.Join(Root, "evidence")
	if d := os.Getenv("VERIF_EVIDENCE_DIR"); d != "" {
		evdir = d
	}
	os.MkdirAll(evdir, 0o755)
	if err := os.WriteFile(filepath.Join(evdir, c.ID+".json"), b, 0o644); err != nil {
		Fatalf("write evidence: %v", err)
	}
	fmt.Printf("%s %s: evaluations=%d distinct=%d outcomes=%d transitions=%d validated=%d invalid_skipped=%d exhaustive=%v known=%d violations=%d wall=%.1fs\n",
		c.ID, c.Tier, c.Evaluations, int64(len(c.distinct))+c.distinctN, len(c.outcomes), maxI(c.Transitions, c.Evaluations), c.Validated, c.Invalid, cov["exhaustive"], len(c.knownHit), len(c.violations), wall)
	if len(c.violations) > 0 {
		os.Exit(1)
	}
	os.Exit(0)
}

func maxI(a, b int64) int64 {
	if a > b {
		return a
	}
	return b
}

// Workers is the number of parallel workers for in-process enumeration.
func Workers() int {
	n := runtime.NumCPU()
	if v, err := strconv.Atoi(os.Getenv("VERIF_WORKERS")); err == nil && v > 0 {
		n = v
	}
	return n
}

// ParallelFor runs f(i) for i in [0,n) on Workers() goroutines, in chunks, in a deterministic
// assignment (the set of cases never depends on scheduling).
func ParallelFor(n int, f func(i int)) {
	w := Workers()
	if w > n {
		w = n
	}
	if w <= 1 {
		for i := 0; i < n; i++ {
			f(i)
		}
		return
	}
	var next int64
	var wg sync.WaitGroup
	for k := 0; k < w; k++ {
		wg.Add(1)
		go func() {
			defer wg.Done()
			for {
				i := int(atomic.AddInt64(&next, 1) - 1)
				if i >= n {
					return
				}
				f(i)
			}
		}()
	}
	wg.Wait()
}

// Try runs f and converts a panic into an error string ("" if none) with the top library frame.
func Try(f func()) (panicked string) {
	defer func() {
		if r := recover(); r != nil {
			panicked = fmt.Sprintf("%v", r)
			if panicked == "" {
				panicked = "panic"
			}
			panicked += " @" + panicSite()
		}
	}()
	f()
	return ""
}

// panicSite returns the innermost github.com/llir/llvm function on the stack of a recovered panic.
func panicSite() string {
	pcs := make([]uintptr, 64)
	n := runtime.Callers(3, pcs)
	fr := runtime.CallersFrames(pcs[:n])
	for {
		f, more := fr.Next()
		if strings.Contains(f.Function, "github.com/llir/") && !strings.Contains(f.Function, "/vhook") {
			fn := f.Function
			if i := strings.LastIndex(fn, "/"); i >= 0 {
				fn = fn[i+1:]
			}
			return fn
		}
		if !more {
			break
		}
	}
	return "?"
}

// PanicSiteOf extracts the "@site" suffix of a Try result.
func PanicSiteOf(p string) string {
	if i := strings.LastIndex(p, " @"); i >= 0 {
		return p[i+2:]
	}
	return "?"
}

// Trunc shortens s for messages.
func Trunc(s string, n int) string {
	if len(s) <= n {
		return s
	}
	return s[:n] + "…"
}

// LibraryFrame returns the first github.com/llir/llvm function named in a debug.Stack() dump, or "".
func LibraryFrame(stack string) string {
	for _, ln := range strings.Split(stack, "\n") {
		if strings.HasPrefix(ln, "github.com/llir/llvm/") && !strings.Contains(ln, "/vhook") && !strings.Contains(ln, "/vexport") {
			fn := ln
			if i := strings.LastIndex(fn, "("); i > 0 {
				fn = fn[:i]
			}
			if i := strings.LastIndex(fn, "/"); i >= 0 {
				fn = fn[i+1:]
			}
			return fn
		}
	}
	return ""
}
