package fw

import (
	"sync/atomic"
	"bytes"
	"os"
	"os/exec"
	"strings"
	"sync"
)

var (
	llvmOnce sync.Once
	llvmOK   bool
)

// HaveLLVM reports whether the LLVM 14 tools used as reference oracle are installed.
func HaveLLVM() bool {
	llvmOnce.Do(func() {
		if os.Getenv("VERIF_NO_LLVM") != "" {
			return
		}
		_, e1 := exec.LookPath("llvm-as-14")
		_, e2 := exec.LookPath("llvm-dis-14")
		_, e3 := exec.LookPath("opt-14")
		llvmOK = e1 == nil && e2 == nil && e3 == nil
	})
	return llvmOK
}

// AsDis runs text through llvm-as-14 | llvm-dis-14 and returns LLVM's re-printed module. ok is
// false if LLVM rejects the text (stderr holds the message). A "warning: ignoring" (LLVM stripped
// invalid debug info instead of failing) is reported through warned.
func AsDis(text string) (out string, stderr string, ok bool, warned bool) {
	out, stderr, ok, warned = asDis(text)
	if !ok && IsToolCrash(stderr) {
		atomic.AddInt64(&ToolCrashes, 1)
	}
	return
}

// ToolCrashes counts LLVM tool crashes (a defect of the oracle, never of the library).
var ToolCrashes int64

// IsToolCrash reports whether stderr shows that the LLVM tool itself crashed.
func IsToolCrash(stderr string) bool {
	return strings.Contains(stderr, "PLEASE submit a bug report") || strings.Contains(stderr, "Stack dump:")
}

func asDis(text string) (out string, stderr string, ok bool, warned bool) {
	as := exec.Command("llvm-as-14", "-o", "-", "-")
	as.Stdin = strings.NewReader(text)
	var bc, e1 bytes.Buffer
	as.Stdout, as.Stderr = &bc, &e1
	if err := as.Run(); err != nil {
		return "", e1.String(), false, false
	}
	warned = strings.Contains(e1.String(), "warning")
	dis := exec.Command("llvm-dis-14", "-o", "-", "-")
	dis.Stdin = &bc
	var o, e2 bytes.Buffer
	dis.Stdout, dis.Stderr = &o, &e2
	if err := dis.Run(); err != nil {
		return "", e2.String(), false, warned
	}
	return o.String(), e1.String(), true, warned
}

// LLVMAccepts reports whether llvm-as-14 (verifier on) accepts text.
func LLVMAccepts(text string) (ok bool, stderr string) {
	as := exec.Command("llvm-as-14", "-o", "/dev/null", "-")
	as.Stdin = strings.NewReader(text)
	var e1 bytes.Buffer
	as.Stderr = &e1
	err := as.Run()
	return err == nil, e1.String()
}

// Lli runs text with lli-14 and returns the exit code of main (-1 on failure to run).
func Lli(text string) (code int, stderr string) {
	cmd := exec.Command("lli-14", "-")
	cmd.Stdin = strings.NewReader(text)
	var e bytes.Buffer
	cmd.Stderr = &e
	err := cmd.Run()
	if err == nil {
		return 0, e.String()
	}
	if ee, ok := err.(*exec.ExitError); ok {
		return ee.ExitCode(), e.String()
	}
	return -1, err.Error()
}
