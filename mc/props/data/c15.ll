%S = type { i32, { i8, float } }
@G = global i32 0
@TI = external constant i8
@Arr = global [4 x i32] zeroinitializer
declare void @vf()
declare i32 @f1(i32)
declare i32 @f2(i32, float)
declare i32 @fv(i32, ...)
declare i32 @__gxx_personality_v0(...)
declare i32 @__CxxFrameHandler3(...)

define void @unary_binary(i32 %a, i32 %b, float %x, float %y) {
  %r0 = fneg float %x
  %r1 = add i32 %a, %b
  %r2 = fadd float %x, %y
  %r3 = sub i32 %a, %b
  %r4 = fsub float %x, %y
  %r5 = mul i32 %a, %b
  %r6 = fmul float %x, %y
  %r7 = udiv i32 %a, %b
  %r8 = sdiv i32 %a, %b
  %r9 = fdiv float %x, %y
  %r10 = urem i32 %a, %b
  %r11 = srem i32 %a, %b
  %r12 = frem float %x, %y
  %r13 = shl i32 %a, %b
  %r14 = lshr i32 %a, %b
  %r15 = ashr i32 %a, %b
  %r16 = and i32 %a, %b
  %r17 = or i32 %a, %b
  %r18 = xor i32 %a, %b
  %r19 = add i32 %a, 7
  %r20 = add i32 %a, %a
  ret void
}

define void @vector_aggregate(<4 x i32> %v, <4 x i32> %w, i32 %i, i32 %e, %S %s, [2 x i32] %arr, float %fl) {
  %r0 = extractelement <4 x i32> %v, i32 %i
  %r1 = insertelement <4 x i32> %v, i32 %e, i32 %i
  %r2 = shufflevector <4 x i32> %v, <4 x i32> %w, <4 x i32> <i32 0, i32 5, i32 2, i32 7>
  %r3 = extractvalue %S %s, 0
  %r4 = extractvalue %S %s, 1, 1
  %r5 = insertvalue %S %s, i32 %e, 0
  %r6 = insertvalue %S %s, float %fl, 1, 1
  %r7 = extractvalue [2 x i32] %arr, 1
  ret void
}

define void @memory(i32* %p, i32 %n, i32 %v, %S* %sp, <2 x i32*> %vp, <2 x i64> %vi, float* %fp, float %fl) {
  %r0 = alloca i32
  %r1 = alloca i32, i32 %n
  %r2 = load i32, i32* %p
  store i32 %v, i32* %p
  fence seq_cst
  %r3 = cmpxchg i32* %p, i32 %v, i32 %n seq_cst monotonic
  %r4 = atomicrmw add i32* %p, i32 %v seq_cst
  %r5 = getelementptr i32, i32* %p
  %r6 = getelementptr i32, i32* %p, i32 %n
  %r7 = getelementptr %S, %S* %sp, i32 %n, i32 1, i32 0
  %r8 = getelementptr i32, <2 x i32*> %vp, <2 x i64> %vi
  %r9 = atomicrmw fadd float* %fp, float %fl monotonic
  %r10 = load atomic i32, i32* %p acquire, align 4
  ret void
}

define void @conversion(i64 %a, i32 %b, double %d, float %f, i8* %p, i8 addrspace(1)* %q) {
  %r0 = trunc i64 %a to i32
  %r1 = zext i32 %b to i64
  %r2 = sext i32 %b to i64
  %r3 = fptrunc double %d to float
  %r4 = fpext float %f to double
  %r5 = fptoui float %f to i32
  %r6 = fptosi float %f to i32
  %r7 = uitofp i32 %b to float
  %r8 = sitofp i32 %b to float
  %r9 = ptrtoint i8* %p to i64
  %r10 = inttoptr i64 %a to i8*
  %r11 = bitcast i8* %p to i32*
  %r12 = addrspacecast i8* %p to i8 addrspace(1)*
  ret void
}

define i32 @other(i32 %a, i32 %b, float %x, float %y, i1 %c, i8* %va, i32 (i32)* %fp) {
entry:
  %r0 = icmp eq i32 %a, %b
  %r1 = fcmp olt float %x, %y
  %r2 = select i1 %c, i32 %a, i32 %b
  %r3 = freeze i32 %a
  call void @vf()
  %r4 = call i32 @f1(i32 %a)
  %r5 = call i32 @f2(i32 %a, float %x)
  %r6 = call i32 (i32, ...) @fv(i32 %a, i32 %b, float %x)
  %r7 = call i32 %fp(i32 %a)
  %r8 = call i32 @f1(i32 %a) [ "tag"() ]
  %r9 = call i32 @f1(i32 %a) [ "tag"(i32 %b) ]
  %r10 = call i32 @f1(i32 %a) [ "tag"(i32 %b, float %x), "other"(i1 %c) ]
  %r11 = va_arg i8* %va, i32
  %r12 = call i32 @f2(i32 signext %a, float %x)
  br i1 %c, label %left, label %right
left:
  br label %join
right:
  br label %join
join:
  %p1 = phi i32 [ %a, %left ], [ %b, %right ]
  %p2 = phi i32 [ 1, %left ], [ %r2, %right ]
  br label %one
one:
  %p3 = phi i32 [ %p1, %join ]
  ret i32 %p3
}

define i32 @terms(i32 %a, i1 %c, i8* %addr) {
entry:
  switch i32 %a, label %d [
  ]
d:
  switch i32 %a, label %e [
    i32 1, label %f
  ]
e:
  switch i32 %a, label %f [
    i32 1, label %g
    i32 2, label %h
  ]
f:
  indirectbr i8* %addr, []
g:
  indirectbr i8* %addr, [label %h]
h:
  indirectbr i8* %addr, [label %i, label %j]
i:
  br i1 %c, label %j, label %k
j:
  br label %k
k:
  ret i32 %a
}

define void @retvoid() {
  ret void
}

define void @unreach() {
  unreachable
}

define i32 @invoke_lp(i32 %a, float %x, i8* %ti) personality i8* bitcast (i32 (...)* @__gxx_personality_v0 to i8*) {
entry:
  invoke void @vf() to label %n1 unwind label %lp1
n1:
  %r1 = invoke i32 @f1(i32 %a) to label %n2 unwind label %lp2
n2:
  %r2 = invoke i32 @f2(i32 %a, float %x) [ "tag"(i32 %a), "t2"() ] to label %n3 unwind label %lp3
n3:
  ret i32 %r2
lp1:
  %l1 = landingpad { i8*, i32 } cleanup
  resume { i8*, i32 } %l1
lp2:
  %l2 = landingpad { i8*, i32 } catch i8* @TI
  resume { i8*, i32 } %l2
lp3:
  %l3 = landingpad { i8*, i32 } cleanup catch i8* @TI filter [1 x i8*] zeroinitializer
  resume { i8*, i32 } %l3
}

define void @seh(i32 %a, i8* %p) personality i8* bitcast (i32 (...)* @__CxxFrameHandler3 to i8*) {
entry:
  invoke void @vf() to label %cont unwind label %cs1
cont:
  invoke void @vf() to label %cont2 unwind label %cs2
cont2:
  invoke void @vf() to label %done unwind label %cu1
cs1:
  %s1 = catchswitch within none [label %h1] unwind to caller
h1:
  %c1 = catchpad within %s1 []
  catchret from %c1 to label %done
cs2:
  %s2 = catchswitch within none [label %h2, label %h3] unwind label %cu1
h2:
  %c2 = catchpad within %s2 [i32 %a]
  catchret from %c2 to label %done
h3:
  %c3 = catchpad within %s2 [i32 %a, i8* %p]
  call void @vf() [ "funclet"(token %c3) ]
  catchret from %c3 to label %done
cu1:
  %u1 = cleanuppad within none []
  cleanupret from %u1 unwind label %cu2
cu2:
  %u2 = cleanuppad within none [i32 %a]
  cleanupret from %u2 unwind to caller
done:
  ret void
}

define void @nested_eh(i32 %a, i8* %p) personality i8* bitcast (i32 (...)* @__CxxFrameHandler3 to i8*) {
entry:
  invoke void @vf() to label %done unwind label %inner.dispatch
inner.dispatch:
  %cs1 = catchswitch within none [label %inner.catch] unwind label %outer.dispatch
inner.catch:
  %cp1 = catchpad within %cs1 [i8* null, i32 64, i8* null]
  catchret from %cp1 to label %done
outer.dispatch:
  %cs2 = catchswitch within none [label %outer.catch, label %outer.catch2] unwind to caller
outer.catch:
  %cp2 = catchpad within %cs2 [i32 %a, i8* %p]
  catchret from %cp2 to label %tail
outer.catch2:
  %cp3 = catchpad within %cs2 [i8* null, i32 64, i8* null]
  catchret from %cp3 to label %tail
tail:
  indirectbr i8* %p, [label %done, label %tail2]
tail2:
  %r = invoke i32 (i32, ...) @fv(i32 %a, i32 %a, i32 %a) to label %done unwind label %inner.dispatch
done:
  ret void
}

declare void @lf(label, i32)

define void @labels(i32 %x) personality i8* bitcast (i32 (...)* @__gxx_personality_v0 to i8*) {
entry:
  br label %entry2
entry2:
  invoke void @lf(label %other, i32 %x) to label %cont unwind label %lpad
cont:
  invoke void @vf() [ "blocks"(label %other, label %cont2) ] to label %cont2 unwind label %lpad
cont2:
  callbr void asm sideeffect "", "X"(i8* blockaddress(@labels, %t1)) [ "b"(label %cont2, label %entry2) ] to label %other [label %t1]
t1:
  ret void
other:
  ret void
lpad:
  %l = landingpad { i8*, i32 } cleanup
  resume { i8*, i32 } %l
}

define void @nested_pad() personality i8* bitcast (i32 (...)* @__CxxFrameHandler3 to i8*) {
entry:
  invoke void @vf() to label %done unwind label %outer
outer:
  %o = cleanuppad within none []
  invoke void @vf() [ "funclet"(token %o) ] to label %oc unwind label %inner
oc:
  cleanupret from %o unwind to caller
inner:
  %in = cleanuppad within %o [i32 1, i32 2]
  cleanupret from %in unwind to caller
done:
  ret void
}

define i32 @callbrs(i32 %a) {
entry:
  callbr void asm sideeffect "", "X"(i8* blockaddress(@callbrs, %t1)) to label %n1 [label %t1]
n1:
  %r = callbr i32 asm "", "=r,r,X,X"(i32 %a, i8* blockaddress(@callbrs, %t1), i8* blockaddress(@callbrs, %t2)) to label %n2 [label %t1, label %t2]
n2:
  callbr void asm sideeffect "", ""() to label %t2 []
t1:
  ret i32 0
t2:
  ret i32 %a
}

define i32 @repeated_predecessors(i32 %a, i32 %b) {
entry:
  switch i32 %a, label %other [
    i32 0, label %merge
    i32 1, label %merge
    i32 2, label %merge
  ]
other:
  br i1 undef, label %merge, label %merge
merge:
  %rp1 = phi i32 [ %a, %entry ], [ %a, %entry ], [ %a, %entry ], [ 7, %other ], [ 7, %other ]
  %rp2 = phi i32 [ %b, %other ], [ %b, %other ], [ %a, %entry ], [ %a, %entry ], [ %a, %entry ]
  %rp3 = add i32 %rp1, %rp2
  ret i32 %rp3
}

define void @repeated_targets(i8* %addr, i32 %a) {
entry:
  switch i32 %a, label %c [
    i32 0, label %d
    i32 1, label %c
    i32 2, label %d
  ]
c:
  indirectbr i8* %addr, [label %c, label %d, label %c]
d:
  br i1 undef, label %e, label %e
e:
  ret void
}
