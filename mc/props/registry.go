// Package props holds one driver per property.
package props

import (
	"encoding/json"
	"os"

	"verif/fw"
)

// Prop is one registered property check.
type Prop struct {
	Run    func(c *fw.Check)
	Replay func(c *fw.Check, path string)
}

// Registry maps property ids to their checks.
var Registry = map[string]Prop{}

// loadReplay reads the "case" payload of a replay file into v.
func loadReplay(path string, v interface{}) {
	b, err := os.ReadFile(path)
	if err != nil {
		fw.Fatalf("replay: %v", err)
	}
	var f struct {
		Case json.RawMessage `json:"case"`
	}
	if err := json.Unmarshal(b, &f); err != nil {
		fw.Fatalf("replay: %v", err)
	}
	if err := json.Unmarshal(f.Case, v); err != nil {
		fw.Fatalf("replay: %v", err)
	}
}
