package props

import (
	"fmt"
	"strings"

	"github.com/llir/llvm/ir/types"

	"verif/fw"
)

// Boundary PARAMETERS. The universes vary the shape of types over small numbers; here the shape is
// fixed and each numeric attribute takes boundary values (array lengths up to 2^64-1, vector
// lengths, integer widths and address spaces up to LLVM's limits, values that agree in their low 8 /
// 31 / 32 / 63 bits): Equal on all ordered pairs against the descriptor identity, and every type
// printed, parsed back and compared with all of them again (a length printed through a signed or
// narrower conversion comes back as another type, or not at all).
func c16boundaries(c *fw.Check) {
	var ds []*td
	lens := []uint64{0, 1, 2, 255, 256, 1<<31 - 1, 1 << 31, 1<<32 - 1, 1 << 32, 1<<32 + 1, 1<<63 - 1, 1 << 63, 1<<63 + 1, 1<<64 - 1}
	for _, l := range lens {
		ds = append(ds, &td{K: "arr", Len: l, Elem: tInt(8)})
		ds = append(ds, tPtr(&td{K: "arr", Len: l, Elem: tInt(8)}, 0))
		ds = append(ds, &td{K: "struct", Fields: []*td{{K: "arr", Len: l, Elem: tInt(8)}}})
	}
	for _, l := range []uint64{1, 2, 255, 256, 65535, 65536, 1<<31 - 1, 1 << 31, 1<<32 - 1} {
		ds = append(ds, &td{K: "vec", Len: l, Elem: tInt(8)})
		ds = append(ds, &td{K: "vec", Len: l, Scal: true, Elem: tInt(8)})
	}
	for _, b := range []uint64{1, 2, 7, 8, 9, 255, 256, 257, 65535, 65536, 1<<23 - 1, 1<<23 - 2} {
		ds = append(ds, tInt(b))
		ds = append(ds, tPtr(tInt(b), 0))
	}
	for _, as := range []uint64{0, 1, 255, 256, 65535, 65536, 1<<24 - 1, 1<<24 - 2} {
		ds = append(ds, tPtr(tInt(32), as))
		ds = append(ds, tPtr(tPtr(tInt(32), as), 0))
	}
	n := len(ds)
	canon := make([]string, n)
	for i, d := range ds {
		canon[i] = d.canon()
	}
	envX, envY := c16env(0), c16env(0)
	X, Y := make([]types.Type, n), make([]types.Type, n)
	for i, d := range ds {
		X[i], Y[i] = d.build(envX), d.build(envY)
	}
	for i := 0; i < n; i++ {
		for j := 0; j < n; j++ {
			want := canon[i] == canon[j]
			got, p := equalSafe(X[i], Y[j])
			if p != "" {
				c.Violation("equal/panic/boundary/"+ds[i].K+"-"+ds[j].K, c16case{Universe: 99, T: canon[i], U: canon[j], What: p})
				continue
			}
			if got != want {
				c.Violation("equal/boundary/"+ds[i].K+"-"+ds[j].K, c16case{Universe: 99, T: canon[i], U: canon[j], Got: fmt.Sprint(got), What: "boundary parameters: Equal disagrees with structural identity"})
			}
		}
	}
	c.DistinctN(int64(n * n))
	c16roundtrip(c, 99, ds, canon, X, envX)
	c.Extra["boundary_parameter_types"] = n
	if fw.HaveLLVM() {
		// the boundary values are within LLVM's limits: the printed types are valid LLVM.
		// (spelled by the harness, not by the library under test)
		var spell func(d *td) string
		spell = func(d *td) string {
			switch d.K {
			case "int":
				return fmt.Sprintf("i%d", d.Bits)
			case "ptr":
				if d.AS != 0 {
					return fmt.Sprintf("%s addrspace(%d)*", spell(d.Elem), d.AS)
				}
				return spell(d.Elem) + "*"
			case "arr":
				return fmt.Sprintf("[%d x %s]", d.Len, spell(d.Elem))
			case "vec":
				if d.Scal {
					return fmt.Sprintf("<vscale x %d x %s>", d.Len, spell(d.Elem))
				}
				return fmt.Sprintf("<%d x %s>", d.Len, spell(d.Elem))
			case "struct":
				var fs []string
				for _, f := range d.Fields {
					fs = append(fs, spell(f))
				}
				return "{ " + strings.Join(fs, ", ") + " }"
			}
			fw.Fatalf("C16 boundary: no spelling for kind %s", d.K)
			return ""
		}
		text := ""
		for i, d := range ds {
			text += fmt.Sprintf("declare void @f%d(%s*)\n", i, spell(d))
		}
		if ok, e := fw.LLVMAccepts(text); !ok {
			fw.Fatalf("C16 boundary types are not valid LLVM: %s", fw.Trunc(e, 400))
		}
	}
}
