package props

import (
	"fmt"
	"strings"

	"verif/fw"
	"verif/gen"
)

func init() { Registry["GEN"] = Prop{Run: runGEN} }

// genBatches enumerates all variants (<= bound deviations) of the catalogue and groups them.
func genBatches(entries []gen.Entry, bound, batch int) (all []gen.Variant, batches [][]gen.Variant) {
	for i, e := range entries {
		all = append(all, gen.Variants(e, i, bound)...)
	}
	var cur []gen.Variant
	for _, v := range all {
		if v.Solo {
			batches = append(batches, []gen.Variant{v})
			continue
		}
		cur = append(cur, v)
		if len(cur) == batch {
			batches = append(batches, cur)
			cur = nil
		}
	}
	if len(cur) > 0 {
		batches = append(batches, cur)
	}
	return
}

// llvmFilter returns the variants LLVM accepts, bisecting rejected batches; rejected variants are
// reported through bad (generator defects: counted, skipped, never violations).
func llvmFilter(vs []gen.Variant, bad func(v gen.Variant, msg string)) []gen.Variant {
	if len(vs) == 0 {
		return nil
	}
	text := gen.Module(vs)
	ok, msg := fw.LLVMAccepts(text)
	if ok && !strings.Contains(msg, "warning") {
		return vs
	}
	if len(vs) == 1 {
		bad(vs[0], msg)
		return nil
	}
	h := len(vs) / 2
	return append(llvmFilter(vs[:h], bad), llvmFilter(vs[h:], bad)...)
}

// runGEN validates the generator itself against llvm-as (development aid and self-test).
func runGEN(c *fw.Check) {
	bound := 1
	if !c.Quick() {
		bound = 2
	}
	all, batches := genBatches(gen.Catalogue(), bound, 100)
	c.Rule = "generator self-check: every variant must be accepted by llvm-as"
	nbad := 0
	fw.ParallelFor(len(batches), func(i int) {
		var usable []gen.Variant
		for _, v := range batches[i] {
			if !v.NoLLVM {
				usable = append(usable, v)
			}
		}
		good := llvmFilter(usable, func(v gen.Variant, msg string) {
			nbad++
			if nbad < 30 {
				fmt.Printf("REJECTED %s %v\n%s\n%s\n", v.Entry, v.Devs, gen.Module([]gen.Variant{v}), fw.Trunc(msg, 300))
			}
		})
		for _, v := range good {
			c.Case(v.Entry+fmt.Sprint(v.Choices), "ok")
		}
	})
	fmt.Printf("variants=%d rejected=%d\n", len(all), nbad)
	c.Case("x", "y")
	c.Sample("generator self-check")
}

// genPairs returns two-variant modules: every ordered pair of the simplest variants of two
// different productions, and every ordered pair of <=1-deviation variants of the SAME production
// (including a variant next to a second instance of itself). State that a translation or printing
// step keeps from one entity to the next (a buffer, an index, a cache) needs two entities of the
// right kinds in one module; batches of consecutive variants only provide neighbours.
func genPairs(entries []gen.Entry, crossBothOrders bool) [][]gen.Variant {
	var out [][]gen.Variant
	per := make([][]gen.Variant, len(entries))
	for i, e := range entries {
		for _, v := range gen.Variants(e, i, 1) {
			if !v.Solo {
				per[i] = append(per[i], v)
			}
		}
	}
	for i := range entries {
		if len(per[i]) == 0 {
			continue
		}
		for j := range entries {
			if j == i || len(per[j]) == 0 || (!crossBothOrders && j < i) {
				continue
			}
			out = append(out, []gen.Variant{per[i][0], per[j][0]})
		}
		n := len(per[i])
		for a := 0; a < n; a++ {
			for b := 0; b < n; b++ {
				if a != b {
					out = append(out, []gen.Variant{per[i][a], per[i][b]})
				}
			}
			twin := gen.Build(entries[i], fmt.Sprintf("e%dw%d_", i, a), 10000000*(i+1)+16*(n+a), per[i][a].Choices)
			out = append(out, []gen.Variant{per[i][a], twin})
		}
	}
	return out
}
