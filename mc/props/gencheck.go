package props

import (
	"fmt"
	"strings"

	"verif/fw"
	"verif/gen"
)

func init() { Registry["GEN"] = Prop{Run: runGEN} }

// genBatches enumerates all variants (<= bound deviations) of the catalogue and groups them.
func genBatches(entries []gen.Entry, bound, batch int) (all []gen.Variant, batches [][]gen.Variant) {
	for i, e := range entries {
		all = append(all, gen.Variants(e, i, bound)...)
	}
	var cur []gen.Variant
	for _, v := range all {
		if v.Solo {
			batches = append(batches, []gen.Variant{v})
			continue
		}
		cur = append(cur, v)
		if len(cur) == batch {
			batches = append(batches, cur)
			cur = nil
		}
	}
	if len(cur) > 0 {
		batches = append(batches, cur)
	}
	return
}

// llvmFilter returns the variants LLVM accepts, bisecting rejected batches; rejected variants are
// reported through bad (generator defects: counted, skipped, never violations).
func llvmFilter(vs []gen.Variant, bad func(v gen.Variant, msg string)) []gen.Variant {
	if len(vs) == 0 {
		return nil
	}
	text := gen.Module(vs)
	ok, msg := fw.LLVMAccepts(text)
	if ok && !strings.Contains(msg, "warning") {
		return vs
	}
	if len(vs) == 1 {
		bad(vs[0], msg)
		return nil
	}
	h := len(vs) / 2
	return append(llvmFilter(vs[:h], bad), llvmFilter(vs[h:], bad)...)
}

// runGEN validates the generator itself against llvm-as (development aid and self-test).
func runGEN(c *fw.Check) {
	bound := 1
	if !c.Quick() {
		bound = 2
	}
	all, batches := genBatches(gen.Catalogue(), bound, 100)
	c.Rule = "generator self-check: every variant must be accepted by llvm-as"
	nbad := 0
	fw.ParallelFor(len(batches), func(i int) {
		var usable []gen.Variant
		for _, v := range batches[i] {
			if !v.NoLLVM {
				usable = append(usable, v)
			}
		}
		good := llvmFilter(usable, func(v gen.Variant, msg string) {
			nbad++
			if nbad < 30 {
				fmt.Printf("REJECTED %s %v\n%s\n%s\n", v.Entry, v.Devs, gen.Module([]gen.Variant{v}), fw.Trunc(msg, 300))
			}
		})
		for _, v := range good {
			c.Case(v.Entry+fmt.Sprint(v.Choices), "ok")
		}
	})
	fmt.Printf("variants=%d rejected=%d\n", len(all), nbad)
	c.Case("x", "y")
	c.Sample("generator self-check")
}
