package props

import (
	"fmt"
	"regexp"
	"sort"
	"strings"

	"github.com/llir/llvm/ir"
	"github.com/llir/llvm/ir/constant"
	"github.com/llir/llvm/ir/metadata"
	"github.com/llir/llvm/ir/types"

	"verif/fw"
)

var (
	reC20comdatLine = regexp.MustCompile(`(?m)^\$(.*) = comdat any$`)
	reC20typeLine   = regexp.MustCompile(`(?m)^%(.*) = type \{ i32 \}$`)
	reC20namedLine  = regexp.MustCompile(`(?m)^!(.*) = !\{!\d+\}$`)
)

// c20sectionOrder: the sections the property says are listed in natural order (type definitions,
// comdats, named metadata) are populated with ALL names of length <= L over an alphabet that holds
// digits, letters, the sigil `$`, a character that forces quoting and a dot; the module is given
// to the printer in reverse order, printed, parsed and printed again, and the NAMES, decoded from
// the printed lines and taken from the parsed module's lists, must be in the order of the
// independent reference comparator. (A sort keyed on anything but the name itself -- the printed
// token, a String() form -- orders quoted or sigil-carrying names differently.)
func c20sectionOrder(c *fw.Check) {
	maxLen := 2
	alpha := []byte{'0', '1', '9', 'a', 'B', '$', ' ', '.', '-'}
	names := stringsOver(alpha, maxLen)
	// digit runs of different width inside names of EQUAL length (a9a / a10).
	for _, s := range stringsOver([]byte{'0', '1', '9', 'a'}, 3) {
		if len(s) == 3 {
			names = append(names, s)
		}
	}
	if !c.Quick() {
		for _, s := range stringsOver([]byte{'0', '1', 'a', '$', ' '}, 3) {
			if len(s) == 3 {
				names = append(names, s)
			}
		}
	}
	var want []string
	dup := map[string]bool{}
	for _, s := range names {
		if s != "" && !dup[s] {
			dup[s] = true
			want = append(want, s)
		}
	}
	sort.SliceStable(want, func(i, j int) bool { return refNatCmp(want[i], want[j]) < 0 })
	c.Extra["section_order_names"] = len(want)
	sections := []struct {
		name  string
		ok    func(s string) bool
		build func(m *ir.Module, i int, s string)
		re    *regexp.Regexp
		dec   func(string) string
		list  func(m *ir.Module) []string
	}{
		{"comdats", func(s string) bool { return true },
			func(m *ir.Module, i int, s string) { m.ComdatDefs = append(m.ComdatDefs, &ir.ComdatDef{Name: s}) },
			reC20comdatLine, decodeIdent,
			func(m *ir.Module) []string {
				var o []string
				for _, d := range m.ComdatDefs {
					o = append(o, d.Name)
				}
				return o
			}},
		{"type-definitions", func(s string) bool {
			// names that read as numbers denote type IDs (see the C11 findings): not in this alphabet.
			return strings.Trim(s, "0123456789+-") != "" && !(s[0] >= '0' && s[0] <= '9')
		},
			func(m *ir.Module, i int, s string) { m.NewTypeDef(s, types.NewStruct(types.I32)) },
			reC20typeLine, decodeIdent,
			func(m *ir.Module) []string {
				var o []string
				for _, t := range m.TypeDefs {
					o = append(o, t.Name())
				}
				return o
			}},
		{"named-metadata", func(s string) bool { return !(s[0] >= '0' && s[0] <= '9') },
			func(m *ir.Module, i int, s string) {
				node := &metadata.Tuple{MetadataID: -1, Fields: []metadata.Field{constant.NewInt(types.I32, int64(i))}}
				m.MetadataDefs = append(m.MetadataDefs, node)
				m.NamedMetadataDefs[s] = &metadata.NamedDef{Name: s, Nodes: []metadata.Node{node}}
			},
			reC20namedLine, refUnescape, nil},
	}
	for _, sec := range sections {
		var ws []string
		for _, s := range want {
			if sec.ok(s) {
				ws = append(ws, s)
			}
		}
		m := ir.NewModule()
		for i := len(ws) - 1; i >= 0; i-- { // adversarial input order
			sec.build(m, i, ws[i])
		}
		check := func(stage, text string, mod *ir.Module) {
			var got []string
			for _, mm := range sec.re.FindAllStringSubmatch(text, -1) {
				got = append(got, sec.dec(mm[1]))
			}
			c.DistinctN(int64(len(ws)))
			c.Valid(int64(len(ws)))
			cmp := func(kind string, got []string) {
				if len(got) != len(ws) {
					c.Violation("section-order/"+sec.name+"/"+stage+"/"+kind+"-count", c20case{Kind: "section-order", A: fmt.Sprint(len(got)), B: fmt.Sprint(len(ws)), Got: fw.Trunc(text, 1500)})
					return
				}
				for i := range ws {
					if got[i] != ws[i] {
						c.Violation("section-order/"+sec.name+"/"+stage+"/"+kind, c20case{Kind: "section-order", A: fmt.Sprintf("position %d holds %q", i, got[i]), B: fmt.Sprintf("natural order puts %q there", ws[i]), Got: fw.Trunc(text, 1500)})
						return
					}
				}
			}
			cmp("printed-lines", got)
			if mod != nil && sec.list != nil {
				cmp("module-list", sec.list(mod))
			}
		}
		var y string
		if p := fw.Try(func() { y = m.String() }); p != "" {
			c.Violation("section-order/"+sec.name+"/print-panics", c20case{Kind: "section-order", A: p})
			continue
		}
		// the printer lists the sections of a constructed module as given (the parser sorts);
		// the property is about what comes out of parse + print.
		m2, errs, pan := parseTry(y)
		if errs != "" || pan != "" {
			c.Violation("section-order/"+sec.name+"/reparse-fails", c20case{Kind: "section-order", A: fw.Trunc(errs+pan, 300), Got: fw.Trunc(y, 1500)})
			continue
		}
		check("after-parse", m2.String(), m2)
	}
	c20mixedTypes(c)
}

// c20mixedTypes: NUMBERED types (%0 .. %10) next to named types that sort before, between and after
// the numbers in natural order (`%-t`, `%.node`, `%1st`, `%2b`, `%10z`, `%a`): the type-definition
// section of parse + print lists them all in ONE natural order (a numbered type compares by its
// number). Three textual orders (named first, named last, interleaved in reverse natural order).
func c20mixedTypes(c *fw.Check) {
	named := []string{"-t", ".node", "$x", "1st", "2b", "10z", "0a", "a", "B", "_u", "a1", "a10", "a2"}
	var keys []string
	for n := 0; n <= 10; n++ {
		keys = append(keys, fmt.Sprint(n))
	}
	keys = append(keys, named...)
	want := append([]string(nil), keys...)
	sort.SliceStable(want, func(i, j int) bool { return refNatCmp(want[i], want[j]) < 0 })
	isNum := func(k string) bool { return strings.Trim(k, "0123456789") == "" }
	line := func(k string, i int) string {
		if isNum(k) {
			return fmt.Sprintf("%%%s = type { [%d x i8] }\n", k, i)
		}
		if strings.ContainsAny(k[:1], "0123456789") {
			return fmt.Sprintf("%%\"%s\" = type { [%d x i8] }\n", k, i)
		}
		return fmt.Sprintf("%%%s = type { [%d x i8] }\n", k, i)
	}
	rev := append([]string(nil), named...)
	sort.SliceStable(rev, func(i, j int) bool { return refNatCmp(rev[i], rev[j]) > 0 })
	orders := map[string][]string{}
	var nums []string
	for n := 0; n <= 10; n++ {
		nums = append(nums, fmt.Sprint(n))
	}
	orders["named-first"] = append(append([]string(nil), rev...), nums...)
	orders["named-last"] = append(append([]string(nil), nums...), rev...)
	var inter []string
	for i := 0; i < len(nums) || i < len(rev); i++ {
		if i < len(nums) {
			inter = append(inter, nums[i])
		}
		if i < len(rev) {
			inter = append(inter, rev[i])
		}
	}
	orders["interleaved"] = inter
	idx := map[string]int{}
	for i, k := range keys {
		idx[k] = i
	}
	for _, on := range []string{"interleaved", "named-first", "named-last"} {
		var b strings.Builder
		for _, k := range orders[on] {
			b.WriteString(line(k, idx[k]))
		}
		for _, k := range keys {
			t := "%" + k
			if !isNum(k) && strings.ContainsAny(k[:1], "0123456789") {
				t = "%\"" + k + "\""
			}
			fmt.Fprintf(&b, "@g%d = global %s zeroinitializer\n", idx[k], t)
		}
		text := b.String()
		if fw.HaveLLVM() {
			if ok, e := fw.LLVMAccepts(text); !ok {
				fw.Fatalf("C20 mixed type module (%s) is not valid LLVM: %s", on, fw.Trunc(e, 300))
			}
		}
		m, errs, pan := parseTry(text)
		if errs != "" || pan != "" {
			c.Violation("section-order/mixed-types/parse-fails", c20case{Kind: "section-order", A: fw.Trunc(errs+pan, 300), Got: fw.Trunc(text, 800)})
			continue
		}
		var y string
		if p := fw.Try(func() { y = m.String() }); p != "" {
			c.Violation("section-order/mixed-types/print-panics", c20case{Kind: "section-order", A: p})
			continue
		}
		// identify each printed definition by its array length.
		var got []string
		for _, mm := range regexp.MustCompile(`(?m)^%.* = type \{ \[(\d+) x i8\] \}$`).FindAllStringSubmatch(y, -1) {
			var i int
			fmt.Sscan(mm[1], &i)
			if i >= 0 && i < len(keys) {
				got = append(got, keys[i])
			}
		}
		c.Case("mixed-types|"+on, strings.Join(got, " "))
		c.DistinctN(int64(len(keys)))
		if strings.Join(got, " ") != strings.Join(want, " ") {
			c.Violation("section-order/mixed-types/"+on, c20case{Kind: "section-order", A: "printed order: " + strings.Join(got, " "), B: "natural order: " + strings.Join(want, " "), Got: fw.Trunc(y, 1500)})
		}
		c.Valid(int64(len(keys)))
	}
}

// c20idOrder: attribute groups and metadata definitions are listed by ASCENDING ID. Every subset
// (size <= K) of an ID universe with dense prefixes, gaps and large numbers, written in EVERY
// textual order: after parse + print the `attributes #N` and `!N =` lines, and the module's
// AttrGroupDefs / MetadataDefs lists, ascend. (Dense IDs in any order are the usual case; a gap
// followed by an ID smaller than the number of definitions is where a counting sort goes wrong.)
func c20idOrder(c *fw.Check) {
	universe := []int{0, 1, 2, 3, 5, 9, 50, 100}
	maxK := 4
	if !c.Quick() {
		maxK = 6
	}
	reAttr := regexp.MustCompile(`(?m)^attributes #(\d+) = `)
	reMD := regexp.MustCompile(`(?m)^!(\d+) = `)
	type job struct{ ids []int }
	var jobs []job
	for mask := 1; mask < 1<<len(universe); mask++ {
		var ids []int
		for i, u := range universe {
			if mask>>i&1 == 1 {
				ids = append(ids, u)
			}
		}
		if len(ids) > maxK {
			continue
		}
		jobs = append(jobs, job{ids})
	}
	c.Extra["id_order_subsets"] = len(jobs)
	fw.ParallelFor(len(jobs), func(ji int) {
		ids := jobs[ji].ids
		perms := permsOf(len(ids))
		perms = append(perms, identityPerm(len(ids)))
		for _, p := range perms {
			var b strings.Builder
			for _, pi := range p {
				k := ids[pi]
				fmt.Fprintf(&b, "declare void @f%d() #%d\n", k, k)
			}
			for _, pi := range p {
				fmt.Fprintf(&b, "attributes #%d = { \"k%d\" }\n", ids[pi], ids[pi])
			}
			for _, pi := range p {
				fmt.Fprintf(&b, "!%d = !{i32 %d}\n", ids[pi], ids[pi])
			}
			text := b.String()
			c.DistinctN(1)
			m, errs, pan := parseTry(text)
			if errs != "" || pan != "" {
				c.Violation("id-order/parse-fails", c20case{Kind: "id-order", A: fw.Trunc(errs+pan, 300), Got: text})
				continue
			}
			var y string
			if pp := fw.Try(func() { y = m.String() }); pp != "" {
				c.Violation("id-order/print-panics", c20case{Kind: "id-order", A: pp, Got: text})
				continue
			}
			c.Valid(1)
			asc := func(kind string, got []int) {
				if len(got) != len(ids) {
					c.Violation("id-order/"+kind+"/count", c20case{Kind: "id-order", A: fmt.Sprint(got), B: fmt.Sprint(ids), Got: fw.Trunc(y, 1200)})
					return
				}
				for i := range ids {
					if got[i] != ids[i] {
						c.Violation("id-order/"+kind+"/not-ascending", c20case{Kind: "id-order", A: fmt.Sprintf("order %v", got), B: fmt.Sprintf("ascending order %v (input order %v)", ids, p), Got: fw.Trunc(y, 1200)})
						return
					}
				}
			}
			num := func(re *regexp.Regexp) []int {
				var o []int
				for _, mm := range re.FindAllStringSubmatch(y, -1) {
					var k int
					fmt.Sscan(mm[1], &k)
					o = append(o, k)
				}
				return o
			}
			asc("attribute-groups/printed", num(reAttr))
			asc("metadata/printed", num(reMD))
			var la, lm []int
			for _, a := range m.AttrGroupDefs {
				la = append(la, int(a.ID))
			}
			for _, d := range m.MetadataDefs {
				lm = append(lm, int(d.ID()))
			}
			asc("attribute-groups/module-list", la)
			asc("metadata/module-list", lm)
		}
		// the same sets next to attribute groups that are USED BUT NOT DEFINED (the documented
		// exception: materialised as empty groups): whatever is listed and printed ascends.
		if len(ids) > 3 {
			return
		}
		for _, u1 := range universe {
			for _, u2 := range universe {
				if u2 < u1 {
					continue
				}
				und := []int{u1}
				if u2 != u1 {
					und = append(und, u2)
				}
				clash := false
				for _, k := range ids {
					for _, u := range und {
						if k == u {
							clash = true
						}
					}
				}
				if clash {
					continue
				}
				for _, undFirst := range []bool{false, true} {
					var b strings.Builder
					uses := func() {
						for i := len(und) - 1; i >= 0; i-- { // descending order of first use
							fmt.Fprintf(&b, "declare void @u%d() #%d\n", und[i], und[i])
						}
					}
					if undFirst {
						uses()
					}
					for i := len(ids) - 1; i >= 0; i-- {
						fmt.Fprintf(&b, "declare void @f%d() #%d\n", ids[i], ids[i])
					}
					if !undFirst {
						uses()
					}
					for i := len(ids) - 1; i >= 0; i-- {
						fmt.Fprintf(&b, "attributes #%d = { \"k%d\" }\n", ids[i], ids[i])
					}
					text := b.String()
					c.DistinctN(1)
					m, errs, pan := parseTry(text)
					if errs != "" || pan != "" {
						c.Violation("id-order/undefined-groups/parse-fails", c20case{Kind: "id-order", A: fw.Trunc(errs+pan, 300), Got: text})
						continue
					}
					var y string
					if pp := fw.Try(func() { y = m.String() }); pp != "" {
						c.Violation("id-order/undefined-groups/print-panics", c20case{Kind: "id-order", A: pp, Got: text})
						continue
					}
					c.Valid(1)
					ascending := func(kind string, got []int) {
						for i := 1; i < len(got); i++ {
							if got[i-1] >= got[i] {
								c.Violation("id-order/undefined-groups/"+kind+"/not-ascending", c20case{Kind: "id-order", A: fmt.Sprintf("order %v", got), B: fmt.Sprintf("defined %v, used but undefined %v", ids, und), Got: fw.Trunc(y, 1200)})
								return
							}
						}
					}
					var printed, listed []int
					for _, mm := range reAttr.FindAllStringSubmatch(y, -1) {
						var k int
						fmt.Sscan(mm[1], &k)
						printed = append(printed, k)
					}
					for _, a := range m.AttrGroupDefs {
						listed = append(listed, int(a.ID))
					}
					ascending("printed", printed)
					ascending("module-list", listed)
				}
			}
		}
	})
}

func identityPerm(n int) []int {
	p := make([]int, n)
	for i := range p {
		p[i] = i
	}
	return p
}

// c20rename: the order of the named-metadata section is recomputed by EVERY print. For every
// ordered pair (old, new) of a name set with digit runs, letters of both cases and leading zeros,
// a module with named metadata {old, b2, a} is printed, the definition is renamed in place
// (delete the key, set Name, insert under the new key), and the second print must equal the print
// of a module built with the final names from scratch; the same with a definition added or removed
// between the two prints.
func c20rename(c *fw.Check) {
	names := []string{"b1", "b10", "b01", "b3", "B1", "a0", "c", "a10", "0z"}
	build := func(ns ...string) *ir.Module {
		m := ir.NewModule()
		for _, n := range ns {
			m.NamedMetadataDefs[n] = &metadata.NamedDef{Name: n}
		}
		return m
	}
	type cse struct {
		Old, New string
		Edit     string
		Want     string `json:"want"`
		Got      string `json:"got"`
		What     string `json:"what"`
	}
	n := 0
	for _, old := range names {
		for _, nw := range names {
			if old == nw {
				continue
			}
			for _, edit := range []string{"rename", "add", "remove"} {
				n++
				var m, ref *ir.Module
				switch edit {
				case "rename":
					m = build(old, "b2", "a")
					_ = m.String()
					d := m.NamedMetadataDefs[old]
					delete(m.NamedMetadataDefs, old)
					d.Name = nw
					m.NamedMetadataDefs[nw] = d
					ref = build(nw, "b2", "a")
				case "add":
					m = build(old, "b2", "a")
					_ = m.String()
					m.NamedMetadataDefs[nw] = &metadata.NamedDef{Name: nw}
					ref = build(old, nw, "b2", "a")
				case "remove":
					m = build(old, nw, "b2", "a")
					_ = m.String()
					delete(m.NamedMetadataDefs, old)
					ref = build(nw, "b2", "a")
				}
				got, want := m.String(), ref.String()
				c.Case("rename|"+old+"|"+nw+"|"+edit, got)
				if got != want {
					c.Violation("section-order/named-metadata/after-"+edit+"-between-prints", cse{Old: old, New: nw, Edit: edit, Want: want, Got: got, What: "the second print of a module whose named metadata changed after the first print differs from the print of a module built with the final names"})
				}
			}
		}
	}
	c.Valid(int64(n))
	c.Extra["named_metadata_edit_between_prints_cases"] = n
}
