package props

import (
	"fmt"
	"math/bits"
	"sort"
	"strings"

	"github.com/llir/llvm/asm"
	"github.com/llir/llvm/ir"
	"github.com/llir/llvm/ir/constant"
	"github.com/llir/llvm/ir/enum"
	"github.com/llir/llvm/ir/metadata"
	"github.com/llir/llvm/ir/types"
	"github.com/llir/llvm/ir/value"

	"verif/fw"
)

func init() { Registry["C18"] = Prop{Run: runC18, Replay: replayC18} }

type c18case struct {
	Type    string `json:"type"`
	Const   string `json:"const,omitempty"`
	Value   uint64 `json:"value"`
	Keyword string `json:"keyword,omitempty"`
	Got     string `json:"got,omitempty"`
	Text    string `json:"text,omitempty"`
	What    string `json:"what"`
}

// c18family builds a minimal module carrying value v of an enum family and extracts it back
// from a parsed module.
type c18family struct {
	build   func(v uint64) *ir.Module
	extract func(m *ir.Module) (uint64, bool)
	skip    func(v uint64) bool // values that have no spelling of their own (None / zero)
}

func c18fn(m *ir.Module) *ir.Func {
	f := m.NewFunc("f", types.Void)
	return f
}

func c18mdModule(md metadata.Definition) *ir.Module {
	m := ir.NewModule()
	m.MetadataDefs = append(m.MetadataDefs, md)
	return m
}

func c18global(set func(g *ir.Global, v uint64), get func(g *ir.Global) uint64) c18family {
	return c18family{
		build: func(v uint64) *ir.Module {
			m := ir.NewModule()
			g := m.NewGlobalDef("g", constant.NewInt(types.I32, 0))
			set(g, v)
			return m
		},
		extract: func(m *ir.Module) (uint64, bool) {
			if len(m.Globals) != 1 {
				return 0, false
			}
			return get(m.Globals[0]), true
		},
	}
}

func c18inst(mk func(b *ir.Block, f *ir.Func, v uint64), get func(i ir.Instruction) (uint64, bool)) c18family {
	return c18family{
		build: func(v uint64) *ir.Module {
			m := ir.NewModule()
			f := m.NewFunc("f", types.Void, ir.NewParam("a", types.I32), ir.NewParam("b", types.Float), ir.NewParam("p", types.I32Ptr))
			b := f.NewBlock("entry")
			mk(b, f, v)
			b.NewRet(nil)
			return m
		},
		extract: func(m *ir.Module) (uint64, bool) {
			if len(m.Funcs) < 1 || len(m.Funcs[len(m.Funcs)-1].Blocks) != 1 {
				return 0, false
			}
			for _, f := range m.Funcs {
				if len(f.Blocks) == 1 && len(f.Blocks[0].Insts) >= 1 {
					return get(f.Blocks[0].Insts[0])
				}
			}
			return 0, false
		},
	}
}

func c18md(mk func(v uint64) metadata.Definition, get func(d metadata.Definition) (uint64, bool)) c18family {
	return c18family{
		build: func(v uint64) *ir.Module { return c18mdModule(mk(v)) },
		extract: func(m *ir.Module) (uint64, bool) {
			if len(m.MetadataDefs) != 1 {
				return 0, false
			}
			return get(m.MetadataDefs[0])
		},
	}
}

func c18funcAttrFamily(wrap func(v uint64) ir.FuncAttribute, unwrap func(a ir.FuncAttribute) (uint64, bool)) c18family {
	return c18family{
		build: func(v uint64) *ir.Module {
			m := ir.NewModule()
			f := c18fn(m)
			f.FuncAttrs = append(f.FuncAttrs, wrap(v))
			return m
		},
		extract: func(m *ir.Module) (uint64, bool) {
			if len(m.Funcs) != 1 || len(m.Funcs[0].FuncAttrs) != 1 {
				return 0, false
			}
			return unwrap(m.Funcs[0].FuncAttrs[0])
		},
	}
}

var c18families = map[string]c18family{
	"Linkage": {
		build: func(v uint64) *ir.Module {
			m := ir.NewModule()
			l := enum.Linkage(v)
			if l == enum.LinkageExternal || l == enum.LinkageExternWeak {
				g := m.NewGlobal("g", types.I32)
				g.Linkage = l
			} else {
				g := m.NewGlobalDef("g", constant.NewInt(types.I32, 0))
				g.Linkage = l
			}
			return m
		},
		extract: func(m *ir.Module) (uint64, bool) {
			if len(m.Globals) != 1 {
				return 0, false
			}
			return uint64(m.Globals[0].Linkage), true
		},
	},
	"Preemption":      c18global(func(g *ir.Global, v uint64) { g.Preemption = enum.Preemption(v) }, func(g *ir.Global) uint64 { return uint64(g.Preemption) }),
	"Visibility":      c18global(func(g *ir.Global, v uint64) { g.Visibility = enum.Visibility(v) }, func(g *ir.Global) uint64 { return uint64(g.Visibility) }),
	"DLLStorageClass": c18global(func(g *ir.Global, v uint64) { g.DLLStorageClass = enum.DLLStorageClass(v) }, func(g *ir.Global) uint64 { return uint64(g.DLLStorageClass) }),
	"TLSModel":        c18global(func(g *ir.Global, v uint64) { g.TLSModel = enum.TLSModel(v) }, func(g *ir.Global) uint64 { return uint64(g.TLSModel) }),
	"UnnamedAddr":     c18global(func(g *ir.Global, v uint64) { g.UnnamedAddr = enum.UnnamedAddr(v) }, func(g *ir.Global) uint64 { return uint64(g.UnnamedAddr) }),
	"SanitizerKind":   c18global(func(g *ir.Global, v uint64) { g.Sanitizer = enum.SanitizerKind(v) }, func(g *ir.Global) uint64 { return uint64(g.Sanitizer) }),
	"FloatKind": {
		build: func(v uint64) *ir.Module {
			m := ir.NewModule()
			g := m.NewGlobal("g", &types.FloatType{Kind: types.FloatKind(v)})
			g.Linkage = enum.LinkageExternal
			return m
		},
		extract: func(m *ir.Module) (uint64, bool) {
			if len(m.Globals) != 1 {
				return 0, false
			}
			ft, ok := m.Globals[0].ContentType.(*types.FloatType)
			if !ok {
				return 0, false
			}
			return uint64(ft.Kind), true
		},
	},
	"SelectionKind": {
		build: func(v uint64) *ir.Module {
			m := ir.NewModule()
			m.ComdatDefs = append(m.ComdatDefs, &ir.ComdatDef{Name: "c", Kind: enum.SelectionKind(v)})
			return m
		},
		extract: func(m *ir.Module) (uint64, bool) {
			if len(m.ComdatDefs) != 1 {
				return 0, false
			}
			return uint64(m.ComdatDefs[0].Kind), true
		},
	},
	"CallingConv": {
		build: func(v uint64) *ir.Module {
			m := ir.NewModule()
			c18fn(m).CallingConv = enum.CallingConv(v)
			return m
		},
		extract: func(m *ir.Module) (uint64, bool) {
			if len(m.Funcs) != 1 {
				return 0, false
			}
			return uint64(m.Funcs[0].CallingConv), true
		},
	},
	"FuncAttr": c18funcAttrFamily(func(v uint64) ir.FuncAttribute { return enum.FuncAttr(v) }, func(a ir.FuncAttribute) (uint64, bool) {
		if u, ok := a.(ir.UnwindTable); ok && u.Kind == enum.UnwindTableKindNone {
			// the keyword `uwtable` is read back as the (LLVM 15) parametrised form with no kind,
			// which prints as the same keyword: same attribute.
			return uint64(enum.FuncAttrUwtable), true
		}
		x, ok := a.(enum.FuncAttr)
		return uint64(x), ok
	}),
	"UnwindTableKind": c18funcAttrFamily(func(v uint64) ir.FuncAttribute { return ir.UnwindTable{Kind: enum.UnwindTableKind(v)} }, func(a ir.FuncAttribute) (uint64, bool) {
		x, ok := a.(ir.UnwindTable)
		return uint64(x.Kind), ok
	}),
	"AllocKind": c18funcAttrFamily(func(v uint64) ir.FuncAttribute { return ir.AllocKind{Kind: enum.AllocKind(v)} }, func(a ir.FuncAttribute) (uint64, bool) {
		if x, ok := a.(*ir.AllocKind); ok { // the parser hands out a pointer
			return uint64(x.Kind), true
		}
		x, ok := a.(ir.AllocKind)
		return uint64(x.Kind), ok
	}),
	"ParamAttr": {
		build: func(v uint64) *ir.Module {
			m := ir.NewModule()
			p := ir.NewParam("x", types.I32Ptr)
			p.Attrs = append(p.Attrs, enum.ParamAttr(v))
			m.NewFunc("f", types.Void, p)
			return m
		},
		extract: func(m *ir.Module) (uint64, bool) {
			if len(m.Funcs) != 1 || len(m.Funcs[0].Params) != 1 || len(m.Funcs[0].Params[0].Attrs) != 1 {
				return 0, false
			}
			x, ok := m.Funcs[0].Params[0].Attrs[0].(enum.ParamAttr)
			return uint64(x), ok
		},
	},
	"ReturnAttr": {
		build: func(v uint64) *ir.Module {
			m := ir.NewModule()
			f := m.NewFunc("f", types.I32Ptr)
			f.ReturnAttrs = append(f.ReturnAttrs, enum.ReturnAttr(v))
			return m
		},
		extract: func(m *ir.Module) (uint64, bool) {
			if len(m.Funcs) != 1 || len(m.Funcs[0].ReturnAttrs) != 1 {
				return 0, false
			}
			x, ok := m.Funcs[0].ReturnAttrs[0].(enum.ReturnAttr)
			return uint64(x), ok
		},
	},
	"Tail": c18inst(func(b *ir.Block, f *ir.Func, v uint64) {
		c := b.NewCall(f, f.Params[0], f.Params[1], f.Params[2])
		c.Tail = enum.Tail(v)
	}, func(i ir.Instruction) (uint64, bool) {
		c, ok := i.(*ir.InstCall)
		if !ok {
			return 0, false
		}
		return uint64(c.Tail), true
	}),
	"FastMathFlag": c18inst(func(b *ir.Block, f *ir.Func, v uint64) {
		x := b.NewFAdd(f.Params[1], f.Params[1])
		x.FastMathFlags = []enum.FastMathFlag{enum.FastMathFlag(v)}
	}, func(i ir.Instruction) (uint64, bool) {
		c, ok := i.(*ir.InstFAdd)
		if !ok || len(c.FastMathFlags) != 1 {
			return 0, false
		}
		return uint64(c.FastMathFlags[0]), true
	}),
	"OverflowFlag": c18inst(func(b *ir.Block, f *ir.Func, v uint64) {
		x := b.NewAdd(f.Params[0], f.Params[0])
		x.OverflowFlags = []enum.OverflowFlag{enum.OverflowFlag(v)}
	}, func(i ir.Instruction) (uint64, bool) {
		c, ok := i.(*ir.InstAdd)
		if !ok || len(c.OverflowFlags) != 1 {
			return 0, false
		}
		return uint64(c.OverflowFlags[0]), true
	}),
	"IPred": c18inst(func(b *ir.Block, f *ir.Func, v uint64) { b.NewICmp(enum.IPred(v), f.Params[0], f.Params[0]) }, func(i ir.Instruction) (uint64, bool) {
		c, ok := i.(*ir.InstICmp)
		if !ok {
			return 0, false
		}
		return uint64(c.Pred), true
	}),
	"FPred": c18inst(func(b *ir.Block, f *ir.Func, v uint64) { b.NewFCmp(enum.FPred(v), f.Params[1], f.Params[1]) }, func(i ir.Instruction) (uint64, bool) {
		c, ok := i.(*ir.InstFCmp)
		if !ok {
			return 0, false
		}
		return uint64(c.Pred), true
	}),
	"AtomicOrdering": c18inst(func(b *ir.Block, f *ir.Func, v uint64) { b.NewFence(enum.AtomicOrdering(v)) }, func(i ir.Instruction) (uint64, bool) {
		c, ok := i.(*ir.InstFence)
		if !ok {
			return 0, false
		}
		return uint64(c.Ordering), true
	}),
	"AtomicOp": c18inst(func(b *ir.Block, f *ir.Func, v uint64) {
		b.NewAtomicRMW(enum.AtomicOp(v), f.Params[2], f.Params[0], enum.AtomicOrderingSequentiallyConsistent)
	}, func(i ir.Instruction) (uint64, bool) {
		c, ok := i.(*ir.InstAtomicRMW)
		if !ok {
			return 0, false
		}
		return uint64(c.Op), true
	}),
	"ClauseType": c18inst(func(b *ir.Block, f *ir.Func, v uint64) {
		var x value.Value = constant.NewNull(types.I8Ptr)
		if enum.ClauseType(v) == enum.ClauseTypeFilter {
			x = constant.NewZeroInitializer(types.NewArray(0, types.I8Ptr))
		}
		b.NewLandingPad(types.NewStruct(types.I8Ptr, types.I32), ir.NewClause(enum.ClauseType(v), x))
	}, func(i ir.Instruction) (uint64, bool) {
		c, ok := i.(*ir.InstLandingPad)
		if !ok || len(c.Clauses) != 1 {
			return 0, false
		}
		return uint64(c.Clauses[0].Type), true
	}),
	"DwarfTag": c18md(func(v uint64) metadata.Definition {
		return &metadata.DIBasicType{MetadataID: -1, Tag: enum.DwarfTag(v), Name: "t"}
	}, func(d metadata.Definition) (uint64, bool) {
		x, ok := d.(*metadata.DIBasicType)
		if !ok {
			return 0, false
		}
		return uint64(x.Tag), true
	}),
	"DwarfAttEncoding": c18md(func(v uint64) metadata.Definition {
		return &metadata.DIBasicType{MetadataID: -1, Encoding: enum.DwarfAttEncoding(v), Name: "t"}
	}, func(d metadata.Definition) (uint64, bool) {
		x, ok := d.(*metadata.DIBasicType)
		if !ok {
			return 0, false
		}
		return uint64(x.Encoding), true
	}),
	"DIFlag": c18md(func(v uint64) metadata.Definition {
		return &metadata.DIBasicType{MetadataID: -1, Flags: enum.DIFlag(v), Name: "t"}
	}, func(d metadata.Definition) (uint64, bool) {
		x, ok := d.(*metadata.DIBasicType)
		if !ok {
			return 0, false
		}
		return uint64(x.Flags), true
	}),
	"DwarfLang": c18md(func(v uint64) metadata.Definition {
		return &metadata.DICompileUnit{MetadataID: -1, Distinct: true, Language: enum.DwarfLang(v), File: &metadata.DIFile{MetadataID: -1, Filename: "a", Directory: "b"}}
	}, func(d metadata.Definition) (uint64, bool) {
		x, ok := d.(*metadata.DICompileUnit)
		if !ok {
			return 0, false
		}
		return uint64(x.Language), true
	}),
	"EmissionKind": c18md(func(v uint64) metadata.Definition {
		return &metadata.DICompileUnit{MetadataID: -1, Distinct: true, Language: enum.DwarfLangC99, EmissionKind: enum.EmissionKind(v), File: &metadata.DIFile{MetadataID: -1, Filename: "a", Directory: "b"}}
	}, func(d metadata.Definition) (uint64, bool) {
		x, ok := d.(*metadata.DICompileUnit)
		if !ok {
			return 0, false
		}
		return uint64(x.EmissionKind), true
	}),
	"NameTableKind": c18md(func(v uint64) metadata.Definition {
		return &metadata.DICompileUnit{MetadataID: -1, Distinct: true, Language: enum.DwarfLangC99, NameTableKind: enum.NameTableKind(v), File: &metadata.DIFile{MetadataID: -1, Filename: "a", Directory: "b"}}
	}, func(d metadata.Definition) (uint64, bool) {
		x, ok := d.(*metadata.DICompileUnit)
		if !ok {
			return 0, false
		}
		return uint64(x.NameTableKind), true
	}),
	"ChecksumKind": c18md(func(v uint64) metadata.Definition {
		return &metadata.DIFile{MetadataID: -1, Filename: "a", Directory: "b", Checksumkind: enum.ChecksumKind(v), Checksum: "00"}
	}, func(d metadata.Definition) (uint64, bool) {
		x, ok := d.(*metadata.DIFile)
		if !ok {
			return 0, false
		}
		return uint64(x.Checksumkind), true
	}),
	"DwarfMacinfo": c18md(func(v uint64) metadata.Definition {
		return &metadata.DIMacro{MetadataID: -1, Type: enum.DwarfMacinfo(v), Name: "M"}
	}, func(d metadata.Definition) (uint64, bool) {
		x, ok := d.(*metadata.DIMacro)
		if !ok {
			return 0, false
		}
		return uint64(x.Type), true
	}),
	"DwarfVirtuality": c18md(func(v uint64) metadata.Definition {
		return &metadata.DISubprogram{MetadataID: -1, Name: "f", Virtuality: enum.DwarfVirtuality(v)}
	}, func(d metadata.Definition) (uint64, bool) {
		x, ok := d.(*metadata.DISubprogram)
		if !ok {
			return 0, false
		}
		return uint64(x.Virtuality), true
	}),
	"DISPFlag": c18md(func(v uint64) metadata.Definition {
		return &metadata.DISubprogram{MetadataID: -1, Name: "f", SPFlags: enum.DISPFlag(v)}
	}, func(d metadata.Definition) (uint64, bool) {
		x, ok := d.(*metadata.DISubprogram)
		if !ok {
			return 0, false
		}
		return uint64(x.SPFlags), true
	}),
	"DwarfCC": c18md(func(v uint64) metadata.Definition {
		return &metadata.DISubroutineType{MetadataID: -1, CC: enum.DwarfCC(v), Types: &metadata.Tuple{MetadataID: -1}}
	}, func(d metadata.Definition) (uint64, bool) {
		x, ok := d.(*metadata.DISubroutineType)
		if !ok {
			return 0, false
		}
		return uint64(x.CC), true
	}),
	"DwarfOp": c18md(func(v uint64) metadata.Definition {
		return &metadata.DIExpression{MetadataID: -1, Fields: []metadata.DIExpressionField{enum.DwarfOp(v)}}
	}, func(d metadata.Definition) (uint64, bool) {
		x, ok := d.(*metadata.DIExpression)
		if !ok || len(x.Fields) != 1 {
			return 0, false
		}
		op, ok := x.Fields[0].(enum.DwarfOp)
		return uint64(op), ok
	}),
}

// c18flagTypes are the bit-flag types: their defined members are the single-bit constants plus
// multi-bit field values; sets of members are printed with " | " (or "," for AllocKind).
var c18flagTypes = map[string]bool{"DIFlag": true, "DISPFlag": true, "AllocKind": true}

// c18zeroHasNoKeyword lists families whose zero value means "absent" (nothing is printed).
func c18roundtrip(c *fw.Check, et EnumType, fam c18family, name string, v uint64) {
	var text string
	var got uint64
	var ok bool
	var perr error
	p := fw.Try(func() {
		m := fam.build(v)
		text = m.String()
		var m2 *ir.Module
		m2, perr = asm.ParseString("c18.ll", text)
		if perr != nil {
			return
		}
		got, ok = fam.extract(m2)
	})
	c.Case("mod|"+et.Name+"|"+fmt.Sprint(v), text)
	c.Valid(1)
	cs := c18case{Type: et.Name, Const: name, Value: v, Text: fw.Trunc(text, 300)}
	switch {
	case p != "":
		cs.What = p
		c.Violation("module/"+et.Name+"/panic/"+name, cs)
	case perr != nil:
		cs.What = perr.Error()
		c.Violation("module/"+et.Name+"/reparse-error/"+name, cs)
	case !ok:
		cs.What = "value not found in re-parsed module"
		c.Violation("module/"+et.Name+"/lost/"+name, cs)
	case got != v:
		cs.Got = fmt.Sprint(got)
		cs.What = "value changed through print+parse"
		c.Violation("module/"+et.Name+"/changed/"+name, cs)
	}
}

func runC18(c *fw.Check) {
	if !TreegenAvailable {
		fw.Fatalf("C18 needs the treegen table (build through ./check)")
	}
	c.Rule = "every typed constant of every integer-based type with a String method declared in ir/enum (and types.FloatKind), LISTED FROM THE CURRENT SOURCE by go/types at check time: FromString(String(v))==v, keywords pairwise distinct per type, and each value printed inside a minimal module built through the API, re-parsed and read back (one module template per family), AND on every further entity that has a field of the enum's type (found by reflection: linkage/visibility/preemption/DLL storage/unnamed_addr/TLS model on function declarations, definitions, aliases and ifuncs; calling convention on declarations, definitions, call, invoke, callbr; atomic orderings on load, store, cmpxchg success and failure, atomicrmw; fast-math flags on all FP instructions, fcmp, select, call; overflow flags on add/sub/mul/shl; tail kinds on call), values LLVM does not admit at a position being skipped; on globals, declarations, definitions, aliases and ifuncs also every PAIR of enum fields with every pair of values (a keyword derived from the others shows only in combination), and every pair of enum slots of one struct of the all-constructs module (quick: 6 values per enum); flag sets: all subsets of AllocKind members, all subsets of DISPFlag members, all DIFlag subsets of <=3 (thorough <=4) members and their complements, printed+parsed and compared as values. distinct = distinct (type,value) and (type,set) cases."
	nTypes, nConsts := 0, 0
	carriers := c18carriers()
	usedCarriers := map[string]bool{}
	slotTable := c18slotTable()
	var walkJobs []c18job
	missingTemplate := []string{}
	noPosition := []string{}
	for _, et := range EnumTable {
		nTypes++
		// distinct values (aliases such as XFirst/XLast/masks share a value).
		byVal := map[uint64]string{}
		var vals []uint64
		for _, k := range et.Consts {
			if _, ok := byVal[k.Value]; !ok {
				byVal[k.Value] = k.Name
				vals = append(vals, k.Value)
			} else if len(k.Name) < len(byVal[k.Value]) && false {
				byVal[k.Value] = k.Name
			}
		}
		sort.Slice(vals, func(i, j int) bool { return vals[i] < vals[j] })
		kw := map[string]uint64{}
		for _, v := range vals {
			nConsts++
			name := byVal[v]
			var s string
			if p := fw.Try(func() { s = et.String(v) }); p != "" {
				c.Violation("string/"+et.Name+"/panic/"+name, c18case{Type: et.Name, Const: name, Value: v, What: p})
				continue
			}
			c.Case("kw|"+et.Name+"|"+fmt.Sprint(v), s)
			if strings.HasPrefix(s, et.Name+"(") {
				c.Violation("string/"+et.Name+"/no-keyword/"+name, c18case{Type: et.Name, Const: name, Value: v, Keyword: s, What: "String() has no keyword for a defined constant"})
				continue
			}
			if prev, dup := kw[s]; dup {
				c.Violation("string/"+et.Name+"/shared-keyword/"+name, c18case{Type: et.Name, Const: name, Value: v, Keyword: s, Got: fmt.Sprint(prev), What: "two values share a keyword"})
			}
			kw[s] = v
			if et.FromString != nil {
				var back uint64
				if p := fw.Try(func() { back = et.FromString(s) }); p != "" {
					c.Violation("fromstring/"+et.Name+"/panic/"+name, c18case{Type: et.Name, Const: name, Value: v, Keyword: s, What: p})
				} else if back != v {
					c.Violation("fromstring/"+et.Name+"/wrong/"+name, c18case{Type: et.Name, Const: name, Value: v, Keyword: s, Got: fmt.Sprint(back), What: "FromString(String(v)) != v"})
				}
			}
		}
		fam, ok := c18families[et.Name]
		if !ok {
			missingTemplate = append(missingTemplate, et.Name)
			continue
		}
		for _, v := range vals {
			if c18flagTypes[et.Name] && bits.OnesCount64(v) != 1 && !(et.Name == "DIFlag" && (v == 3 || v == 3<<16)) {
				continue // composite masks / zero: covered by the set enumeration below
			}
			if v == 0 && et.Name != "DwarfOp" && et.Name != "IPred" && et.Name != "FPred" && et.Name != "AtomicOp" && et.Name != "FloatKind" && et.Name != "ClauseType" && et.Name != "DwarfMacinfo" && et.Name != "UnwindTableKind" {
				continue // zero value == "not present": nothing is printed
			}
			if et.Name == "Preemption" && byVal[v] == "PreemptionDSOLocalEquivalent" {
				// `dso_local_equivalent` is a constant kind in LLVM, not a preemption specifier: no
				// module position accepts it (llvm-as rejects it too); only the keyword maps are checked.
				noPosition = append(noPosition, byVal[v])
				continue
			}
			c18roundtrip(c, et, fam, byVal[v], v)
			c18runCarriers(c, et, byVal[v], v, carriers, usedCarriers)
			walkJobs = append(walkJobs, c18walkJobs(et, byVal[v], v, slotTable)...)
		}
	}
	fw.ParallelFor(len(walkJobs), func(i int) { c18runWalkJob(c, walkJobs[i]) })
	c18pairs(c)
	pairJobs := c18walkPairJobs(map[bool]int{true: 6, false: 0}[c.Quick()])
	fw.ParallelFor(len(pairJobs), func(i int) { c18runWalkPairJob(c, pairJobs[i]) })
	c.Extra["enum_slot_pairs_in_one_struct"] = len(pairJobs)
	var wk []string
	for en, ks := range slotTable {
		for k := range ks {
			wk = append(wk, en+"@"+k)
		}
	}
	sort.Strings(wk)
	c.Extra["generic_carriers_in_all_kinds_module"] = wk
	c.Extra["generic_carrier_roundtrips"] = len(walkJobs)
	c.Extra["generic_carrier_base_module_variants"] = c18baseVariants
	var ucs []string
	for k := range usedCarriers {
		ucs = append(ucs, k)
	}
	sort.Strings(ucs)
	c.Extra["additional_carriers"] = ucs
	c.Extra["constants_without_grammar_position"] = noPosition
	c.Extra["enum_types"] = nTypes
	c.Extra["enum_constants_distinct"] = nConsts
	c.Extra["families_without_module_template"] = missingTemplate
	c.Sample(map[string]interface{}{"type": "Linkage", "const": "LinkageLinkOnceODR", "oracle": "LinkageFromString(v.String())==v; `@g = linkonce_odr global i32 0` re-parses to the same Linkage"})
	// Flag sets.
	maxDI := 3
	if !c.Quick() {
		maxDI = 4
	}
	for _, et := range EnumTable {
		if !c18flagTypes[et.Name] {
			continue
		}
		fam := c18families[et.Name]
		var members []uint64
		seen := map[uint64]bool{}
		for _, k := range et.Consts {
			if bits.OnesCount64(k.Value) == 1 && !seen[k.Value] {
				seen[k.Value] = true
				members = append(members, k.Value)
			}
		}
		sort.Slice(members, func(i, j int) bool { return members[i] < members[j] })
		var all uint64
		for _, mbr := range members {
			all |= mbr
		}
		var sets []uint64
		switch et.Name {
		case "AllocKind", "DISPFlag":
			for mask := 1; mask < 1<<len(members); mask++ {
				var v uint64
				for i, mbr := range members {
					if mask>>i&1 == 1 {
						v |= mbr
					}
				}
				sets = append(sets, v)
			}
		default:
			var rec func(start int, cur uint64, n int)
			rec = func(start int, cur uint64, n int) {
				if n > 0 {
					sets = append(sets, cur, all&^cur)
				}
				if n == maxDI {
					return
				}
				for i := start; i < len(members); i++ {
					rec(i+1, cur|members[i], n+1)
				}
			}
			rec(0, 0, 0)
		}
		fw.ParallelFor(len(sets), func(i int) {
			if sets[i] == 0 {
				return
			}
			c18roundtripSet(c, et, fam, sets[i])
		})
		c.Extra["flag_sets_"+et.Name] = len(sets)
	}
	c.Sample(map[string]interface{}{"type": "DISPFlag", "set": "DISPFlagLocalToUnit|DISPFlagDefinition|DISPFlagDeleted", "oracle": "value read back from the re-parsed DISubprogram equals the set"})
	c18sideBySide(c)
	c18attrLists(c)
	c18aliasing(c)
}

func c18roundtripSet(c *fw.Check, et EnumType, fam c18family, v uint64) {
	var text string
	var got uint64
	var ok bool
	var perr error
	p := fw.Try(func() {
		m := fam.build(v)
		text = m.String()
		var m2 *ir.Module
		m2, perr = asm.ParseString("c18.ll", text)
		if perr != nil {
			return
		}
		got, ok = fam.extract(m2)
	})
	c.Case("set|"+et.Name+"|"+fmt.Sprint(v), text)
	c.Valid(1)
	cs := c18case{Type: et.Name, Value: v, Text: fw.Trunc(text, 300)}
	switch {
	case p != "":
		cs.What = p
		c.Violation("flagset/"+et.Name+"/panic", cs)
	case perr != nil:
		cs.What = perr.Error()
		c.Violation("flagset/"+et.Name+"/reparse-error", cs)
	case !ok:
		cs.What = "value not found"
		c.Violation("flagset/"+et.Name+"/lost", cs)
	case got != v:
		cs.Got = fmt.Sprint(got)
		missing, extra := v&^got, got&^v
		cs.What = fmt.Sprintf("set changed: missing bits %#x, extra bits %#x", missing, extra)
		sig := "flagset/" + et.Name + "/changed"
		if extra == 0 {
			sig += fmt.Sprintf("/drops-%#x", missing&-missing)
		}
		c.Violation(sig, cs)
	}
}

func replayC18(c *fw.Check, path string) {
	var lc c18listCase
	loadReplay(path, &lc)
	if lc.Placement != "" {
		fmt.Printf("replay attribute list %s: %s %s\n%s\n", lc.Placement, lc.First, lc.Second, lc.Text)
		c18attrLists(c)
		return
	}
	var cs c18case
	loadReplay(path, &cs)
	for _, et := range EnumTable {
		if strings.HasPrefix(cs.Type, et.Name+"@") {
			fmt.Printf("replay carrier %s %s:\n%s\n", cs.Type, cs.Const, cs.Text)
			c18runCarriers(c, et, cs.Const, cs.Value, c18carriers(), map[string]bool{})
			for _, j := range c18walkJobs(et, cs.Const, cs.Value, c18slotTable()) {
				if strings.HasPrefix(cs.Type, et.Name+"@"+j.key+"#") {
					c18runWalkJob(c, j)
				}
			}
		}
		if et.Name != cs.Type {
			continue
		}
		fam, ok := c18families[et.Name]
		if ok {
			c18roundtrip(c, et, fam, cs.Const, cs.Value)
			c18roundtripSet(c, et, fam, cs.Value)
		}
		s := et.String(cs.Value)
		fmt.Printf("replay: %s(%d).String()=%q\n", et.Name, cs.Value, s)
		if et.FromString != nil {
			p := fw.Try(func() { fmt.Printf("replay: FromString=%d\n", et.FromString(s)) })
			if p != "" {
				c.Violation("fromstring/replay", cs)
			}
		}
	}
	c.Case("a", "a")
	c.Case("b", "b")
}
