package props

import (
	"fmt"
	"sync/atomic"

	"github.com/llir/llvm/ir/types"

	"verif/fw"
)

// Equality after in-place edits. Types are mutable object graphs (exported fields, SetName,
// Module.NewTypeDef naming a struct that is already in use); Equal must describe the graph as it
// IS, not as it was when it was first compared. For every descriptor of the universe (depth <= 2)
// and every node of its tree, every applicable single edit (bit width, float kind, address space,
// vector length / scalability, array length, packedness, variadicity, naming a literal struct) is
// applied IN PLACE to an object graph that has already taken part in comparisons; Equal against
// freshly built instances of the edited and of the original descriptor must then agree with the
// descriptor identity, in both argument orders and when the edited graph is nested in a wrapper.

// copyTD deep-copies a descriptor tree (descriptors of the universe share sub-trees).
func copyTD(d *td) *td {
	if d == nil {
		return nil
	}
	c := *d
	c.Elem = copyTD(d.Elem)
	c.Fields = nil
	for _, f := range d.Fields {
		c.Fields = append(c.Fields, copyTD(f))
	}
	return &c
}

// nodesTD lists the nodes of a tree in pre-order.
func nodesTD(d *td, out *[]*td) {
	if d == nil {
		return
	}
	*out = append(*out, d)
	nodesTD(d.Elem, out)
	for _, f := range d.Fields {
		nodesTD(f, out)
	}
}

// buildRec builds the llir type graph of d and records the object of every node.
func buildRec(d *td, env map[string]*types.StructType, rec map[*td]types.Type) types.Type {
	var t types.Type
	switch d.K {
	case "ptr":
		p := types.NewPointer(buildRec(d.Elem, env, rec))
		p.AddrSpace = types.AddrSpace(d.AS)
		t = p
	case "vec":
		v := types.NewVector(d.Len, buildRec(d.Elem, env, rec))
		v.Scalable = d.Scal
		t = v
	case "arr":
		t = types.NewArray(d.Len, buildRec(d.Elem, env, rec))
	case "struct":
		var fs []types.Type
		for _, f := range d.Fields {
			fs = append(fs, buildRec(f, env, rec))
		}
		s := types.NewStruct(fs...)
		s.Packed = d.Packed
		t = s
	case "func":
		var ps []types.Type
		for _, f := range d.Fields {
			ps = append(ps, buildRec(f, env, rec))
		}
		f := types.NewFunc(buildRec(d.Elem, env, rec), ps...)
		f.Variadic = d.Variadic
		t = f
	default:
		t = d.build(env)
	}
	rec[d] = t
	return t
}

type c16edit struct {
	name  string
	apply func(d *td, t types.Type) bool // edits descriptor node and object; false if not applicable
}

var c16edits = []c16edit{
	{"bit width +1", func(d *td, t types.Type) bool {
		it, ok := t.(*types.IntType)
		if !ok || d.K != "int" {
			return false
		}
		d.Bits++
		it.BitSize++
		return true
	}},
	{"float kind -> double/float", func(d *td, t types.Type) bool {
		ft, ok := t.(*types.FloatType)
		if !ok || d.K != "float" {
			return false
		}
		if d.FK == "double" {
			d.FK, ft.Kind = "float", types.FloatKindFloat
		} else {
			d.FK, ft.Kind = "double", types.FloatKindDouble
		}
		return true
	}},
	{"address space ^1", func(d *td, t types.Type) bool {
		pt, ok := t.(*types.PointerType)
		if !ok || d.K != "ptr" {
			return false
		}
		d.AS ^= 1
		pt.AddrSpace ^= 1
		return true
	}},
	{"vector length +1", func(d *td, t types.Type) bool {
		vt, ok := t.(*types.VectorType)
		if !ok || d.K != "vec" {
			return false
		}
		d.Len++
		vt.Len++
		return true
	}},
	{"vector scalable toggled", func(d *td, t types.Type) bool {
		vt, ok := t.(*types.VectorType)
		if !ok || d.K != "vec" {
			return false
		}
		d.Scal = !d.Scal
		vt.Scalable = !vt.Scalable
		return true
	}},
	{"array length +1", func(d *td, t types.Type) bool {
		at, ok := t.(*types.ArrayType)
		if !ok || d.K != "arr" {
			return false
		}
		d.Len++
		at.Len++
		return true
	}},
	{"struct packed toggled", func(d *td, t types.Type) bool {
		st, ok := t.(*types.StructType)
		if !ok || d.K != "struct" {
			return false
		}
		d.Packed = !d.Packed
		st.Packed = !st.Packed
		return true
	}},
	{"function variadic toggled", func(d *td, t types.Type) bool {
		ft, ok := t.(*types.FuncType)
		if !ok || d.K != "func" {
			return false
		}
		d.Variadic = !d.Variadic
		ft.Variadic = !ft.Variadic
		return true
	}},
	{"literal struct given a name (SetName)", func(d *td, t types.Type) bool {
		st, ok := t.(*types.StructType)
		if !ok || d.K != "struct" {
			return false
		}
		// becomes the identified struct %Edited: a named descriptor.
		*d = td{K: "named", Name: "Edited"}
		st.SetName("Edited")
		return true
	}},
	{"element / return type replaced by i64", func(d *td, t types.Type) bool {
		if d.Elem == nil {
			return false
		}
		n := types.NewInt(64)
		switch x := t.(type) {
		case *types.PointerType:
			x.ElemType = n
		case *types.VectorType:
			x.ElemType = n
		case *types.ArrayType:
			x.ElemType = n
		case *types.FuncType:
			x.RetType = n
		default:
			return false
		}
		d.Elem = tInt(64)
		return true
	}},
}

func c16mutations(c *fw.Check) {
	ds := c16universe(2, false)
	var cases int64
	fw.ParallelFor(len(ds), func(i int) {
		var nodes0 []*td
		nodesTD(ds[i], &nodes0)
		for ni := range nodes0 {
			for _, ed := range c16edits {
				d := copyTD(ds[i])
				orig := copyTD(ds[i])
				var nodes []*td
				nodesTD(d, &nodes)
				env := c16env(1)
				rec := map[*td]types.Type{}
				X := buildRec(d, env, rec)
				// the graph takes part in comparisons before it is edited.
				warm := orig.build(c16env(1))
				equalSafe(X, warm)
				equalSafe(warm, X)
				wrapBefore := types.NewStruct(X, types.NewPointer(X))
				equalSafe(wrapBefore, types.NewStruct(warm, types.NewPointer(warm)))
				if !ed.apply(nodes[ni], rec[nodes[ni]]) {
					continue
				}
				atomic.AddInt64(&cases, 1)
				after := d.canon()
				before := orig.canon()
				freshAfter := func() types.Type {
					e := c16env(1)
					// the struct named by the edit is the very object inside X (identified
					// structs are compared by name): build the others fresh.
					r := map[*td]types.Type{}
					dd := copyTD(d)
					return buildRecNamed(dd, e, r, "Edited")
				}
				fa := freshAfter()
				fb := orig.build(c16env(1))
				cs := c16case{Universe: 1, T: before, U: after}
				chk := func(a, b types.Type, want bool, what string) {
					got, p := equalSafe(a, b)
					if p != "" {
						cs.What = what + ": panic " + p
						c.Violation("after-edit/panic/"+ed.name, cs)
						return
					}
					if got != want {
						cs.Got, cs.What = fmt.Sprint(got), what
						c.Violation("after-edit/stale/"+ed.name+"/"+nodes0[ni].K+"-in-"+ds[i].K, cs)
					}
				}
				chk(X, fa, true, "edited graph vs fresh instance of the edited type")
				chk(fa, X, true, "fresh instance of the edited type vs edited graph")
				if after != before {
					chk(X, fb, false, "edited graph vs fresh instance of the ORIGINAL type")
					chk(fb, X, false, "fresh instance of the ORIGINAL type vs edited graph")
				}
				chk(types.NewStruct(X, types.NewPointer(X)), types.NewStruct(fa, types.NewPointer(fa)), true, "wrappers { T, T* } built after the edit")
				chk(wrapBefore, types.NewStruct(fa, types.NewPointer(fa)), true, "wrapper { T, T* } built BEFORE the edit vs fresh wrapper of the edited type")
			}
		}
	})
	c.DistinctN(cases)
	c.Valid(cases)
	c.Extra["in_place_edit_cases"] = cases
}

// buildRecNamed is buildRec for descriptors that may hold the struct named by an edit: a fresh
// identified struct of that name (identified structs are identified by name).
func buildRecNamed(d *td, env map[string]*types.StructType, rec map[*td]types.Type, name string) types.Type {
	if _, ok := env[name]; !ok {
		s := types.NewStruct()
		s.SetName(name)
		env[name] = s
	}
	return buildRec(d, env, rec)
}
