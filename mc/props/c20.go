package props

import (
	"fmt"
	"regexp"
	"sort"
	"strings"
	"sync"

	"github.com/llir/llvm/asm"
	"github.com/llir/llvm/vexport"

	"verif/fw"
	"verif/gen"
)

func init() { Registry["C20"] = Prop{Run: runC20, Replay: replayC20} }

// ---- reference natural-order comparator (written from the documentation, token-wise) ----------

type natTok struct {
	digit bool
	b     byte   // non-digit byte
	num   string // digits without leading zeros
	zeros int
	first byte // first byte of the run as written
}

func natTokens(s string) []natTok {
	var ts []natTok
	for i := 0; i < len(s); {
		if s[i] >= '0' && s[i] <= '9' {
			j := i
			for j < len(s) && s[j] >= '0' && s[j] <= '9' {
				j++
			}
			run := s[i:j]
			z := 0
			for z < len(run) && run[z] == '0' {
				z++
			}
			ts = append(ts, natTok{digit: true, num: run[z:], zeros: z, first: run[0]})
			i = j
		} else {
			ts = append(ts, natTok{b: s[i], first: s[i]})
			i++
		}
	}
	return ts
}

// refNatCmp returns -1, 0, +1.
func refNatCmp(a, b string) int {
	ta, tb := natTokens(a), natTokens(b)
	for i := 0; i < len(ta) && i < len(tb); i++ {
		x, y := ta[i], tb[i]
		switch {
		case x.digit && y.digit:
			if len(x.num) != len(y.num) {
				if len(x.num) < len(y.num) {
					return -1
				}
				return 1
			}
			if x.num != y.num {
				if x.num < y.num {
					return -1
				}
				return 1
			}
			if x.zeros != y.zeros {
				if x.zeros < y.zeros {
					return -1
				}
				return 1
			}
		default:
			if x.first != y.first {
				if x.first < y.first {
					return -1
				}
				return 1
			}
		}
	}
	// One token list is a prefix of the other. (A digit run that is a strict prefix of a longer
	// run never gets here: the runs differ numerically or in zeros.)
	if len(ta) != len(tb) {
		if len(ta) < len(tb) {
			return -1
		}
		return 1
	}
	return 0
}

func stringsOver(alpha []byte, maxLen int) []string {
	out := []string{""}
	prev := []string{""}
	for l := 1; l <= maxLen; l++ {
		var cur []string
		for _, p := range prev {
			for _, a := range alpha {
				cur = append(cur, p+string([]byte{a}))
			}
		}
		out = append(out, cur...)
		prev = cur
	}
	return out
}

type c20case struct {
	Kind string   `json:"kind"`
	A    string   `json:"a,omitempty"`
	B    string   `json:"b,omitempty"`
	C    string   `json:"c,omitempty"`
	Defs []string `json:"defs,omitempty"`
	Want string   `json:"want,omitempty"`
	Got  string   `json:"got,omitempty"`
}

func c20pair(c *fw.Check, a, b string) {
	lab, lba := vexport.NatLess(a, b), vexport.NatLess(b, a)
	ref := refNatCmp(a, b)
	if a == b {
		if lab {
			c.Violation("natsort/irreflexive", c20case{Kind: "pair", A: a, B: b})
		}
		return
	}
	if lab && lba {
		c.Violation("natsort/asymmetric", c20case{Kind: "pair", A: a, B: b})
	}
	if !lab && !lba {
		c.Violation("natsort/total", c20case{Kind: "pair", A: a, B: b})
	}
	if (ref < 0) != lab || (ref > 0) != lba {
		c.Violation("natsort/differs-from-reference", c20case{Kind: "pair", A: a, B: b, Want: fmt.Sprint(ref), Got: fmt.Sprint(lab, lba)})
	}
}

func runC20(c *fw.Check) {
	c.Rule = "natsort.Less on ALL ordered pairs of all byte strings of length <=L over {0,1,9,a,b,0x00,0xFF} (irreflexive, asymmetric, total, equal to an independent token-wise reference comparator); transitivity decided exactly by sorting the whole set and checking every pair i<j against the sorted position; numeric-run law on all (prefix,d1,d2,suffix); then ALL permutations of every dependency-closed subset (size<=K) of a pool of top-level definitions through asm.ParseString+String against an expected text built with the reference comparator. PLUS modules whose type, comdat and named-metadata sections hold ALL names of length <=2 (thorough 3) over {0,1,9,a,B,$,space,.,-}: after parse+print the names decoded from the printed lines and the parsed module's lists are in reference order. PLUS every subset (size <=4, thorough <=6) of the ID universe {0,1,2,3,5,9,50,100} as attribute-group IDs and metadata IDs in every textual order (thorough, size >4: reverse, rotations, adjacent swaps): printed definitions and module lists ascend by ID. distinct = distinct pairs / permuted inputs / names."
	maxLen, maxDefs := 3, 4
	if !c.Quick() {
		maxLen, maxDefs = 4, 5
	}
	alpha := []byte{'0', '1', '9', 'a', 'b', 0x00, 0xFF}
	ss := stringsOver(alpha, maxLen)
	n := len(ss)
	// 1. all ordered pairs.
	fw.ParallelFor(n, func(i int) {
		for j := 0; j < n; j++ {
			c20pair(c, ss[i], ss[j])
		}
		c.DistinctN(int64(n))
	})
	c.Extra["natsort_strings"] = n
	c.Extra["natsort_pairs"] = n * n
	for _, s := range []string{"a1", "a01", "a10b", "\x009\xff"} {
		c.Sample(map[string]string{"pair": fmt.Sprintf("%q vs %q", s, "a9")})
	}
	// 2. transitivity: sort with Less, then all pairs must agree with position.
	sorted := append([]string(nil), ss...)
	sort.SliceStable(sorted, func(i, j int) bool { return vexport.NatLess(sorted[i], sorted[j]) })
	fw.ParallelFor(n, func(i int) {
		for j := i + 1; j < n; j++ {
			if !vexport.NatLess(sorted[i], sorted[j]) || vexport.NatLess(sorted[j], sorted[i]) {
				c.Violation("natsort/transitive", c20case{Kind: "order", A: sorted[i], B: sorted[j]})
			}
		}
	})
	c.Step(int64(n) * int64(n-1) / 2)
	// natsort.Strings sorts into exactly that order.
	viaLib := append([]string(nil), ss...)
	// reverse to start from a different order
	for i, j := 0, len(viaLib)-1; i < j; i, j = i+1, j-1 {
		viaLib[i], viaLib[j] = viaLib[j], viaLib[i]
	}
	vexport.NatStrings(viaLib)
	ref := append([]string(nil), ss...)
	sort.SliceStable(ref, func(i, j int) bool { return refNatCmp(ref[i], ref[j]) < 0 })
	for i := range ref {
		if ref[i] != viaLib[i] {
			c.Violation("natsort/Strings-order", c20case{Kind: "sort", A: ref[i], B: viaLib[i]})
			break
		}
	}
	// 3. numeric-run law: p d1 s < p d2 s  <=>  d1 < d2 numerically (p not ending, s not starting with a digit).
	nums := []string{"0", "1", "2", "9", "10", "11", "19", "20", "99", "100", "101", "18446744073709551615", "18446744073709551616", "99999999999999999999", "100000000000000000000"}
	pre := []string{"", "a", "a.", "\xff", "x1y"}
	suf := []string{"", "a", "b", "\x00", ".5"}
	for _, p := range pre {
		for _, s := range suf {
			for i, d1 := range nums {
				for j, d2 := range nums {
					got := vexport.NatLess(p+d1+s, p+d2+s)
					if got != (i < j) {
						c.Violation("natsort/numeric-run", c20case{Kind: "numeric", A: p + d1 + s, B: p + d2 + s, Want: fmt.Sprint(i < j)})
					}
					c.Case("num|"+p+d1+s+"|"+p+d2+s, fmt.Sprint(got))
				}
			}
		}
	}
	// 3b. ALL pairs of the numbers 0..1100 (and with leading zeros 0..110) in two contexts:
	// numeric order, zeros as tie-break.
	var ns []string
	for i := 0; i <= 1100; i++ {
		ns = append(ns, fmt.Sprint(i))
	}
	fw.ParallelFor(len(ns), func(i int) {
		for j := range ns {
			for _, ctx := range [][2]string{{"", ""}, {"t", ".x"}} {
				a, b := ctx[0]+ns[i]+ctx[1], ctx[0]+ns[j]+ctx[1]
				if got := vexport.NatLess(a, b); got != (i < j) {
					c.Violation("natsort/numeric-run", c20case{Kind: "numeric", A: a, B: b, Want: fmt.Sprint(i < j)})
				}
			}
		}
		c.DistinctN(int64(2 * len(ns)))
	})
	// 4. permutations of top-level definitions.
	c20modules(c, maxDefs)
	// 5. rotations / reversal / adjacent swaps of the fragments of generated modules.
	c20sectionOrder(c)
	c20idOrder(c)
	c20rename(c)
	c20generated(c)
}

var (
	reC20global = regexp.MustCompile(`(?m)^(@[^ ]+|@"[^"]*") = .*\b(global|constant)\b`)
	reC20alias  = regexp.MustCompile(`(?m)^(@[^ ]+|@"[^"]*") = .*\balias\b`)
	reC20ifunc  = regexp.MustCompile(`(?m)^(@[^ ]+|@"[^"]*") = .*\bifunc\b`)
	reC20func   = regexp.MustCompile(`(?m)^(?:define|declare)[^@\n]*(@[^ (]+|@"[^"]*")\(`)
)

// c20order extracts the textual order of globals, aliases, ifuncs and functions of a module text.
func c20order(text string) string {
	var b strings.Builder
	for _, re := range []*regexp.Regexp{reC20global, reC20alias, reC20ifunc, reC20func} {
		for _, m := range re.FindAllStringSubmatch(text, -1) {
			// the printer may drop quotes the input used redundantly (@"-1" is @-1).
			b.WriteString("@" + strings.Trim(m[1][1:], `"`) + " ")
		}
		b.WriteString("| ")
	}
	return b.String()
}

// c20sorted returns the lines of the sections the printer sorts (types, comdats, attribute groups,
// named metadata, metadata), in the order printed.
func c20sorted(text string) string {
	var out []string
	for _, l := range strings.Split(text, "\n") {
		if strings.HasPrefix(l, "%") && strings.Contains(l, " = type ") || strings.HasPrefix(l, "$") || strings.HasPrefix(l, "attributes #") || strings.HasPrefix(l, "!") {
			if strings.HasPrefix(l, "!") && len(l) > 1 && !(l[1] >= '0' && l[1] <= '9') {
				// named metadata defined several times is merged in TEXTUAL order by design: only
				// the position of the line and the set of operands are order-independent.
				if i := strings.Index(l, "= !{"); i >= 0 && strings.HasSuffix(l, "}") {
					ops := strings.Split(l[i+4:len(l)-1], ", ")
					sort.Strings(ops)
					l = l[:i+4] + strings.Join(ops, ", ") + "}"
				}
			}
			out = append(out, l)
		}
	}
	return strings.Join(out, "\n")
}

func c20generated(c *fw.Check) {
	bound := 0
	if !c.Quick() {
		bound = 1
	}
	var vs []gen.Variant
	for i, e := range gen.Catalogue() {
		for _, v := range gen.Variants(e, i, bound) {
			if v.Solo {
				continue
			}
			if _, errs, pan := parseTry(gen.Module([]gen.Variant{v})); errs == "" && pan == "" {
				vs = append(vs, v)
			}
		}
	}
	const batch = 24
	nb := (len(vs) + batch - 1) / batch
	n := 0
	var mu sync.Mutex
	fw.ParallelFor(nb, func(bi int) {
		lo, hi := bi*batch, (bi+1)*batch
		if hi > len(vs) {
			hi = len(vs)
		}
		base := vs[lo:hi]
		m0, errs, pan := parseTry(gen.Module(base))
		if errs != "" || pan != "" {
			return
		}
		ref := m0.String()
		refSorted := c20sorted(ref)
		var perms [][]gen.Variant
		for r := 1; r < len(base); r++ { // rotations
			perms = append(perms, append(append([]gen.Variant(nil), base[r:]...), base[:r]...))
		}
		rev := make([]gen.Variant, len(base)) // reversal
		for i, v := range base {
			rev[len(base)-1-i] = v
		}
		perms = append(perms, rev)
		for i := 0; i+1 < len(base); i++ { // adjacent swaps
			p := append([]gen.Variant(nil), base...)
			p[i], p[i+1] = p[i+1], p[i]
			perms = append(perms, p)
		}
		for _, p := range perms {
			in := gen.Module(p)
			m, e1, p1 := parseTry(in)
			cs := c20case{Kind: "generated", Defs: []string{fw.Trunc(in, 1500)}}
			if e1 != "" || p1 != "" {
				cs.Got = e1 + p1
				c.Violation("generated/permuted-input-rejected", cs)
				continue
			}
			out := m.String()
			if got := c20sorted(out); got != refSorted {
				cs.Want, cs.Got = fw.Trunc(firstDiff(refSorted, got), 600), ""
				c.Violation("generated/sorted-sections-depend-on-input-order", cs)
			}
			if want, got := c20order(in), c20order(out); want != got {
				cs.Want, cs.Got = fw.Trunc(want, 800), fw.Trunc(got, 800)
				c.Violation("generated/textual-order-not-kept", cs)
			}
			mu.Lock()
			n++
			mu.Unlock()
			c.Case("gen|"+fmt.Sprint(bi, len(in), hashStr(in)), "")
		}
		c.Valid(int64(len(perms)))
	})
	c.Extra["generated_permutations"] = n
}

type c20def struct {
	kind string // type comdat global alias ifunc func attr named md
	name string
	id   int
	text string // input text
	out  string // expected printed text
	req  []int  // indices of required defs
}

var c20pool = []c20def{
	{kind: "type", name: "t10", text: "%t10 = type { i32 }", out: "%t10 = type { i32 }"},
	{kind: "type", name: "t9", text: "%t9 = type opaque", out: "%t9 = type opaque"},
	{kind: "type", name: "t09", text: "%t09 = type { i8 }", out: "%t09 = type { i8 }"},
	{kind: "comdat", name: "c10", text: "$c10 = comdat any", out: "$c10 = comdat any"},
	{kind: "comdat", name: "c2", text: "$c2 = comdat largest", out: "$c2 = comdat largest"},
	{kind: "global", name: "g10", text: "@g10 = global i32 1", out: "@g10 = global i32 1"},
	{kind: "global", name: "g2", text: "@g2 = global i32 2", out: "@g2 = global i32 2"},
	{kind: "alias", name: "a10", text: "@a10 = alias i32, i32* @g2", out: "@a10 = alias i32, i32* @g2", req: []int{6}},
	{kind: "alias", name: "a2", text: "@a2 = alias i32, i32* @g2", out: "@a2 = alias i32, i32* @g2", req: []int{6}},
	{kind: "func", name: "f10", text: "declare void @f10()", out: "declare void @f10()"},
	{kind: "func", name: "f2", text: "define i8* @f2() {\n\tret i8* null\n}", out: "define i8* @f2() {\n0:\n\tret i8* null\n}"},
	{kind: "ifunc", name: "i3", text: "@i3 = ifunc void (), i8* ()* @f2", out: "@i3 = ifunc void (), i8* ()* @f2", req: []int{10}},
	{kind: "attr", id: 10, text: "attributes #10 = { nounwind }", out: "attributes #10 = { nounwind }"},
	{kind: "attr", id: 2, text: "attributes #2 = { noreturn }", out: "attributes #2 = { noreturn }"},
	{kind: "named", name: "n10", text: "!n10 = !{}", out: "!n10 = !{}"},
	{kind: "named", name: "n9", text: "!n9 = !{}", out: "!n9 = !{}"},
	{kind: "md", id: 10, text: "!10 = !{}", out: "!10 = !{}"},
	{kind: "md", id: 2, text: "!2 = !{!\"x\"}", out: "!2 = !{!\"x\"}"},
}

var c20sections = []string{"type", "comdat", "global", "alias", "ifunc", "func", "attr", "named", "md"}

// c20expected builds the text the property prescribes for the definitions in textual order.
func c20expected(defs []c20def) string {
	var secs []string
	for _, k := range c20sections {
		var ds []c20def
		for _, d := range defs {
			if d.kind == k {
				ds = append(ds, d)
			}
		}
		if len(ds) == 0 {
			continue
		}
		switch k {
		case "type", "comdat", "named":
			sort.SliceStable(ds, func(i, j int) bool { return refNatCmp(ds[i].name, ds[j].name) < 0 })
		case "attr", "md":
			sort.SliceStable(ds, func(i, j int) bool { return ds[i].id < ds[j].id })
		}
		var lines []string
		for _, d := range ds {
			lines = append(lines, d.out)
		}
		sep := "\n"
		if k == "func" {
			sep = "\n\n"
		}
		secs = append(secs, strings.Join(lines, sep)+"\n")
	}
	return strings.Join(secs, "\n")
}

func c20runModule(c *fw.Check, defs []c20def) {
	var in []string
	for _, d := range defs {
		in = append(in, d.text)
	}
	text := strings.Join(in, "\n") + "\n"
	want := c20expected(defs)
	var got string
	p := fw.Try(func() {
		m, err := asm.ParseString("c20.ll", text)
		if err != nil {
			got = "ERROR: " + err.Error()
			return
		}
		got = m.String()
	})
	if p != "" {
		got = "PANIC: " + p
	}
	c.Case(text, got)
	c.Valid(1)
	if got != want {
		c.Violation("module-order/"+c20diffKind(defs, got, want), c20case{Kind: "module", Defs: in, Want: want, Got: got})
	}
}

// c20diffKind names the first section whose lines are out of the prescribed order.
func c20diffKind(defs []c20def, got, want string) string {
	if strings.HasPrefix(got, "ERROR") || strings.HasPrefix(got, "PANIC") {
		return strings.SplitN(got, ":", 2)[0]
	}
	gl, wl := strings.Split(got, "\n"), strings.Split(want, "\n")
	for i := 0; i < len(gl) && i < len(wl); i++ {
		if gl[i] != wl[i] {
			for _, d := range defs {
				if strings.HasPrefix(d.out, wl[i]) || strings.Contains(d.out, wl[i]) && wl[i] != "" {
					return d.kind
				}
			}
			return "line"
		}
	}
	return "length"
}

func c20modules(c *fw.Check, maxDefs int) {
	n := len(c20pool)
	var subsets [][]int
	var rec func(start int, cur []int)
	rec = func(start int, cur []int) {
		if len(cur) > 0 {
			// dependency-closed?
			ok := true
			for _, i := range cur {
				for _, r := range c20pool[i].req {
					found := false
					for _, j := range cur {
						if j == r {
							found = true
						}
					}
					if !found {
						ok = false
					}
				}
			}
			if ok {
				subsets = append(subsets, append([]int(nil), cur...))
			}
		}
		if len(cur) == maxDefs {
			return
		}
		for i := start; i < n; i++ {
			rec(i+1, append(cur, i))
		}
	}
	rec(0, nil)
	c.Extra["module_subsets"] = len(subsets)
	fw.ParallelFor(len(subsets), func(si int) {
		sub := subsets[si]
		perm := make([]int, len(sub))
		for i := range perm {
			perm[i] = i
		}
		permute(perm, 0, func(p []int) {
			defs := make([]c20def, len(p))
			for i, x := range p {
				defs[i] = c20pool[sub[x]]
			}
			c20runModule(c, defs)
		})
	})
	c.Sample(map[string]interface{}{"module_permutation_input": []string{c20pool[5].text, c20pool[1].text, c20pool[0].text, c20pool[16].text}, "expected": c20expected([]c20def{c20pool[5], c20pool[1], c20pool[0], c20pool[16]})})
}

// permute calls f with every permutation of a (Heap-free simple recursion; deterministic order).
func permute(a []int, k int, f func([]int)) {
	if k == len(a) {
		f(a)
		return
	}
	for i := k; i < len(a); i++ {
		a[k], a[i] = a[i], a[k]
		permute(a, k+1, f)
		a[k], a[i] = a[i], a[k]
	}
}

func replayC20(c *fw.Check, path string) {
	var cs c20case
	loadReplay(path, &cs)
	switch cs.Kind {
	case "pair", "order", "numeric":
		c20pair(c, cs.A, cs.B)
		c20pair(c, cs.B, cs.A)
		fmt.Printf("replay: Less(%q,%q)=%v Less(%q,%q)=%v ref=%d\n", cs.A, cs.B, vexport.NatLess(cs.A, cs.B), cs.B, cs.A, vexport.NatLess(cs.B, cs.A), refNatCmp(cs.A, cs.B))
		c.Case(cs.A+"|"+cs.B, "")
		c.Case(cs.B+"|"+cs.A, "x")
	case "module":
		text := strings.Join(cs.Defs, "\n") + "\n"
		m, err := asm.ParseString("c20.ll", text)
		got := ""
		if err != nil {
			got = "ERROR: " + err.Error()
		} else {
			got = m.String()
		}
		fmt.Printf("replay input:\n%s\ngot:\n%s\nwant:\n%s\n", text, got, cs.Want)
		c.Case(text, got)
		c.Case(text+"#", got+"#")
		if got != cs.Want {
			c.Violation("module-order/replay", cs)
		}
	}
}
