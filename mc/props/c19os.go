package props

import (
	"bytes"
	"fmt"
	"io"
	"os"
	"os/signal"
	"path/filepath"
	"strings"
	"syscall"

	"github.com/llir/llvm/ir"

	"verif/fw"
)

// Writers of the standard library, passed AS THEMSELVES (a printer that treats a concrete writer
// type specially -- buffering an *os.File, growing a *bytes.Buffer -- is only exercised that way):
// *bytes.Buffer, *strings.Builder, an io.Pipe whose reader gives up after k bytes, and real files:
// a good one, one opened read-only, a closed one, /dev/full, and a regular file that the kernel
// stops accepting after EXACTLY k bytes (RLIMIT_FSIZE lowered around the call, SIGXFSZ ignored)
// for every k. What the writer accepted is measured from outside (file size, bytes the pipe reader
// received).
func c19stdWriters(c *fw.Check, mi int, m *ir.Module, s string) {
	dir := os.Getenv("VERIF_RUN")
	if dir == "" {
		dir = os.TempDir()
	}
	bad := func(kind string, k int, n int64, err error, accepted int64, what string) {
		e := ""
		if err != nil {
			e = err.Error()
		}
		c.Violation("std-writer/"+kind+"/"+what, c19case{Module: mi, Mode: kind, Limit: k, N: n, Err: e, Accept: accepted, What: what})
	}
	count := func() { c.DistinctN(1); c.Valid(1) }
	// in-memory writers.
	{
		var b bytes.Buffer
		n, err := m.WriteTo(&b)
		if err != nil || n != int64(len(s)) || b.String() != s {
			bad("bytes.Buffer", -1, n, err, int64(b.Len()), "count, error or content wrong")
		}
		var sb strings.Builder
		n, err = m.WriteTo(&sb)
		if err != nil || n != int64(len(s)) || sb.String() != s {
			bad("strings.Builder", -1, n, err, int64(sb.Len()), "count, error or content wrong")
		}
		count()
		count()
	}
	// pipe: the reader takes k bytes and closes with an error.
	for _, k := range []int{0, 1, 2, len(s) / 3, len(s) / 2, len(s) - 1, len(s)} {
		if k < 0 || k > len(s) {
			continue
		}
		pr, pw := io.Pipe()
		sentinel := fmt.Errorf("reader gave up after %d bytes", k)
		got := make(chan []byte, 1)
		go func() {
			buf := make([]byte, k)
			nr, _ := io.ReadFull(pr, buf)
			if k < len(s) {
				pr.CloseWithError(sentinel)
			} else {
				rest, _ := io.ReadAll(pr)
				buf = append(buf[:nr], rest...)
				nr = len(buf)
			}
			got <- buf[:nr]
		}()
		n, err := m.WriteTo(pw)
		pw.Close()
		recv := <-got
		count()
		if n != int64(len(recv)) {
			bad("io.Pipe", k, n, err, int64(len(recv)), "count differs from the bytes the reader received")
		}
		if string(recv) != s[:len(recv)] {
			bad("io.Pipe", k, n, err, int64(len(recv)), "bytes received are not a prefix of String()")
		}
		if k < len(s) && err != sentinel {
			bad("io.Pipe", k, n, err, int64(len(recv)), "error is not the writer's error")
		}
		if k == len(s) && err != nil {
			bad("io.Pipe", k, n, err, int64(len(recv)), "error without a failure")
		}
	}
	// real files.
	path := filepath.Join(dir, fmt.Sprintf("c19.%d.ll", mi))
	defer os.Remove(path)
	size := func() int64 {
		st, err := os.Stat(path)
		if err != nil {
			return -1
		}
		return st.Size()
	}
	content := func() string { b, _ := os.ReadFile(path); return string(b) }
	{
		f, err := os.Create(path)
		if err != nil {
			fw.Fatalf("C19: cannot create scratch file: %v", err)
		}
		n, werr := m.WriteTo(f)
		f.Close()
		count()
		if werr != nil || n != int64(len(s)) || content() != s {
			bad("os.File", -1, n, werr, size(), "count, error or content wrong for a file that never fails")
		}
		os.Truncate(path, 0)
		ro, _ := os.Open(path) // read-only descriptor: every write fails, nothing is accepted
		n, werr = m.WriteTo(ro)
		ro.Close()
		count()
		if (werr == nil && len(s) > 0) || n != 0 || size() != 0 {
			bad("os.File-read-only", 0, n, werr, size(), "a file that accepts nothing: count must be 0 and the error reported")
		}
		cl, _ := os.Create(path)
		cl.Close()
		n, werr = m.WriteTo(cl)
		count()
		if (werr == nil && len(s) > 0) || n != 0 {
			bad("os.File-closed", 0, n, werr, 0, "a closed file: count must be 0 and the error reported")
		}
		if full, err := os.OpenFile("/dev/full", os.O_WRONLY, 0); err == nil {
			n, werr = m.WriteTo(full)
			full.Close()
			count()
			if (werr == nil && len(s) > 0) || n != 0 {
				bad("os.File-/dev/full", 0, n, werr, 0, "/dev/full accepts nothing: count must be 0 and the error reported")
			}
		}
	}
	// a regular file limited to exactly k bytes, every k.
	signal.Ignore(syscall.SIGXFSZ)
	var old syscall.Rlimit
	if err := syscall.Getrlimit(syscall.RLIMIT_FSIZE, &old); err != nil {
		c.Extra["file_size_limit_writer"] = "unavailable: " + err.Error()
		return
	}
	step := 1
	if c.Quick() {
		step = 3
	}
	for k := 0; k <= len(s); k += step {
		f, err := os.Create(path)
		if err != nil {
			fw.Fatalf("C19: cannot create scratch file: %v", err)
		}
		lim := syscall.Rlimit{Cur: uint64(k), Max: old.Max}
		if err := syscall.Setrlimit(syscall.RLIMIT_FSIZE, &lim); err != nil {
			f.Close()
			c.Extra["file_size_limit_writer"] = "unavailable: " + err.Error()
			return
		}
		n, werr := m.WriteTo(f)
		syscall.Setrlimit(syscall.RLIMIT_FSIZE, &old)
		f.Close()
		count()
		acc := size()
		want := int64(k)
		if want > int64(len(s)) {
			want = int64(len(s))
		}
		switch {
		case acc > want:
			// the kernel did not enforce the limit: machinery, not a violation.
			fw.Fatalf("C19: file limited to %d bytes holds %d", k, acc)
		case acc < want:
			bad("os.File-size-limit", k, n, werr, acc, "the file would have taken more: the bytes delivered are not the first k bytes of String()")
		case n != acc:
			bad("os.File-size-limit", k, n, werr, acc, "count differs from the bytes the file accepted")
		case content() != s[:acc]:
			bad("os.File-size-limit", k, n, werr, acc, "file content is not a prefix of String()")
		case k < len(s) && werr == nil:
			bad("os.File-size-limit", k, n, werr, acc, "the file's error is not reported")
		case k >= len(s) && werr != nil:
			bad("os.File-size-limit", k, n, werr, acc, "error without a failure")
		}
	}
	c.Extra["file_size_limit_writer"] = "RLIMIT_FSIZE, every offset"
}
