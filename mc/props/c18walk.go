package props

import (
	"fmt"
	"reflect"
	"sort"
	"strings"
	"sync"

	"github.com/llir/llvm/asm"
	"github.com/llir/llvm/ir"
	"github.com/llir/llvm/ir/enum"

	"verif/fw"
	"verif/gen"
)

// Generic carriers: EVERY struct field of the object graph of a parsed all-kinds module (the default
// variant of every catalogue production: all instruction, terminator, constant-expression and
// debug-info node kinds, globals, functions, aliases, ifuncs, call sites with attributes) whose type
// is an enum type, a slice of one, or an attribute list that admits one is a carrier of that enum.
// For each (struct type, field) the first occurrences in walk order are used: the value is written
// into the slot of a freshly parsed module, the module is printed and parsed again and the same
// slot is read back.

type c18slot struct {
	key string // "<struct type>.<field>"
	v   reflect.Value
	st  reflect.Value // the struct holding the field
}

var (
	c18ifaceParam  = reflect.TypeOf((*ir.ParamAttribute)(nil)).Elem()
	c18ifaceReturn = reflect.TypeOf((*ir.ReturnAttribute)(nil)).Elem()
	c18ifaceFunc   = reflect.TypeOf((*ir.FuncAttribute)(nil)).Elem()
)

func c18enumNameOf(t reflect.Type) string {
	if (strings.HasSuffix(t.PkgPath(), "/ir/enum")) && (t.Kind() >= reflect.Int && t.Kind() <= reflect.Uint64) {
		return t.Name()
	}
	return ""
}

// c18slotEnum says which enum type a field of type t carries ("" if none).
func c18slotEnum(t reflect.Type) string {
	if n := c18enumNameOf(t); n != "" {
		return n
	}
	if t.Kind() == reflect.Slice {
		if n := c18enumNameOf(t.Elem()); n != "" {
			return n
		}
		switch t.Elem() {
		case c18ifaceParam:
			return "ParamAttr"
		case c18ifaceReturn:
			return "ReturnAttr"
		case c18ifaceFunc:
			return "FuncAttr"
		}
	}
	return ""
}

// c18walk collects the slots of m in a deterministic order.
func c18walk(m *ir.Module) map[string][]c18slot {
	out := map[string][]c18slot{}
	seen := map[uintptr]bool{}
	var visit func(v reflect.Value, depth int)
	visit = func(v reflect.Value, depth int) {
		if depth > 60 {
			return
		}
		switch v.Kind() {
		case reflect.Interface:
			if !v.IsNil() {
				visit(v.Elem(), depth+1)
			}
		case reflect.Ptr:
			if v.IsNil() {
				return
			}
			t := v.Type().Elem()
			if t.Kind() != reflect.Struct {
				return
			}
			pp := t.PkgPath()
			if !(strings.HasSuffix(pp, "/llvm/ir") || strings.HasSuffix(pp, "/ir/constant") || strings.HasSuffix(pp, "/ir/metadata")) {
				return // types are shared singletons; foreign packages are not ours
			}
			if seen[v.Pointer()] {
				return
			}
			seen[v.Pointer()] = true
			visit(v.Elem(), depth+1)
		case reflect.Struct:
			t := v.Type()
			pp := t.PkgPath()
			if !(strings.HasSuffix(pp, "/llvm/ir") || strings.HasSuffix(pp, "/ir/constant") || strings.HasSuffix(pp, "/ir/metadata")) {
				return
			}
			for i := 0; i < v.NumField(); i++ {
				sf := t.Field(i)
				if sf.PkgPath != "" { // unexported
					continue
				}
				f := v.Field(i)
				if en := c18slotEnum(sf.Type); en != "" && f.CanSet() {
					out[en] = append(out[en], c18slot{key: t.Name() + "." + sf.Name, v: f, st: v})
					continue
				}
				if sf.Name == "Parent" || sf.Name == "Typ" || sf.Name == "Sig" {
					continue
				}
				visit(f, depth+1)
			}
		case reflect.Slice:
			for i := 0; i < v.Len(); i++ {
				visit(v.Index(i), depth+1)
			}
		case reflect.Map:
			keys := v.MapKeys()
			sort.Slice(keys, func(i, j int) bool { return fmt.Sprint(keys[i]) < fmt.Sprint(keys[j]) })
			for _, k := range keys {
				visit(v.MapIndex(k), depth+1)
			}
		}
	}
	visit(reflect.ValueOf(m), 0)
	return out
}

// c18pick returns, per key, the first n slots of the given enum.
func c18pick(slots []c18slot, n int) map[string][]c18slot {
	out := map[string][]c18slot{}
	for _, s := range slots {
		if len(out[s.key]) < n {
			out[s.key] = append(out[s.key], s)
		}
	}
	return out
}

func c18enumValue(enumName string, v uint64) (reflect.Value, bool) {
	switch enumName {
	case "ParamAttr":
		return reflect.ValueOf(enum.ParamAttr(v)), true
	case "ReturnAttr":
		return reflect.ValueOf(enum.ReturnAttr(v)), true
	case "FuncAttr":
		return reflect.ValueOf(enum.FuncAttr(v)), true
	}
	return reflect.Value{}, false
}

func c18slotSet(s c18slot, enumName string, v uint64) {
	f := s.v
	switch {
	case f.Kind() == reflect.Slice && f.Type().Elem().Kind() == reflect.Interface:
		ev, _ := c18enumValue(enumName, v)
		ns := reflect.MakeSlice(f.Type(), 0, 1)
		f.Set(reflect.Append(ns, ev))
	case f.Kind() == reflect.Slice:
		e := reflect.New(f.Type().Elem()).Elem()
		if e.Kind() >= reflect.Int && e.Kind() <= reflect.Int64 {
			e.SetInt(int64(v))
		} else {
			e.SetUint(v)
		}
		f.Set(reflect.Append(reflect.MakeSlice(f.Type(), 0, 1), e))
	case f.Kind() >= reflect.Int && f.Kind() <= reflect.Int64:
		f.SetInt(int64(v))
	default:
		f.SetUint(v)
	}
	// an ordering is only printed on atomic loads/stores.
	if a := s.st.FieldByName("Atomic"); a.IsValid() && a.Kind() == reflect.Bool && a.CanSet() {
		a.SetBool(true)
	}
}

func c18slotGet(s c18slot, enumName string) (uint64, bool) {
	f := s.v
	num := func(x reflect.Value) (uint64, bool) {
		switch {
		case x.Kind() >= reflect.Int && x.Kind() <= reflect.Int64:
			return uint64(x.Int()), true
		case x.Kind() >= reflect.Uint && x.Kind() <= reflect.Uint64:
			return x.Uint(), true
		}
		return 0, false
	}
	if f.Kind() == reflect.Slice {
		if f.Len() != 1 {
			return 0, false
		}
		e := f.Index(0)
		if e.Kind() == reflect.Interface {
			e = e.Elem()
			if u, ok := e.Interface().(ir.UnwindTable); ok && u.Kind == enum.UnwindTableKindNone {
				return uint64(enum.FuncAttrUwtable), true
			}
			if c18enumNameOf(e.Type()) != enumName {
				return 0, false
			}
		}
		return num(e)
	}
	return num(f)
}

var (
	c18baseOnce sync.Once
	c18baseText string
)

// c18base is the print fixpoint of a module holding every <=1-deviation variant of every catalogue
// production that survives print+parse on its own (so that optional constructs -- argument
// attributes, ifuncs, comparison expressions, ... -- are present as carriers).
func c18base() string {
	c18baseOnce.Do(func() {
		var vs []gen.Variant
		have := map[string]int{}
		for i, e := range gen.Catalogue() {
			for _, v := range gen.Variants(e, i, 1) {
				if v.Solo {
					continue
				}
				m, errs, pan := parseTry(gen.Module([]gen.Variant{v}))
				if errs != "" || pan != "" {
					continue
				}
				ok := false
				fw.Try(func() {
					_, err := asm.ParseString("v.ll", m.String())
					ok = err == nil
				})
				if !ok {
					continue
				}
				// keep the variant only if it brings a carrier not yet present twice.
				useful := false
				for en, ss := range c18walk(m) {
					for _, sl := range ss {
						k := en + "@" + sl.key
						if have[k] < 2 {
							have[k]++
							useful = true
						}
					}
				}
				if useful {
					vs = append(vs, v)
				}
			}
		}
		// variants that cannot share a module with the others are dropped (halving).
		var build func(vs []gen.Variant) []gen.Variant
		build = func(vs []gen.Variant) []gen.Variant {
			if len(vs) == 0 {
				return nil
			}
			if m, errs, pan := parseTry(gen.Module(vs)); errs == "" && pan == "" {
				good := false
				fw.Try(func() {
					_, err := asm.ParseString("v.ll", m.String())
					good = err == nil
				})
				if good {
					return vs
				}
			}
			if len(vs) == 1 {
				return nil
			}
			h := len(vs) / 2
			return append(build(vs[:h]), build(vs[h:])...)
		}
		// halves that work alone may still clash when joined (module-level directives): fold
		// them in one by one.
		parts := build(vs)
		m, errs, pan := parseTry(gen.Module(parts))
		if errs != "" || pan != "" {
			var acc []gen.Variant
			for _, v := range parts {
				if _, e2, p2 := parseTry(gen.Module(append(append([]gen.Variant(nil), acc...), v))); e2 == "" && p2 == "" {
					acc = append(acc, v)
				}
			}
			parts = acc
			m, errs, pan = parseTry(gen.Module(parts))
			if errs != "" || pan != "" {
				fw.Fatalf("C18 base module does not parse: %s %s", errs, pan)
			}
		}
		c18baseVariants = len(parts)
		c18baseText = m.String()
		if _, err := asm.ParseString("c18base.ll", c18baseText); err != nil {
			fw.Fatalf("C18 all-kinds base module does not re-parse: %v", err)
		}
	})
	return c18baseText
}

var c18baseVariants int

type c18job struct {
	et    EnumType
	name  string
	v     uint64
	key   string
	occ   int
	total int
}

// c18walkJobs lists, for value v of et, one job per (carrier key, occurrence).
func c18walkJobs(et EnumType, name string, v uint64, slotsOf map[string]map[string][]c18slot) []c18job {
	var out []c18job
	keys := slotsOf[et.Name]
	var ks []string
	for k := range keys {
		ks = append(ks, k)
	}
	sort.Strings(ks)
	for _, k := range ks {
		for occ := range keys[k] {
			out = append(out, c18job{et, name, v, k, occ, len(keys[k])})
		}
	}
	return out
}

func c18runWalkJob(c *fw.Check, j c18job) {
	var text string
	var got uint64
	var found bool
	var perr error
	p := fw.Try(func() {
		m, err := asm.ParseString("c18base.ll", c18base())
		if err != nil {
			panic(err)
		}
		s := c18pick(c18walk(m)[j.et.Name], 2)[j.key][j.occ]
		c18slotSet(s, j.et.Name, j.v)
		text = m.String()
		m2, err := asm.ParseString("c18.ll", text)
		if err != nil {
			perr = err
			return
		}
		ss := c18pick(c18walk(m2)[j.et.Name], 2)[j.key]
		if j.occ < len(ss) {
			got, found = c18slotGet(ss[j.occ], j.et.Name)
		}
	})
	where := fmt.Sprintf("%s#%d", j.key, j.occ)
	c.Case("walk|"+j.et.Name+"|"+where+"|"+fmt.Sprint(j.v), fmt.Sprint(got, found))
	cs := c18case{Type: j.et.Name + "@" + where, Const: j.name, Value: j.v}
	bad := ""
	switch {
	case p != "":
		bad, cs.What = "panic", p
	case perr != nil:
		bad, cs.What = "reparse-error", fw.Trunc(perr.Error(), 300)
	case !found:
		bad, cs.What = "lost", "value not found in the same slot of the re-parsed module"
	case got != j.v:
		bad, cs.What, cs.Got = "changed", "value changed through print+parse", fmt.Sprint(got)
	}
	if bad == "" {
		c.Valid(1)
		return
	}
	// a value LLVM does not admit at this position is outside the property.
	if text != "" && fw.HaveLLVM() {
		if okL, _ := fw.LLVMAccepts(text); !okL {
			c.Invalid++
			return
		}
	}
	// keep the offending lines only.
	cs.Text = fw.Trunc(c18diffLines(c18base(), text), 600)
	c.Violation("carrier/"+j.et.Name+"@"+j.key+"/"+bad+"/"+j.name, cs)
}

// c18diffLines returns the lines of b that are not in a.
func c18diffLines(a, b string) string {
	in := map[string]bool{}
	for _, l := range strings.Split(a, "\n") {
		in[l] = true
	}
	var out []string
	for _, l := range strings.Split(b, "\n") {
		if !in[l] {
			out = append(out, l)
		}
	}
	return strings.Join(out, "\n")
}

// c18slotTable walks one parse of the base module: enum name -> key -> first two slots.
func c18slotTable() map[string]map[string][]c18slot {
	m, err := asm.ParseString("c18base.ll", c18base())
	if err != nil {
		fw.Fatalf("C18 base: %v", err)
	}
	out := map[string]map[string][]c18slot{}
	for en, ss := range c18walk(m) {
		out[en] = c18pick(ss, 2)
	}
	return out
}

// ---- pairs of enum slots of one struct -----------------------------------------------------------

type c18pairJob struct {
	etA, etB     EnumType
	keyA, keyB   string
	nameA, nameB string
	va, vb       uint64
}

func c18structID(s c18slot) uintptr {
	if s.st.CanAddr() {
		return s.st.Addr().Pointer()
	}
	return 0
}

// c18findPair returns the first slot of keyA (in walk order) whose struct also holds a slot keyB.
func c18findPair(all map[string][]c18slot, enA, keyA, enB, keyB string) (a, b c18slot, ok bool) {
	for _, sa := range all[enA] {
		if sa.key != keyA {
			continue
		}
		id := c18structID(sa)
		for _, sb := range all[enB] {
			if sb.key == keyB && c18structID(sb) == id && id != 0 {
				return sa, sb, true
			}
		}
	}
	return
}

// c18walkPairJobs: for every struct of the base module that carries two enum slots (a call with
// tail kind and calling convention, a cmpxchg with two orderings, a DISubprogram with flags,
// spFlags and virtuality, ...) every pair of defined non-zero values.
func c18walkPairJobs(maxVals int) []c18pairJob {
	m, err := asm.ParseString("c18base.ll", c18base())
	if err != nil {
		fw.Fatalf("C18 base: %v", err)
	}
	all := c18walk(m)
	byName := map[string]EnumType{}
	vals := map[string][]EnumConst{}
	for _, et := range EnumTable {
		byName[et.Name] = et
		seen := map[uint64]bool{}
		for _, k := range et.Consts {
			if k.Value == 0 || seen[k.Value] {
				continue
			}
			if c18flagTypes[et.Name] && k.Value&(k.Value-1) != 0 {
				continue // single members only
			}
			seen[k.Value] = true
			vals[et.Name] = append(vals[et.Name], k)
		}
	}
	if maxVals > 0 {
		// quick tier: at most maxVals evenly spaced values per enum.
		for en, vs := range vals {
			if len(vs) > maxVals {
				var pick []EnumConst
				for i := 0; i < maxVals; i++ {
					pick = append(pick, vs[i*(len(vs)-1)/(maxVals-1)])
				}
				vals[en] = pick
			}
		}
	}
	type kk struct{ en, key string }
	var keys []kk
	seenKey := map[kk]bool{}
	var ens []string
	for en := range all {
		ens = append(ens, en)
	}
	sort.Strings(ens)
	for _, en := range ens {
		for _, s := range all[en] {
			k := kk{en, s.key}
			if !seenKey[k] {
				seenKey[k] = true
				keys = append(keys, k)
			}
		}
	}
	var jobs []c18pairJob
	for i := 0; i < len(keys); i++ {
		for j := i + 1; j < len(keys); j++ {
			a, b := keys[i], keys[j]
			if strings.SplitN(a.key, ".", 2)[0] != strings.SplitN(b.key, ".", 2)[0] {
				continue // different struct types
			}
			if _, _, ok := c18findPair(all, a.en, a.key, b.en, b.key); !ok {
				continue
			}
			for _, va := range vals[a.en] {
				for _, vb := range vals[b.en] {
					jobs = append(jobs, c18pairJob{byName[a.en], byName[b.en], a.key, b.key, va.Name, vb.Name, va.Value, vb.Value})
				}
			}
		}
	}
	return jobs
}

func c18runWalkPairJob(c *fw.Check, j c18pairJob) {
	var text string
	var ga, gb uint64
	var oka, okb bool
	var perr error
	p := fw.Try(func() {
		m, err := asm.ParseString("c18base.ll", c18base())
		if err != nil {
			panic(err)
		}
		sa, sb, ok := c18findPair(c18walk(m), j.etA.Name, j.keyA, j.etB.Name, j.keyB)
		if !ok {
			panic("pair of slots not found")
		}
		c18slotSet(sa, j.etA.Name, j.va)
		c18slotSet(sb, j.etB.Name, j.vb)
		text = m.String()
		m2, err := asm.ParseString("c18.ll", text)
		if err != nil {
			perr = err
			return
		}
		ra, rb, ok2 := c18findPair(c18walk(m2), j.etA.Name, j.keyA, j.etB.Name, j.keyB)
		if ok2 {
			ga, oka = c18slotGet(ra, j.etA.Name)
			gb, okb = c18slotGet(rb, j.etB.Name)
		}
	})
	c.Case(fmt.Sprintf("walkpair|%s=%d|%s=%d", j.keyA, j.va, j.keyB, j.vb), fmt.Sprint(ga, gb, oka, okb))
	bad, what := "", ""
	switch {
	case p != "":
		bad, what = "panic", p
	case perr != nil:
		bad, what = "reparse-error", fw.Trunc(perr.Error(), 300)
	case !oka || !okb:
		bad, what = "lost", "one of the two values is not found in the same struct of the re-parsed module"
	case ga != j.va:
		bad, what = "changed/"+j.nameA+"-with-"+j.nameB, fmt.Sprintf("%s came back as %d", j.keyA, ga)
	case gb != j.vb:
		bad, what = "changed/"+j.nameB+"-with-"+j.nameA, fmt.Sprintf("%s came back as %d", j.keyB, gb)
	}
	if bad == "" {
		c.Valid(1)
		return
	}
	if text != "" && fw.HaveLLVM() {
		if okL, _ := fw.LLVMAccepts(text); !okL {
			c.Invalid++
			return
		}
	}
	c.Violation("pair/"+j.keyA+"+"+j.keyB+"/"+bad, c18case{Type: j.etA.Name + "+" + j.etB.Name, Const: j.nameA + "+" + j.nameB, Value: j.va, Text: fw.Trunc(c18diffLines(c18base(), text), 600), What: what})
}
