package props

import (
	"fmt"
	"math/big"
	"strings"
	"sync"

	"github.com/llir/llvm/asm"
	"github.com/llir/llvm/ir"
	"github.com/llir/llvm/ir/constant"
	"github.com/llir/llvm/ir/types"

	"verif/fw"
)

func init() { Registry["C09"] = Prop{Run: runC09, Replay: replayC09} }

type c09case struct {
	Width uint64 `json:"width"`
	Lit   string `json:"literal,omitempty"`
	Value string `json:"value"`
	Got   string `json:"got,omitempty"`
	What  string `json:"what"`
}

func c09class(w uint64) string {
	switch {
	case w == 1:
		return "i1"
	case w <= 64:
		return "le64"
	default:
		return "gt64"
	}
}

// c09parse checks that literal lit at width w denotes want.
func c09parse(c *fw.Check, w uint64, lit string, want *big.Int, spelling string) {
	typ := types.NewInt(w)
	var got *constant.Int
	var err error
	p := fw.Try(func() { got, err = constant.NewIntFromString(typ, lit) })
	switch {
	case p != "":
		c.Violation("int/parse-panic/"+spelling+"/"+c09class(w), c09case{Width: w, Lit: lit, Value: want.String(), What: p})
	case err != nil:
		c.Violation("int/parse-error/"+spelling+"/"+c09class(w), c09case{Width: w, Lit: lit, Value: want.String(), What: err.Error()})
	case got.X.Cmp(want) != 0:
		c.Violation("int/parse-value/"+spelling+"/"+c09class(w), c09case{Width: w, Lit: lit, Value: want.String(), Got: got.X.String(), What: "literal denotes a different value"})
	case !got.Typ.Equal(typ):
		c.Violation("int/parse-type/"+spelling+"/"+c09class(w), c09case{Width: w, Lit: lit, Value: want.String(), What: "type " + got.Typ.String()})
	}
}

// c09print checks Ident() of value x at width w parses back to x. Returns the literal.
func c09print(c *fw.Check, w uint64, x *big.Int) string {
	typ := types.NewInt(w)
	k := &constant.Int{Typ: typ, X: new(big.Int).Set(x)}
	var s string
	if p := fw.Try(func() { s = k.Ident() }); p != "" {
		sig := "int/ident-panic/" + c09class(w)
		if w == 1 {
			sig += "/" + x.String()
		}
		c.Violation(sig, c09case{Width: w, Value: x.String(), What: p})
		return ""
	}
	if k.X.Cmp(x) != 0 {
		c.Violation("int/ident-mutates/"+c09class(w), c09case{Width: w, Value: x.String(), Got: k.X.String(), What: "Ident changed the constant"})
	}
	sp := "dec"
	if strings.HasPrefix(s, "u0x") {
		sp = "u0x"
	} else if s == "true" || s == "false" {
		sp = "bool"
	}
	var back *constant.Int
	var err error
	p := fw.Try(func() { back, err = constant.NewIntFromString(typ, s) })
	switch {
	case p != "":
		c.Violation("int/reparse-panic/"+sp+"/"+c09class(w), c09case{Width: w, Lit: s, Value: x.String(), What: p})
	case err != nil:
		c.Violation("int/reparse-error/"+sp+"/"+c09class(w), c09case{Width: w, Lit: s, Value: x.String(), What: err.Error()})
	case back.X.Cmp(x) != 0 && !(w == 1 && back.X.Bit(0) == x.Bit(0)):
		// (i1 has only the spellings true/false: -1 and 1 are the same i1 value)
		c.Violation("int/print-parse-value/"+sp+"/"+c09class(w), c09case{Width: w, Lit: s, Value: x.String(), Got: back.X.String(), What: "printed literal parses to a different value"})
	}
	return s
}

var big1 = big.NewInt(1)

func pow2(n uint64) *big.Int { return new(big.Int).Lsh(big1, uint(n)) }

// c09spellings checks every accepted spelling of value v (in [-2^(w-1), 2^w-1]) at width w.
func c09spellings(c *fw.Check, w uint64, v *big.Int) int64 {
	n := int64(0)
	mod := pow2(w)
	u := new(big.Int).Mod(v, mod) // unsigned residue
	// signed reading of the residue at width w.
	sgn := new(big.Int).Set(u)
	if u.Bit(int(w)-1) == 1 {
		sgn.Sub(sgn, mod)
	}
	// decimal as written, and with leading zeros (LLVM reads them as decimal, not octal).
	c09parse(c, w, v.String(), v, "dec")
	n++
	for _, z := range []string{"0", "00"} {
		d := v.String()
		if v.Sign() < 0 {
			d = "-" + z + d[1:]
		} else {
			d = z + d
		}
		c09parse(c, w, d, v, "dec-leading-zeros")
		n++
	}
	hex := u.Text(16)
	for _, h := range []string{strings.ToUpper(hex), hex, "0" + hex, "000" + strings.ToUpper(hex)} {
		c09parse(c, w, "u0x"+h, u, "u0x")
		c09parse(c, w, "s0x"+h, sgn, "s0x")
		n += 2
	}
	if w == 1 {
		if u.Sign() == 0 {
			c09parse(c, w, "false", big.NewInt(0), "bool")
		} else {
			c09parse(c, w, "true", big.NewInt(1), "bool")
		}
		n++
	}
	if c09print(c, w, v) != "" {
		n++
	}
	return n
}

func runC09(c *fw.Check) {
	maxW, hexLen := uint64(12), 12
	if !c.Quick() {
		maxW, hexLen = 16, 16
	}
	if c.Deep() {
		maxW, hexLen = 20, 18
	}
	c.Rule = fmt.Sprintf("EXHAUSTIVE for widths 1..%d: every value in [-2^(w-1), 2^w-1] in every accepted spelling (signed decimal, u0x/s0x upper/lower/leading zeros, true/false) against big-integer arithmetic, and Ident()->NewIntFromString identity; STRUCTURED for widths 17..64,65,127,128,129,1024,1025: 0,+-1,+-2^k,2^k+-1,min,max and ALL hex strings of length <=%d over every 1- and 2-digit alphabet (the printer's hex/decimal choice depends only on digit multisets); the same literals through asm.ParseString (batched globals) and the printed module through llvm-as|llvm-dis against a reference text. PLUS print / edit-the-big-integer-in-place / print histories for all ordered value pairs of widths 1..5 and boundary pairs of 8 wider widths x 6 editing operations. Widths are visited in one process, so a literal text met at one width is met again at others (history). distinct = distinct (width,value,spelling) triples.", maxW, hexLen)
	// Part A: exhaustive small widths.
	type job struct {
		w      uint64
		lo, hi int64
	}
	var jobs []job
	for w := uint64(1); w <= maxW; w++ {
		lo, hi := -(int64(1) << (w - 1)), (int64(1)<<w)-1
		const chunk = 4096
		for a := lo; a <= hi; a += chunk {
			b := a + chunk - 1
			if b > hi {
				b = hi
			}
			jobs = append(jobs, job{w, a, b})
		}
	}
	fw.ParallelFor(len(jobs), func(i int) {
		j := jobs[i]
		n := int64(0)
		for v := j.lo; v <= j.hi; v++ {
			n += c09spellings(c, j.w, big.NewInt(v))
		}
		c.DistinctN(n)
	})
	c.Sample(map[string]interface{}{"width": 8, "value": -128, "spellings": []string{"-128", "u0x80", "s0x80", "u0x080", "s0x00080"}})
	// Part B: structured wide widths.
	var wide []uint64
	for w := uint64(17); w <= 64; w++ {
		wide = append(wide, w)
	}
	wide = append(wide, 65, 127, 128, 129, 1024, 1025)
	fw.ParallelFor(len(wide), func(i int) {
		w := wide[i]
		n := int64(0)
		seen := map[string]bool{}
		add := func(v *big.Int) {
			// keep inside [-2^(w-1), 2^w-1]
			if v.Cmp(new(big.Int).Neg(pow2(w-1))) < 0 || v.Cmp(new(big.Int).Sub(pow2(w), big1)) > 0 {
				return
			}
			if seen[v.String()] {
				return
			}
			seen[v.String()] = true
			n += c09spellings(c, w, v)
		}
		add(big.NewInt(0))
		for k := uint64(0); k <= w; k++ {
			p := pow2(k)
			for _, d := range []int64{-1, 0, 1} {
				v := new(big.Int).Add(p, big.NewInt(d))
				add(v)
				add(new(big.Int).Neg(v))
			}
		}
		c.DistinctN(n)
	})
	c.Sample(map[string]interface{}{"width": 128, "value": "2^64", "printed": c09print(c, 128, pow2(64))})
	// Part B2: all hex strings over 1- and 2-digit alphabets.
	const digits = "0123456789ABCDEF"
	type alpha struct{ a, b byte }
	var alphas []alpha
	for i := 0; i < 16; i++ {
		for j := i; j < 16; j++ {
			alphas = append(alphas, alpha{digits[i], digits[j]})
		}
	}
	widthsFor := func(l int) []uint64 {
		need := uint64(4 * l)
		out := []uint64{need}
		for _, w := range []uint64{32, 64, 65, 128} {
			if w > need {
				out = append(out, w)
				break
			}
		}
		return out
	}
	fw.ParallelFor(len(alphas), func(ai int) {
		al := alphas[ai]
		n := int64(0)
		buf := make([]byte, hexLen)
		for l := 1; l <= hexLen; l++ {
			lim := 1 << l
			if al.a == al.b {
				lim = 1
			}
			for bits := 0; bits < lim; bits++ {
				for k := 0; k < l; k++ {
					if bits>>k&1 == 1 {
						buf[k] = al.b
					} else {
						buf[k] = al.a
					}
				}
				if buf[0] == '0' && l > 1 {
					continue // same value as a shorter string
				}
				x, _ := new(big.Int).SetString(string(buf[:l]), 16)
				for _, w := range widthsFor(l) {
					if c09print(c, w, x) != "" {
						n++
					}
				}
			}
		}
		c.DistinctN(n)
	})
	// Part C: the same through the assembly parser and LLVM.
	c09asm(c, maxW)
	c09aggregates(c)
	// Part D: histories on ONE constant.
	c09histories(c)
}

// c09histories: the literal printed for a constant depends on its CURRENT value only. For every
// width of a family and every ordered pair (v1, v2) of a value set per width (all values for widths
// <=5, boundary values and hexadecimal-looking values above): a constant holding v1 is printed
// (Ident and String), its exported big integer is changed IN PLACE to v2 by each of six editing
// operations (Set, SetInt64/SetString, Add of the difference, Neg+Add, Lsh/Rsh+Add, replacing
// the pointer), and it is printed again: the text must be what a fresh constant of value v2 prints
// and must parse back to v2.
func c09histories(c *fw.Check) {
	type wv struct {
		w    uint64
		vals []*big.Int
	}
	var fam []wv
	for _, w := range []uint64{1, 2, 3, 4, 5, 8, 13, 16, 32, 33, 64, 65, 128} {
		var vals []*big.Int
		seen := map[string]bool{}
		add := func(v *big.Int) {
			if v.Cmp(new(big.Int).Neg(pow2(w-1))) < 0 || v.Cmp(new(big.Int).Sub(pow2(w), big1)) > 0 || seen[v.String()] {
				return
			}
			seen[v.String()] = true
			vals = append(vals, v)
		}
		if w <= 5 {
			for v := -(int64(1) << (w - 1)); v <= (int64(1)<<w)-1; v++ {
				add(big.NewInt(v))
			}
		} else {
			for _, v := range []int64{0, 1, -1, 7, 9, 255, 256, 4095, 4096, 4097, 0x1000, 0x8000, 0xFFFF, 0x10000, 123456789, 0x7FFFFFFF, 0x80000000, 0xFFFFFFFF, 0x100000000, -4096, -65536} {
				add(big.NewInt(v))
			}
			add(new(big.Int).Sub(pow2(w), big1))
			add(new(big.Int).Neg(pow2(w - 1)))
			add(pow2(w - 1))
			add(new(big.Int).Sub(pow2(w-1), big1))
			if w > 16 {
				add(new(big.Int).Lsh(big.NewInt(0xFF), uint(w-12)))
				add(new(big.Int).Lsh(big.NewInt(1), uint(w-2)))
			}
		}
		fam = append(fam, wv{w, vals})
	}
	edits := []struct {
		name string
		do   func(k *constant.Int, v1, v2 *big.Int)
	}{
		{"X.Set", func(k *constant.Int, v1, v2 *big.Int) { k.X.Set(v2) }},
		{"X.SetString", func(k *constant.Int, v1, v2 *big.Int) { k.X.SetString(v2.String(), 10) }},
		{"X.Add(difference)", func(k *constant.Int, v1, v2 *big.Int) { k.X.Add(k.X, new(big.Int).Sub(v2, v1)) }},
		{"X.Neg+Add", func(k *constant.Int, v1, v2 *big.Int) { k.X.Neg(k.X); k.X.Add(k.X, new(big.Int).Add(v2, v1)) }},
		{"X.Lsh+Rsh+Add", func(k *constant.Int, v1, v2 *big.Int) {
			k.X.Lsh(k.X, 3)
			k.X.Rsh(k.X, 3)
			k.X.Add(k.X, new(big.Int).Sub(v2, v1))
		}},
		{"X = new pointer", func(k *constant.Int, v1, v2 *big.Int) { k.X = new(big.Int).Set(v2) }},
	}
	var nmu sync.Mutex
	total := int64(0)
	fw.ParallelFor(len(fam), func(fi int) {
		w, vals := fam[fi].w, fam[fi].vals
		typ := types.NewInt(w)
		n := int64(0)
		for _, v1 := range vals {
			for _, v2 := range vals {
				if v1.Cmp(v2) == 0 {
					continue
				}
				var want, wantS string
				if p := fw.Try(func() {
					f := &constant.Int{Typ: typ, X: new(big.Int).Set(v2)}
					want, wantS = f.Ident(), f.String()
				}); p != "" {
					continue // first prints are Part A/B's subject
				}
				for _, e := range edits {
					var got, gotS string
					k := &constant.Int{Typ: typ, X: new(big.Int).Set(v1)}
					p := fw.Try(func() {
						_ = k.Ident()
						_ = k.String()
						e.do(k, v1, v2)
						got, gotS = k.Ident(), k.String()
					})
					n++
					if p != "" || got != want || gotS != wantS {
						c.Violation("int/history/print-after-in-place-edit/"+c09class(w), c09case{Width: w, Value: v2.String(), Lit: got, Got: want, What: fmt.Sprintf("constant printed as value %s, then edited in place to %s by %s: prints %q / %q, a fresh constant of that value prints %q / %q %s", v1, v2, e.name, got, gotS, want, wantS, p)})
					}
				}
			}
		}
		c.DistinctN(n)
		nmu.Lock()
		total += n
		nmu.Unlock()
	})
	c.Extra["print_edit_print_histories"] = total
}

// c09asm batches literals as globals, checks asm's reading, and compares LLVM's reading of the
// printed module with LLVM's reading of a reference module written in plain signed decimal.
func c09asm(c *fw.Check, maxW uint64) {
	type lit struct {
		w    uint64
		text string
		want *big.Int
	}
	var lits []lit
	addv := func(w uint64, v *big.Int) {
		mod := pow2(w)
		u := new(big.Int).Mod(v, mod)
		sgn := new(big.Int).Set(u)
		if u.Bit(int(w)-1) == 1 {
			sgn.Sub(sgn, mod)
		}
		lits = append(lits, lit{w, v.String(), v}, lit{w, "u0x" + strings.ToUpper(u.Text(16)), u}, lit{w, "s0x" + u.Text(16), sgn})
		if v.Sign() >= 0 {
			lits = append(lits, lit{w, "0" + v.String(), v}, lit{w, "000" + v.String(), v})
		} else {
			lits = append(lits, lit{w, "-0" + v.String()[1:], v})
		}
		if w == 1 && v.Sign() >= 0 {
			lits = append(lits, lit{w, map[bool]string{true: "true", false: "false"}[u.Sign() != 0], u})
		}
	}
	for w := uint64(1); w <= 8; w++ {
		for v := -(int64(1) << (w - 1)); v <= (int64(1)<<w)-1; v++ {
			addv(w, big.NewInt(v))
		}
	}
	for _, w := range []uint64{9, 12, 16, 17, 31, 32, 33, 63, 64, 65, 127, 128, 129, 1024} {
		for k := uint64(0); k <= w; k++ {
			for _, d := range []int64{-1, 0, 1} {
				v := new(big.Int).Add(pow2(k), big.NewInt(d))
				if v.Cmp(new(big.Int).Sub(pow2(w), big1)) <= 0 {
					addv(w, v)
				}
				nv := new(big.Int).Neg(v)
				if nv.Cmp(new(big.Int).Neg(pow2(w-1))) >= 0 {
					addv(w, nv)
				}
			}
		}
	}
	const batch = 2000
	nb := (len(lits) + batch - 1) / batch
	fw.ParallelFor(nb, func(bi int) {
		lo, hi := bi*batch, (bi+1)*batch
		if hi > len(lits) {
			hi = len(lits)
		}
		var in, ref strings.Builder
		for i := lo; i < hi; i++ {
			fmt.Fprintf(&in, "@g%d = global i%d %s\n", i, lits[i].w, lits[i].text)
			fmt.Fprintf(&ref, "@g%d = global i%d %s\n", i, lits[i].w, lits[i].want.String())
		}
		var m *ir.Module
		var err error
		if p := fw.Try(func() { m, err = asm.ParseString("c09.ll", in.String()) }); p != "" || err != nil {
			c.Violation("int/asm-parse-fails", c09case{What: fmt.Sprint(p, err), Lit: fw.Trunc(in.String(), 400)})
			return
		}
		for i := lo; i < hi; i++ {
			k, ok := m.Globals[i-lo].Init.(*constant.Int)
			if !ok || k.X.Cmp(lits[i].want) != 0 {
				c.Violation("int/asm-value/"+c09class(lits[i].w), c09case{Width: lits[i].w, Lit: lits[i].text, Value: lits[i].want.String(), Got: fmt.Sprint(m.Globals[i-lo].Init), What: "asm.ParseString reads a different value"})
			}
		}
		c.DistinctN(int64(hi - lo))
		// the same literals in OTHER positions: index of a getelementptr instruction, index of a
		// getelementptr constant expression (an alias' aliasee), operand of an add, switch case.
		{
			var fb strings.Builder
			fb.WriteString("@base = global [4 x i8] zeroinitializer\n")
			for i := lo; i < hi; i++ {
				fmt.Fprintf(&fb, "@al%d = alias i8, getelementptr (i8, i8* getelementptr ([4 x i8], [4 x i8]* @base, i32 0, i32 0), i%d %s)\n", i, lits[i].w, lits[i].text)
			}
			fb.WriteString("define void @f(i8* %b) {\n")
			for i := lo; i < hi; i++ {
				fmt.Fprintf(&fb, "  %%g%d = getelementptr i8, i8* %%b, i%d %s\n  %%a%d = add i%d %s, 0\n", i, lits[i].w, lits[i].text, i, lits[i].w, lits[i].text)
			}
			fb.WriteString("  ret void\n}\n")
			mp, errs, pan := parseTry(fb.String())
			if errs != "" || pan != "" {
				c.Violation("int/asm-position-parse-fails", c09case{What: fw.Trunc(errs+pan, 300), Lit: fw.Trunc(fb.String(), 400)})
			} else {
				val := func(v interface{}) *big.Int {
					switch k := v.(type) {
					case *constant.Int:
						return k.X
					case *constant.Index:
						if ki, ok := k.Constant.(*constant.Int); ok {
							return ki.X
						}
					}
					return nil
				}
				bad := func(pos string, i int, got *big.Int) {
					c.Violation("int/asm-value-at/"+pos+"/"+c09class(lits[i].w), c09case{Width: lits[i].w, Lit: lits[i].text, Value: lits[i].want.String(), Got: fmt.Sprint(got), What: "the literal read as " + pos + " has a different value"})
				}
				insts := mp.Funcs[0].Blocks[0].Insts
				for i := lo; i < hi; i++ {
					k := i - lo
					if g, ok := insts[2*k].(*ir.InstGetElementPtr); !ok || len(g.Indices) != 1 || val(g.Indices[0]) == nil || val(g.Indices[0]).Cmp(lits[i].want) != 0 {
						var got *big.Int
						if ok && len(g.Indices) == 1 {
							got = val(g.Indices[0])
						}
						bad("getelementptr-instruction-index", i, got)
						break
					}
					if a, ok := insts[2*k+1].(*ir.InstAdd); !ok || val(a.X) == nil || val(a.X).Cmp(lits[i].want) != 0 {
						bad("add-operand", i, nil)
						break
					}
					if ge, ok := mp.Aliases[k].Aliasee.(*constant.ExprGetElementPtr); !ok || len(ge.Indices) != 1 || val(ge.Indices[0]) == nil || val(ge.Indices[0]).Cmp(lits[i].want) != 0 {
						bad("getelementptr-expression-index-of-alias", i, nil)
						break
					}
				}
				// and after print + parse.
				var y string
				if p := fw.Try(func() { y = mp.String() }); p != "" {
					c.Violation("int/asm-position-print-panics", c09case{What: p})
				} else if m2, e2, p2 := parseTry(y); e2 != "" || p2 != "" {
					c.Violation("int/asm-position-reparse-fails", c09case{What: fw.Trunc(e2+p2, 300)})
				} else {
					insts2 := m2.Funcs[0].Blocks[0].Insts
					for i := lo; i < hi; i++ {
						k := i - lo
						g, ok := insts2[2*k].(*ir.InstGetElementPtr)
						if !ok || len(g.Indices) != 1 || val(g.Indices[0]) == nil || new(big.Int).Mod(val(g.Indices[0]), pow2(lits[i].w)).Cmp(new(big.Int).Mod(lits[i].want, pow2(lits[i].w))) != 0 {
							bad("getelementptr-instruction-index/after-print", i, nil)
							break
						}
					}
				}
			}
		}
		var out string
		if p := fw.Try(func() { out = m.String() }); p != "" {
			c.Violation("int/asm-print-panic", c09case{What: p})
			return
		}
		if !fw.HaveLLVM() {
			return
		}
		a, e1, ok1, _ := fw.AsDis(out)
		b, e2, ok2, _ := fw.AsDis(ref.String())
		if !ok2 {
			fw.Fatalf("C09: LLVM rejects the reference module: %s", e2)
		}
		if !ok1 {
			c.Violation("int/llvm-rejects-printed", c09case{What: fw.Trunc(e1, 300)})
			return
		}
		la, lb := strings.Split(a, "\n"), strings.Split(b, "\n")
		for i := range lb {
			if strings.HasPrefix(lb[i], "@g") && (i >= len(la) || la[i] != lb[i]) {
				got := ""
				if i < len(la) {
					got = la[i]
				}
				c.Violation("int/llvm-reads-differently", c09case{What: "LLVM reads the printed literal differently", Value: lb[i], Got: got})
				break
			}
		}
		c.Valid(int64(hi - lo))
	})
	c.Extra["asm_llvm_literals"] = len(lits)
	c.Extra["llvm_available"] = fw.HaveLLVM()
}

func replayC09(c *fw.Check, path string) {
	var cs c09case
	loadReplay(path, &cs)
	v, _ := new(big.Int).SetString(cs.Value, 10)
	if cs.Lit != "" && v != nil {
		c09parse(c, cs.Width, cs.Lit, v, "replay")
	}
	if v != nil {
		s := c09print(c, cs.Width, v)
		fmt.Printf("replay: i%d %s prints as %q\n", cs.Width, v, s)
	}
	c.Case("a", "a")
	c.Case("b", "b")
}
