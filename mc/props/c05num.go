package props

import (
	"fmt"
	"regexp"
	"strings"
	"sync"

	"verif/fw"
)

// Misnumbered locals. "Defines a local twice": with explicit numbers, writing on a parameter,
// label, instruction or VALUE-PRODUCING TERMINATOR (invoke, callbr) a number other than the next
// free one either repeats an earlier local or leaves a gap; LLVM rejects both ("expected to be
// numbered"). Every function shape of the C08 alphabet with <=2 parameters, <=2 blocks and <=1
// instruction per block (all instruction and terminator kinds) is written with explicit numbers,
// and every written number N (each definition site in turn) is replaced by every other number in
// 0..max+1: the parser must return an error and no module, and must not crash. A fault the
// library accepts counts only if llvm-as rejects it.

var (
	reC05numDef   = regexp.MustCompile(`(?m)^  %(\d+) = `)
	reC05numLabel = regexp.MustCompile(`(?m)^(\d+):`)
	reC05numParam = regexp.MustCompile(`i32 %(\d+)[,)]`)
)

func c05misnumbered(c *fw.Check) {
	instKinds := []int{kValU, kValN, kVoidC, kCallU, kCallN, kStore}
	termKinds := []int{tBr, tInvV, tInvU, tInvN, tCbrV, tCbrU}
	shapes := c08shapes(2, 1, 2, 1, instKinds, termKinds)
	var mu sync.Mutex
	nf := 0
	type vrec struct {
		sig string
		cs  c05case
	}
	var viols []vrec
	fw.ParallelFor(len(shapes), func(si int) {
		s := shapes[si]
		fn := c08text(s, "f", "explicit")
		// drop the table of block addresses: the function alone.
		if strings.HasPrefix(fn, "@ba.") {
			fn = fn[strings.Index(fn, "\n")+1:]
		}
		text := c08prelude + fn
		off := len(c08prelude)
		type site struct {
			kind       string
			start, end int // byte range of the digits
			n          int
		}
		var sites []site
		max := -1
		add := func(kind string, re *regexp.Regexp) {
			for _, m := range re.FindAllStringSubmatchIndex(text[off:], -1) {
				var n int
				fmt.Sscan(text[off+m[2]:off+m[3]], &n)
				sites = append(sites, site{kind, off + m[2], off + m[3], n})
				if n > max {
					max = n
				}
			}
		}
		add("instruction", reC05numDef)
		add("label", reC05numLabel)
		header := strings.Index(text[off:], "\n")
		for _, m := range reC05numParam.FindAllStringSubmatchIndex(text[off:off+header], -1) {
			var n int
			fmt.Sscan(text[off+m[2]:off+m[3]], &n)
			sites = append(sites, site{"parameter", off + m[2], off + m[3], n})
			if n > max {
				max = n
			}
		}
		cnt := 0
		for _, st := range sites {
			kind := st.kind
			if kind == "instruction" {
				line := text[st.start:]
				line = line[:strings.Index(line, "\n")]
				if strings.Contains(line, "invoke") || strings.Contains(line, "callbr") {
					kind = "value-terminator"
				}
			}
			for k := 0; k <= max+1; k++ {
				if k == st.n {
					continue
				}
				ft := text[:st.start] + fmt.Sprint(k) + text[st.end:]
				cnt++
				m, errs, pan := parseTry(ft)
				if m == nil && errs != "" && pan == "" {
					continue
				}
				if !fw.HaveLLVM() {
					continue
				}
				if ok, _ := fw.LLVMAccepts(ft); ok {
					continue // (not a fault for LLVM: e.g. a number that was free after all)
				}
				what := "accepted"
				if pan != "" {
					what = "panic"
				} else if errs != "" {
					what = "module-and-error"
				}
				rel := "gap"
				if k < st.n {
					rel = "repeats-earlier-number"
				}
				if k == 0 {
					rel = "written-as-0" // (the IR cannot tell ID 0 from "no ID yet")
				}
				mu.Lock()
				viols = append(viols, vrec{fmt.Sprintf("%s-misnumbered/%s/%s", what, kind, rel), c05case{Entry: "numbering shape " + s.String(), Fault: "misnumbered", Site: kind, Token: fmt.Sprintf("%%%d written as %%%d", st.n, k), Text: ft, What: what + ": LLVM rejects the numbering", Detail: fw.Trunc(errs+pan, 600)}})
				mu.Unlock()
			}
		}
		mu.Lock()
		nf += cnt
		mu.Unlock()
		c.DistinctN(int64(cnt))
		c.Valid(int64(cnt))
	})
	for _, v := range viols {
		c.Violation(v.sig, v.cs)
	}
	c.Extra["misnumbering_faults"] = nf
	c.Extra["misnumbering_function_shapes"] = len(shapes)
}
