package props

import (
	"fmt"
	"reflect"
	"strings"
	"sync"

	"github.com/llir/llvm/ir"
	"github.com/llir/llvm/ir/constant"
	"github.com/llir/llvm/ir/types"
	"github.com/llir/llvm/ir/value"

	"verif/fw"
	"verif/gen"
)

func init() { Registry["C06"] = Prop{Run: runC06, Replay: replayC06} }

// c06rebuild constructs, through the IR library's own constructor, the same instruction from the
// operands of a parsed one, so that the type the IR computes by itself can be compared with the
// type the parser attached.
func c06rebuild(x interface{}) (v value.Value, ok bool) {
	vals := func(vs []value.Value) []value.Value { return vs }
	switch i := x.(type) {
	case *ir.InstFNeg:
		return ir.NewFNeg(i.X), true
	case *ir.InstAdd:
		return ir.NewAdd(i.X, i.Y), true
	case *ir.InstFAdd:
		return ir.NewFAdd(i.X, i.Y), true
	case *ir.InstSub:
		return ir.NewSub(i.X, i.Y), true
	case *ir.InstFSub:
		return ir.NewFSub(i.X, i.Y), true
	case *ir.InstMul:
		return ir.NewMul(i.X, i.Y), true
	case *ir.InstFMul:
		return ir.NewFMul(i.X, i.Y), true
	case *ir.InstUDiv:
		return ir.NewUDiv(i.X, i.Y), true
	case *ir.InstSDiv:
		return ir.NewSDiv(i.X, i.Y), true
	case *ir.InstFDiv:
		return ir.NewFDiv(i.X, i.Y), true
	case *ir.InstURem:
		return ir.NewURem(i.X, i.Y), true
	case *ir.InstSRem:
		return ir.NewSRem(i.X, i.Y), true
	case *ir.InstFRem:
		return ir.NewFRem(i.X, i.Y), true
	case *ir.InstShl:
		return ir.NewShl(i.X, i.Y), true
	case *ir.InstLShr:
		return ir.NewLShr(i.X, i.Y), true
	case *ir.InstAShr:
		return ir.NewAShr(i.X, i.Y), true
	case *ir.InstAnd:
		return ir.NewAnd(i.X, i.Y), true
	case *ir.InstOr:
		return ir.NewOr(i.X, i.Y), true
	case *ir.InstXor:
		return ir.NewXor(i.X, i.Y), true
	case *ir.InstExtractElement:
		return ir.NewExtractElement(i.X, i.Index), true
	case *ir.InstInsertElement:
		return ir.NewInsertElement(i.X, i.Elem, i.Index), true
	case *ir.InstShuffleVector:
		return ir.NewShuffleVector(i.X, i.Y, i.Mask), true
	case *ir.InstExtractValue:
		return ir.NewExtractValue(i.X, i.Indices...), true
	case *ir.InstInsertValue:
		return ir.NewInsertValue(i.X, i.Elem, i.Indices...), true
	case *ir.InstAlloca:
		a := ir.NewAlloca(i.ElemType)
		a.AddrSpace = i.AddrSpace
		return a, true
	case *ir.InstLoad:
		return ir.NewLoad(i.ElemType, i.Src), true
	case *ir.InstCmpXchg:
		return ir.NewCmpXchg(i.Ptr, i.Cmp, i.New, i.SuccessOrdering, i.FailureOrdering), true
	case *ir.InstAtomicRMW:
		return ir.NewAtomicRMW(i.Op, i.Dst, i.X, i.Ordering), true
	case *ir.InstGetElementPtr:
		return ir.NewGetElementPtr(i.ElemType, i.Src, vals(i.Indices)...), true
	case *ir.InstTrunc:
		return ir.NewTrunc(i.From, i.To), true
	case *ir.InstZExt:
		return ir.NewZExt(i.From, i.To), true
	case *ir.InstSExt:
		return ir.NewSExt(i.From, i.To), true
	case *ir.InstFPTrunc:
		return ir.NewFPTrunc(i.From, i.To), true
	case *ir.InstFPExt:
		return ir.NewFPExt(i.From, i.To), true
	case *ir.InstFPToUI:
		return ir.NewFPToUI(i.From, i.To), true
	case *ir.InstFPToSI:
		return ir.NewFPToSI(i.From, i.To), true
	case *ir.InstUIToFP:
		return ir.NewUIToFP(i.From, i.To), true
	case *ir.InstSIToFP:
		return ir.NewSIToFP(i.From, i.To), true
	case *ir.InstPtrToInt:
		return ir.NewPtrToInt(i.From, i.To), true
	case *ir.InstIntToPtr:
		return ir.NewIntToPtr(i.From, i.To), true
	case *ir.InstBitCast:
		return ir.NewBitCast(i.From, i.To), true
	case *ir.InstAddrSpaceCast:
		return ir.NewAddrSpaceCast(i.From, i.To), true
	case *ir.InstICmp:
		return ir.NewICmp(i.Pred, i.X, i.Y), true
	case *ir.InstFCmp:
		return ir.NewFCmp(i.Pred, i.X, i.Y), true
	case *ir.InstPhi:
		return ir.NewPhi(i.Incs...), true
	case *ir.InstSelect:
		return ir.NewSelect(i.Cond, i.ValueTrue, i.ValueFalse), true
	case *ir.InstFreeze:
		return ir.NewInstFreeze(i.X), true
	case *ir.InstCall:
		return ir.NewCall(i.Callee, i.Args...), true
	case *ir.InstVAArg:
		return ir.NewVAArg(i.ArgList, i.ArgType), true
	case *ir.InstLandingPad:
		return ir.NewLandingPad(i.ResultType, i.Clauses...), true
	case *ir.InstCatchPad:
		if cs, ok := i.CatchSwitch.(*ir.TermCatchSwitch); ok {
			return ir.NewCatchPad(cs, i.Args...), true
		}
	case *ir.InstCleanupPad:
		if p, ok := i.ParentPad.(ir.ExceptionPad); ok {
			return ir.NewCleanupPad(p, i.Args...), true
		}
	case *ir.TermInvoke:
		n, e := i.NormalRetTarget.(*ir.Block), i.ExceptionRetTarget.(*ir.Block)
		return ir.NewInvoke(i.Invokee, i.Args, n, e), true
	case *ir.TermCallBr:
		n := i.NormalRetTarget.(*ir.Block)
		var o []*ir.Block
		for _, t := range i.OtherRetTargets {
			o = append(o, t.(*ir.Block))
		}
		return ir.NewCallBr(i.Callee, i.Args, n, o...), true
	case *ir.TermCatchSwitch:
		var hs []*ir.Block
		for _, h := range i.Handlers {
			hs = append(hs, h.(*ir.Block))
		}
		var d *ir.Block
		if i.DefaultUnwindTarget != nil {
			d, _ = i.DefaultUnwindTarget.(*ir.Block)
		}
		if p, ok := i.ParentPad.(ir.ExceptionPad); ok {
			return ir.NewCatchSwitch(p, hs, d), true
		}
	// constant expressions.
	case *constant.ExprAdd:
		return constant.NewAdd(i.X, i.Y), true
	case *constant.ExprSub:
		return constant.NewSub(i.X, i.Y), true
	case *constant.ExprMul:
		return constant.NewMul(i.X, i.Y), true
	case *constant.ExprShl:
		return constant.NewShl(i.X, i.Y), true
	case *constant.ExprLShr:
		return constant.NewLShr(i.X, i.Y), true
	case *constant.ExprAShr:
		return constant.NewAShr(i.X, i.Y), true
	case *constant.ExprAnd:
		return constant.NewAnd(i.X, i.Y), true
	case *constant.ExprOr:
		return constant.NewOr(i.X, i.Y), true
	case *constant.ExprXor:
		return constant.NewXor(i.X, i.Y), true
	case *constant.ExprTrunc:
		return constant.NewTrunc(i.From, i.To), true
	case *constant.ExprZExt:
		return constant.NewZExt(i.From, i.To), true
	case *constant.ExprSExt:
		return constant.NewSExt(i.From, i.To), true
	case *constant.ExprFPTrunc:
		return constant.NewFPTrunc(i.From, i.To), true
	case *constant.ExprFPExt:
		return constant.NewFPExt(i.From, i.To), true
	case *constant.ExprFPToUI:
		return constant.NewFPToUI(i.From, i.To), true
	case *constant.ExprFPToSI:
		return constant.NewFPToSI(i.From, i.To), true
	case *constant.ExprUIToFP:
		return constant.NewUIToFP(i.From, i.To), true
	case *constant.ExprSIToFP:
		return constant.NewSIToFP(i.From, i.To), true
	case *constant.ExprPtrToInt:
		return constant.NewPtrToInt(i.From, i.To), true
	case *constant.ExprIntToPtr:
		return constant.NewIntToPtr(i.From, i.To), true
	case *constant.ExprBitCast:
		return constant.NewBitCast(i.From, i.To), true
	case *constant.ExprAddrSpaceCast:
		return constant.NewAddrSpaceCast(i.From, i.To), true
	case *constant.ExprGetElementPtr:
		var idx []constant.Constant
		for _, ix := range i.Indices {
			idx = append(idx, ix)
		}
		return constant.NewGetElementPtr(i.ElemType, i.Src, idx...), true
	case *constant.ExprICmp:
		return constant.NewICmp(i.Pred, i.X, i.Y), true
	case *constant.ExprFCmp:
		return constant.NewFCmp(i.Pred, i.X, i.Y), true
	case *constant.ExprSelect:
		return constant.NewSelect(i.Cond, i.X, i.Y), true
	case *constant.ExprFNeg:
		return constant.NewFNeg(i.X), true
	case *constant.ExprExtractElement:
		return constant.NewExtractElement(i.X, i.Index), true
	case *constant.ExprInsertElement:
		return constant.NewInsertElement(i.X, i.Elem, i.Index), true
	case *constant.ExprShuffleVector:
		return constant.NewShuffleVector(i.X, i.Y, i.Mask), true
	}
	return nil, false
}

// c06exprs collects every constant expression reachable from v.
func c06exprs(v reflect.Value, seen map[uintptr]bool, out *[]constant.Expression, depth int) {
	if depth > 12 || !v.IsValid() {
		return
	}
	switch v.Kind() {
	case reflect.Interface:
		if !v.IsNil() {
			c06exprs(v.Elem(), seen, out, depth+1)
		}
	case reflect.Ptr:
		if v.IsNil() || seen[v.Pointer()] {
			return
		}
		seen[v.Pointer()] = true
		x := v.Interface()
		switch x.(type) {
		case *ir.Func, *ir.Global, *ir.Alias, *ir.IFunc, *ir.Block:
			if depth > 0 {
				return
			}
		case types.Type:
			return
		}
		if e, ok := x.(constant.Expression); ok {
			*out = append(*out, e)
		}
		if _, isInst := x.(ir.Instruction); isInst && depth > 0 {
			return
		}
		c06exprs(v.Elem(), seen, out, depth+1)
	case reflect.Struct:
		if skipPkg(v.Type()) {
			return
		}
		for i := 0; i < v.NumField(); i++ {
			if v.Type().Field(i).Name == "Parent" {
				continue
			}
			c06exprs(v.Field(i), seen, out, depth+1)
		}
	case reflect.Slice:
		for i := 0; i < v.Len(); i++ {
			c06exprs(v.Index(i), seen, out, depth+1)
		}
	}
}

type c06cmp struct {
	kind, tAsm, tIR, text string
}

// c06compare returns the disagreements between parser-attached and IR-computed types in m.
func c06compare(m *ir.Module, counts map[string]int) []c06cmp {
	var bad []c06cmp
	one := func(x interface{}, text string) {
		pv, ok := x.(value.Value)
		if !ok {
			return
		}
		var rv value.Value
		var okr bool
		kind := strings.TrimPrefix(strings.TrimPrefix(fmt.Sprintf("%T", x), "*ir."), "*constant.")
		var tAsm, tIR types.Type
		p := fw.Try(func() {
			tAsm = pv.Type()
			rv, okr = c06rebuild(x)
			if okr {
				tIR = rv.Type()
			}
		})
		if p != "" {
			bad = append(bad, c06cmp{kind, fmt.Sprint(tAsm), "PANIC: " + p, text})
			return
		}
		if !okr {
			return
		}
		counts[kind]++
		if !types.Equal(tAsm, tIR) || !types.Equal(tIR, tAsm) || tAsm.String() != tIR.String() {
			bad = append(bad, c06cmp{kind, tAsm.String(), tIR.String(), text})
		}
	}
	for _, f := range m.Funcs {
		for _, b := range f.Blocks {
			for _, inst := range b.Insts {
				one(inst, inst.LLString())
			}
			if b.Term != nil {
				one(b.Term, b.Term.LLString())
			}
		}
	}
	var exprs []constant.Expression
	seen := map[uintptr]bool{}
	for _, g := range m.Globals {
		c06exprs(reflect.ValueOf(g), seen, &exprs, 0)
	}
	for _, g := range m.Aliases {
		c06exprs(reflect.ValueOf(g), seen, &exprs, 0)
	}
	for _, f := range m.Funcs {
		for _, b := range f.Blocks {
			for _, inst := range b.Insts {
				c06exprs(reflect.ValueOf(inst), seen, &exprs, 0)
			}
			if b.Term != nil {
				c06exprs(reflect.ValueOf(b.Term), seen, &exprs, 0)
			}
		}
	}
	for _, e := range exprs {
		one(e, e.Ident())
	}
	return bad
}

func runC06(c *fw.Check) {
	gen.SetWide()
	bound := 2
	if !c.Quick() {
		bound = 3
		c.SetBudget(45 * 60 * 1e9)
	}
	if c.Deep() {
		bound = 4
	}
	entries := gen.Catalogue()
	all, batches := genBatches(entries, bound, 60)
	c.Rule = fmt.Sprintf("all variants with <=%d deviations of the generator catalogue over a WIDENED type universe (i1..i1024, all six floating-point kinds, pointers in 5 address spaces, fixed and scalable vectors of 8 shapes, arrays, literal/packed/identified structs, function pointers with and without varargs); for EVERY value-producing instruction, value-producing terminator and constant expression of the parsed module the type the parser attached (T_asm) is compared (Equal both ways and spelling) with the type the IR library computes when the same operands are handed to its constructor (T_ir: a table of 95 constructors, completeness checked against the kinds go/types lists from the current source); every result is used at the type the library reports, and llvm-as must accept the printed module (LLVM itself is the typing model). distinct = variants.", bound)
	c.Extra["variants"] = len(all)
	fs := &failSet{}
	var mu sync.Mutex
	counts := map[string]int{}
	invalid := 0
	fw.ParallelFor(len(batches), func(i int) {
		if c.OverBudget() {
			return
		}
		var usable []gen.Variant
		for _, v := range batches[i] {
			// typing is not involved in pure metadata / header productions (C01 owns them).
			if !v.NoLLVM && !strings.HasPrefix(v.Entry, "md-") && v.Entry != "types" {
				usable = append(usable, v)
			}
		}
		good := usable
		if fw.HaveLLVM() {
			good = llvmFilter(usable, func(v gen.Variant, msg string) {
				mu.Lock()
				invalid++
				mu.Unlock()
			})
		}
		local := map[string]int{}
		bisect(fs, good, func(vs []gen.Variant) (string, string, string, string) {
			m, errs, pan := parseTry(gen.Module(vs))
			if errs != "" || pan != "" {
				if len(vs) > 1 {
					return "split", "", "", "" // isolate the variant the parser does not accept
				}
				return "", "", "", "" // acceptance is C01's business
			}
			lc := map[string]int{}
			bad := c06compare(m, lc)
			for k, n := range lc {
				local[k] += n // (counted again when a failing batch is bisected)
			}
			if len(bad) > 0 {
				var d []string
				for _, b := range bad {
					d = append(d, fmt.Sprintf("%s: parser says %s, IR constructor says %s, for `%s`", b.kind, b.tAsm, b.tIR, fw.Trunc(b.text, 120)))
				}
				return "parser-vs-ir-type/" + bad[0].kind, "parser-attached type and IR-computed type differ", strings.Join(d, "\n"), ""
			}
			// the same comparison with the operands retyped the way API users type them: predeclared
			// leaves (types.I8, ...) under types.NewPointer/NewArray/...; the IR constructors then
			// compute their result types from (and possibly into) SHARED type objects.
			if m2, e2, p2 := parseTry(gen.Module(vs)); e2 == "" && p2 == "" {
				var bad2 []c06cmp
				if p := fw.Try(func() {
					c03retype(m2)
					bad2 = c06compare(m2, map[string]int{})
				}); p != "" {
					return "parser-vs-ir-type/predeclared-types/panic@" + fw.PanicSiteOf(p), "computing result types over predeclared types panics", p, ""
				}
				if len(bad2) > 0 {
					var d []string
					for _, b := range bad2 {
						d = append(d, fmt.Sprintf("%s: parser says %s, IR constructor says %s, for `%s`", b.kind, b.tAsm, b.tIR, fw.Trunc(b.text, 120)))
					}
					return "parser-vs-ir-type/predeclared-types/" + bad2[0].kind, "parser-attached type and the type the IR computes over predeclared types (types.I8, types.NewPointer(...)) differ", strings.Join(d, "\n"), ""
				}
				if w := c03predeclaredIntact(); w != "" {
					return "predeclared-type-modified", "computing a result type modified a predeclared type of package types", w, ""
				}
			}
			var y string
			if p := fw.Try(func() { y = m.String() }); p != "" {
				return "", "", "", ""
			}
			if fw.HaveLLVM() {
				if ok, e := fw.LLVMAccepts(y); !ok && !fw.IsToolCrash(e) {
					return "llvm-rejects-reported-type", "LLVM rejects the module in which every result is used at the type the library reports", e, y
				}
			}
			return "", "", "", ""
		})
		mu.Lock()
		for k, n := range local {
			counts[k] += n
		}
		mu.Unlock()
		c.DistinctN(int64(len(good)))
		c.Valid(int64(len(good)))
	})
	c.Invalid = int64(invalid)
	fs.report(c)
	c.Extra["values_compared_per_kind"] = counts
	// completeness against the kinds listed from the source.
	var missing []string
	for _, k := range append(append([]KindInfo(nil), InstKinds...), ExprKinds...) {
		x := k.New()
		if _, isVal := x.(value.Value); !isVal {
			continue
		}
		if counts[k.Name] == 0 {
			missing = append(missing, k.Name)
		}
	}
	for _, k := range TermKinds {
		if _, isVal := k.New().(value.Value); isVal && counts[k.Name] == 0 {
			missing = append(missing, k.Name)
		}
	}
	c.Extra["value_kinds_never_compared"] = missing
	if len(all) > 5 {
		v := all[len(all)/5]
		c.Sample(map[string]interface{}{"entry": v.Entry, "deviations": v.Devs, "module": gen.Module([]gen.Variant{v})})
	}
}

func replayC06(c *fw.Check, path string) {
	gen.SetWide()
	var cs genCase
	loadReplay(path, &cs)
	for i, e := range gen.Catalogue() {
		if e.Name == cs.Entry {
			v := gen.Build(e, "replay_", 10000000*(i+1), cs.Choices)
			text := gen.Module([]gen.Variant{v})
			fmt.Printf("replay %s %v:\n%s\n", v.Entry, v.Devs, text)
			m, errs, pan := parseTry(text)
			if errs == "" && pan == "" {
				for _, b := range c06compare(m, map[string]int{}) {
					c.Violation("parser-vs-ir-type/"+b.kind+"/replay", cs)
					fmt.Printf("  %s: parser %s vs IR %s\n", b.kind, b.tAsm, b.tIR)
				}
				if ok, e := fw.LLVMAccepts(m.String()); !ok {
					c.Violation("llvm-rejects-reported-type/replay", cs)
					fmt.Println(e)
				}
			}
		}
	}
	c.Case("a", "a")
	c.Case("b", "b")
}
