package props

import (
	"fmt"
	"reflect"
	"sort"
	"strings"
	"sync"

	"github.com/llir/llvm/asm"
	"github.com/llir/llvm/ir"
	"github.com/llir/llvm/ir/enum"

	"verif/fw"
	"verif/gen"
)

// Generic string carriers. The hand-written positions of c11.go cover the string kinds the property
// names; which ENTITY carries the string is a second axis (the partition of an alias is printed by
// other code than the partition of a global). Every exported field of kind string (or slice of
// strings) of every struct of the object graph of a parsed all-kinds module is a carrier; for each
// (struct type, field) the first occurrence in walk order is used. The byte string is written into
// the slot of a freshly parsed module, the module is printed, and
//   - the library's parser must read the printed module and hold exactly those bytes in the same slot,
//   - where LLVM admits a string of its own choosing in that slot (baseline "zq"), LLVM must accept the
//     printed module, and the module LLVM prints back, read by the library, must hold those bytes in
//     a slot of the same (struct type, field).
// Names that double as map keys or reference targets elsewhere (named metadata, type names) stay
// with the hand-written positions.

type c11slot struct {
	key string
	v   reflect.Value
	st  reflect.Value
}

func c11walkSlots(m *ir.Module) []c11slot {
	var out []c11slot
	seen := map[uintptr]bool{}
	ours := func(pp string) bool {
		return strings.HasSuffix(pp, "/llvm/ir") || strings.HasSuffix(pp, "/ir/constant") || strings.HasSuffix(pp, "/ir/metadata")
	}
	var visit func(v reflect.Value, depth int)
	var visitStruct func(v reflect.Value, depth int, owner string)
	visit = func(v reflect.Value, depth int) {
		if depth > 60 {
			return
		}
		switch v.Kind() {
		case reflect.Interface:
			if !v.IsNil() {
				visit(v.Elem(), depth+1)
			}
		case reflect.Ptr:
			if v.IsNil() {
				return
			}
			t := v.Type().Elem()
			if t.Kind() != reflect.Struct || !ours(t.PkgPath()) {
				return
			}
			if seen[v.Pointer()] {
				return
			}
			seen[v.Pointer()] = true
			visit(v.Elem(), depth+1)
		case reflect.Struct:
			visitStruct(v, depth, v.Type().Name())
		case reflect.Slice:
			for i := 0; i < v.Len(); i++ {
				visit(v.Index(i), depth+1)
			}
		case reflect.Map:
			keys := v.MapKeys()
			sort.Slice(keys, func(i, j int) bool { return fmt.Sprint(keys[i]) < fmt.Sprint(keys[j]) })
			for _, k := range keys {
				visit(v.MapIndex(k), depth+1)
			}
		}
	}
	visitStruct = func(v reflect.Value, depth int, owner string) {
		{
			t := v.Type()
			if !ours(t.PkgPath()) {
				return
			}
			for i := 0; i < v.NumField(); i++ {
				sf := t.Field(i)
				if sf.PkgPath != "" {
					continue
				}
				f := v.Field(i)
				if sf.Name == "Parent" || sf.Name == "Typ" || sf.Name == "Sig" {
					continue
				}
				key := owner + "." + sf.Name
				if sf.Anonymous && f.Kind() == reflect.Struct {
					visitStruct(f, depth+1, owner)
					continue
				}
				if f.Kind() == reflect.String && f.CanSet() && sf.Type.PkgPath() == "" {
					out = append(out, c11slot{key, f, v})
					continue
				}
				if f.Kind() == reflect.Slice && f.Type().Elem().Kind() == reflect.String && f.Type().Elem().PkgPath() == "" {
					if f.Len() > 0 && f.Index(0).CanSet() {
						out = append(out, c11slot{key + "[0]", f.Index(0), v})
					}
					continue
				}
				visit(f, depth+1)
			}
		}
	}
	visit(reflect.ValueOf(m), 0)
	return out
}

// first occurrence per key, in walk order; embedded identifiers are reported under the embedding
// struct (GlobalIdent.GlobalName of a Func and of an Alias are different carriers).
func c11firstSlots(m *ir.Module) (keys []string, first map[string]reflect.Value, all map[string][]string) {
	keys, first, all, _ = c11firstSlotsSt(m)
	return
}

func c11firstSlotsSt(m *ir.Module) (keys []string, first map[string]reflect.Value, all map[string][]string, owner map[string]reflect.Value) {
	first = map[string]reflect.Value{}
	owner = map[string]reflect.Value{}
	all = map[string][]string{}
	for _, s := range c11walkSlots(m) {
		if _, ok := first[s.key]; !ok {
			first[s.key] = s.v
			owner[s.key] = s.st
			keys = append(keys, s.key)
		}
		all[s.key] = append(all[s.key], s.v.String())
	}
	return
}

// slots that are also keys / reference targets somewhere else in the module: not set in isolation.
var c11walkSkip = map[string]bool{
	"NamedDef.Name": true, // key of Module.NamedMetadataDefs
}

type c11walkCase struct {
	Slot    string `json:"slot"`
	Bytes   string `json:"bytes_quoted"`
	Got     string `json:"got_quoted,omitempty"`
	Printed string `json:"printed_lines,omitempty"`
	What    string `json:"what"`
}

func c11walkStrings(quick bool) []string {
	var out []string
	seen := map[string]bool{}
	add := func(s string) {
		if !seen[s] {
			seen[s] = true
			out = append(out, s)
		}
	}
	classes := []string{"0", "9", "a", "-", ".", "$", "_", " ", "\"", "\\", "5", "C", "\x01", "\x7f", "\x80", "\xff", "\t", "\n", "%", "@", "!", " ", "é", "'", ",", "=", "(", "{", ";", "#"}
	if quick {
		for _, s := range classes {
			add(s)
			add("a" + s)
			add(s + "b")
		}
	} else {
		for b := 1; b < 256; b++ {
			add(string([]byte{byte(b)}))
		}
		for _, s := range classes {
			add("a" + s)
			add(s + "b")
			add(s + s)
		}
	}
	for _, s := range []string{`\5C`, `\\`, `\22`, `a\5Cb`, `\0`, `x\`, `"q"`, "a b", "18446744073709551616", "42", "0", "-1", "1abc", "true", "void", "null", "c", "a\"b\\c", "\xc3", "\xe2\x82", "tab\there", "nl\nhere"} {
		add(s)
	}
	return out
}

var (
	c11walkBaseOnce sync.Once
	c11walkKeys     []string
	c11walkLLVMok   map[string]bool // LLVM admits a string of its own choosing in the slot and keeps it
	c11walkInert    []string        // slots whose content is not printed at all (name of a void result)
	c11walkExisting map[string]bool // every string the base module already holds in some slot
)

func c11walkSet(text, key, s string) (m *ir.Module, ok bool) {
	m, err := asm.ParseString("c11walk.ll", text)
	if err != nil {
		fw.Fatalf("C11 walk: base module does not parse: %v", err)
	}
	_, first, _, owner := c11firstSlotsSt(m)
	v, ok := first[key]
	if !ok {
		return m, false
	}
	v.SetString(s)
	if strings.HasSuffix(key, ".SyncScope") {
		// a synchronisation scope is only printed on atomic loads and stores.
		st := owner[key]
		if a := st.FieldByName("Atomic"); a.IsValid() && a.Kind() == reflect.Bool && a.CanSet() && !a.Bool() {
			a.SetBool(true)
			if o := st.FieldByName("Ordering"); o.IsValid() && o.CanSet() && o.Kind() >= reflect.Uint && o.Kind() <= reflect.Uint64 && o.Uint() == 0 {
				o.SetUint(uint64(enum.AtomicOrderingMonotonic))
			}
			if al := st.FieldByName("Align"); al.IsValid() && al.CanSet() && al.Kind() >= reflect.Uint && al.Kind() <= reflect.Uint64 && al.Uint() == 0 {
				al.SetUint(4)
			}
		}
	}
	return m, true
}

func c11walkContains(all map[string][]string, key, s string) bool {
	for _, x := range all[key] {
		if x == s {
			return true
		}
	}
	return false
}

// c11base: like c18base, but a variant is kept when it brings a STRING carrier not yet present.
var (
	c11baseOnce sync.Once
	c11baseText string
)

func c11base() string {
	c11baseOnce.Do(func() {
		var vs []gen.Variant
		have := map[string]bool{}
		for i, e := range gen.Catalogue() {
			for _, v := range gen.Variants(e, i, 1) {
				if v.Solo {
					continue
				}
				m, errs, pan := parseTry(gen.Module([]gen.Variant{v}))
				if errs != "" || pan != "" {
					continue
				}
				ok := false
				fw.Try(func() {
					_, err := asm.ParseString("v.ll", m.String())
					ok = err == nil
				})
				if !ok {
					continue
				}
				useful := false
				for _, sl := range c11walkSlots(m) {
					if !have[sl.key] {
						have[sl.key] = true
						useful = true
					}
				}
				if useful {
					vs = append(vs, v)
				}
			}
		}
		var acc []gen.Variant
		if _, e, p := parseTry(gen.Module(vs)); e == "" && p == "" {
			acc = vs
		} else {
			for _, v := range vs {
				if _, e2, p2 := parseTry(gen.Module(append(append([]gen.Variant(nil), acc...), v))); e2 == "" && p2 == "" {
					acc = append(acc, v)
				}
			}
		}
		m, errs, pan := parseTry(gen.Module(acc))
		if errs != "" || pan != "" {
			fw.Fatalf("C11 walk base module does not parse: %s %s", errs, pan)
		}
		c11baseText = m.String()
		if _, err := asm.ParseString("c11base.ll", c11baseText); err != nil {
			fw.Fatalf("C11 walk base module does not re-parse: %v", err)
		}
		if fw.HaveLLVM() {
			if ok, e := fw.LLVMAccepts(c11baseText); !ok {
				fw.Fatalf("C11 walk base module is not valid LLVM: %s", fw.Trunc(e, 500))
			}
		}
	})
	return c11baseText
}

func c11walkInit() {
	c11walkBaseOnce.Do(func() {
		base := c11base()
		m, err := asm.ParseString("c11walk.ll", base)
		if err != nil {
			fw.Fatalf("C11 walk: %v", err)
		}
		keys, _, allVals := c11firstSlots(m)
		c11walkExisting = map[string]bool{}
		for _, vs := range allVals {
			for _, v := range vs {
				c11walkExisting[v] = true
			}
		}
		for _, k := range keys {
			if c11walkSkip[k] {
				continue
			}
			// baseline: a benign string must come back from the slot, otherwise the slot is inert.
			mm, _ := c11walkSet(base, k, "zq")
			back := false
			fw.Try(func() {
				if m2, err := asm.ParseString("b.ll", mm.String()); err == nil {
					_, f2, _ := c11firstSlots(m2)
					if v, ok := f2[k]; ok && v.String() == "zq" {
						back = true
					}
				}
			})
			if back {
				c11walkKeys = append(c11walkKeys, k)
			} else {
				c11walkInert = append(c11walkInert, k)
			}
		}
		c11walkLLVMok = map[string]bool{}
		if !fw.HaveLLVM() {
			return
		}
		var mu sync.Mutex
		fw.ParallelFor(len(c11walkKeys), func(i int) {
			k := c11walkKeys[i]
			mm, ok := c11walkSet(base, k, "zq")
			if !ok {
				return
			}
			var text string
			if p := fw.Try(func() { text = mm.String() }); p != "" {
				return
			}
			out, _, okL, _ := fw.AsDis(text)
			if !okL {
				return
			}
			m2, errs, pan := parseTry(out)
			if errs != "" || pan != "" {
				return
			}
			_, _, all := c11firstSlots(m2)
			if c11walkContains(all, k, "zq") {
				mu.Lock()
				c11walkLLVMok[k] = true
				mu.Unlock()
			}
		})
	})
}

func c11walk(c *fw.Check) {
	c11walkInit()
	strs := c11walkStrings(c.Quick())
	type job struct {
		key string
		s   string
	}
	var jobs []job
	for _, k := range c11walkKeys {
		for _, s := range strs {
			jobs = append(jobs, job{k, s})
		}
	}
	fw.ParallelFor(len(jobs), func(i int) {
		c11walkOne(c, jobs[i].key, jobs[i].s)
	})
	var llvmSlots []string
	for _, k := range c11walkKeys {
		if c11walkLLVMok[k] {
			llvmSlots = append(llvmSlots, k)
		}
	}
	c.Extra["string_carriers"] = c11walkKeys
	c.Extra["string_carriers_inert"] = c11walkInert
	c.Extra["string_carriers_llvm_checked"] = len(llvmSlots)
	c.Extra["string_carrier_strings"] = len(strs)
	c.Extra["string_carrier_llvm_comparisons"] = c11walkLLVMChecked
	c.Extra["string_carrier_values_llvm_rejects"] = c11walkLLVMRejects
}

var (
	c11walkMu                              sync.Mutex
	c11walkLLVMChecked, c11walkLLVMRejects int64
)

// c11walkOne checks one (slot, byte string).
func c11walkOne(c *fw.Check, key, str string) {
	c11walkInit()
	if c11walkExisting[str] && strings.HasSuffix(key, "Name") {
		// an identifier the base module already uses (@G, %l): writing it into another entity of
		// the same scope makes a duplicate definition, not a naming question.
		return
	}
	base := c11base()
	mu := &c11walkMu
	type job struct{ key, s string }
	j := job{key, str}
	{
		c.Distinct("walk|" + j.key + "|" + j.s)
		cs := c11walkCase{Slot: j.key, Bytes: fmt.Sprintf("%q", j.s)}
		m, ok := c11walkSet(base, j.key, j.s)
		if !ok {
			return
		}
		var text string
		if p := fw.Try(func() { text = m.String() }); p != "" {
			cs.What = "printing panics: " + p
			c.Violation("carrier/print-panics/"+j.key, cs)
			return
		}
		cs.Printed = fw.Trunc(c18diffLines(base, text), 500)
		// LLVM's verdict first: a value LLVM does not admit in this slot is outside the property,
		// but only if the library itself reads its own output back correctly.
		llvmOK, llvmOut := false, ""
		if c11walkLLVMok[j.key] {
			llvmOut, _, llvmOK, _ = fw.AsDis(text)
		}
		m2, errs, pan := parseTry(text)
		if errs != "" || pan != "" {
			if c11walkLLVMok[j.key] || !fw.HaveLLVM() {
				cs.What = "the library cannot read the module it printed: " + fw.Trunc(errs+pan, 300)
				c.Violation("carrier/reparse-fails/"+j.key, cs)
			} else if okL, _ := fw.LLVMAccepts(text); okL {
				cs.What = "the library cannot read the module it printed (LLVM can): " + fw.Trunc(errs+pan, 300)
				c.Violation("carrier/reparse-fails/"+j.key, cs)
			} else {
				mu.Lock()
				c.Invalid++
				mu.Unlock()
			}
			return
		}
		_, first2, _ := c11firstSlots(m2)
		got, found := first2[j.key]
		if !found || got.String() != j.s {
			if found {
				cs.Got = fmt.Sprintf("%q", got.String())
			}
			cs.What = "the bytes read back from the same slot of the re-parsed module differ"
			c.Violation("carrier/reparse-differs/"+j.key, cs)
			return
		}
		c.Valid(1)
		if !c11walkLLVMok[j.key] {
			return
		}
		if strings.HasPrefix(j.key, "Module.ModuleAsms") && strings.Contains(j.s, "\n") {
			// LLVM keeps module-level assembly as ONE string of lines: a directive holding a
			// newline is the same module as two directives, and is printed back as such.
			return
		}
		if !llvmOK {
			mu.Lock()
			c11walkLLVMRejects++
			mu.Unlock()
			return
		}
		m3, e3, p3 := parseTry(llvmOut)
		if e3 != "" || p3 != "" {
			mu.Lock()
			c.Invalid++ // the library cannot read LLVM's own spelling: C01's subject
			mu.Unlock()
			return
		}
		_, _, all3 := c11firstSlots(m3)
		mu.Lock()
		c11walkLLVMChecked++
		mu.Unlock()
		// (LLVM 14 prints some strings raw -- gc names, target triples, attribute strings --, so the
		// bytes are also looked for verbatim between quotes in LLVM's output.)
		if !c11walkContains(all3, j.key, j.s) && !strings.Contains(llvmOut, "\""+j.s+"\"") {
			cs.What = "LLVM reads other bytes from the printed token (the module LLVM prints back does not hold these bytes in any slot of this kind)"
			c.Violation("carrier/llvm-reads-differently/"+j.key, cs)
		}
	}
}
