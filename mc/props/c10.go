package props

import (
	"fmt"
	"math"
	"math/big"
	"regexp"
	"strconv"
	"strings"
	"sync"

	"github.com/llir/llvm/ir/constant"
	"github.com/llir/llvm/ir/types"

	"verif/fw"
)

func init() { Registry["C10"] = Prop{Run: runC10, Replay: replayC10} }

type c10kind struct {
	name     string
	typ      *types.FloatType
	bits     int // total bits
	expBits  int
	mantBits int // explicitly stored mantissa bits
}

var c10kinds = []c10kind{
	{"half", types.Half, 16, 5, 10},
	{"float", types.Float, 32, 8, 23},
	{"double", types.Double, 64, 11, 52},
	{"x86_fp80", types.X86_FP80, 80, 15, 64},
	{"fp128", types.FP128, 128, 15, 112},
	{"ppc_fp128", types.PPC_FP128, 128, 11, 52},
}

// c10lit is one input literal.
type c10lit struct {
	kind     int
	text     string
	spelling string // native-hex double-hex decimal
	class    string // zero subnormal normal inf nan-quiet-canonical nan-quiet-payload nan-signalling
}

func c10classOf(k c10kind, sign, exp uint64, mant *big.Int) string {
	maxExp := uint64(1)<<uint(k.expBits) - 1
	m := new(big.Int).Set(mant)
	if k.name == "x86_fp80" {
		m.SetBit(m, 63, 0) // drop the explicit integer bit
	}
	switch {
	case exp == 0 && m.Sign() == 0:
		return "zero"
	case exp == 0:
		return "subnormal"
	case exp == maxExp && m.Sign() == 0:
		return "inf"
	case exp == maxExp:
		qbit := k.mantBits - 1
		if k.name == "x86_fp80" {
			qbit = 62
		}
		if m.Bit(qbit) == 1 {
			rest := new(big.Int).Set(m)
			rest.SetBit(rest, qbit, 0)
			if rest.Sign() == 0 {
				return "nan-quiet-canonical"
			}
			return "nan-quiet-payload"
		}
		return "nan-signalling"
	}
	if m.Sign() == 0 {
		return "normal-pow2"
	}
	return "normal"
}

// hexOfDoubleFor returns the 16-digit double hex literal denoting exactly the value of a half or
// float bit pattern (NaN payloads shifted into the double payload, as LLVM does).
func doubleBitsOf(k c10kind, sign, exp uint64, mant uint64) uint64 {
	maxExp := uint64(1)<<uint(k.expBits) - 1
	shift := uint(52 - k.mantBits)
	bias := int64(1)<<uint(k.expBits-1) - 1
	switch {
	case exp == maxExp:
		return sign<<63 | 0x7FF<<52 | mant<<shift
	case exp == 0 && mant == 0:
		return sign << 63
	case exp == 0:
		// subnormal of the narrow type is normal in double: normalise.
		e := int64(1) - bias
		m := mant
		for m>>uint(k.mantBits)&1 == 0 {
			m <<= 1
			e--
		}
		m &^= 1 << uint(k.mantBits)
		return sign<<63 | uint64(e+1023)<<52 | m<<shift
	}
	return sign<<63 | uint64(int64(exp)-bias+1023)<<52 | mant<<shift
}

func c10native(k c10kind, sign, exp uint64, mant *big.Int) string {
	switch k.name {
	case "half":
		return fmt.Sprintf("0xH%04X", sign<<15|exp<<10|mant.Uint64())
	case "float":
		return fmt.Sprintf("0x%016X", doubleBitsOf(k, sign, exp, mant.Uint64()))
	case "double":
		return fmt.Sprintf("0x%016X", sign<<63|exp<<52|mant.Uint64())
	case "x86_fp80":
		return fmt.Sprintf("0xK%04X%016X", sign<<15|exp, mant.Uint64())
	case "fp128":
		hi := new(big.Int).Rsh(mant, 64).Uint64() | exp<<48 | sign<<63
		lo := new(big.Int).And(mant, new(big.Int).SetUint64(math.MaxUint64)).Uint64()
		return fmt.Sprintf("0xL%016X%016X", lo, hi)
	}
	panic("native")
}

// mantissa families.
func c10mants(k c10kind, full bool) []*big.Int {
	m := k.mantBits
	one := big.NewInt(1)
	var out []*big.Int
	add := func(x *big.Int) { out = append(out, x) }
	all := new(big.Int).Sub(new(big.Int).Lsh(one, uint(m)), one)
	alt := new(big.Int)
	for i := 0; i < m; i += 2 {
		alt.SetBit(alt, i, 1)
	}
	top := new(big.Int).Lsh(one, uint(m-1))
	top2 := new(big.Int).Or(top, new(big.Int).Lsh(one, uint(m-2)))
	add(big.NewInt(0))
	add(big.NewInt(1))
	add(big.NewInt(2))
	add(all)
	add(top)
	add(top2)
	add(alt)
	add(new(big.Int).Or(top, one))
	if full {
		for i := 1; i < m-1; i++ {
			add(new(big.Int).Lsh(one, uint(i)))
		}
	}
	return out
}

func c10exps(k c10kind, all bool) []uint64 {
	maxExp := uint64(1)<<uint(k.expBits) - 1
	if all || k.expBits <= 11 {
		out := make([]uint64, 0, maxExp+1)
		for e := uint64(0); e <= maxExp; e++ {
			out = append(out, e)
		}
		return out
	}
	bias := maxExp / 2
	seen := map[uint64]bool{}
	var out []uint64
	add := func(e uint64) {
		if e <= maxExp && !seen[e] {
			seen[e] = true
			out = append(out, e)
		}
	}
	for d := uint64(0); d <= 40; d++ {
		add(d)
		add(maxExp - d)
		add(bias - d)
		add(bias + d)
	}
	for e := uint64(1); e < maxExp; e <<= 1 {
		add(e)
		add(maxExp - e)
	}
	return out
}

func c10literals(quick bool) []c10lit {
	var lits []c10lit
	// half: ALL 2^16 patterns.
	hk := c10kinds[0]
	for b := uint64(0); b < 1<<16; b++ {
		sign, exp, mant := b>>15, b>>10&0x1F, b&0x3FF
		cl := c10classOf(hk, sign, exp, new(big.Int).SetUint64(mant))
		lits = append(lits, c10lit{0, fmt.Sprintf("0xH%04X", b), "native-hex", cl})
		lits = append(lits, c10lit{0, fmt.Sprintf("0x%016X", doubleBitsOf(hk, sign, exp, mant)), "double-hex", cl})
		if exp != 0x1F && (mant&0x1F == 0 || !quick) {
			v := math.Float64frombits(doubleBitsOf(hk, sign, exp, mant))
			lits = append(lits, c10lit{0, c10decimal(v), "decimal", cl})
		}
	}
	for ki, k := range c10kinds {
		if k.name == "half" {
			continue
		}
		if k.name == "ppc_fp128" {
			// pairs of doubles from a small family.
			ds := []uint64{0, 1 << 63, 0x3FF0000000000000, 0xBFF0000000000000, 1, 0x000FFFFFFFFFFFFF, 0x0010000000000000, 0x7FEFFFFFFFFFFFFF, 0x7FF0000000000000, 0xFFF0000000000000, 0x7FF8000000000000, 0x7FF0000000000001, 0xFFF8000000000001, 0x3CA0000000000000, 0x4340000000000000, 0x3FF0000000000001}
			for _, a := range ds {
				for _, b := range ds {
					cl := c10classOf(c10kinds[2], a>>63, a>>52&0x7FF, new(big.Int).SetUint64(a&(1<<52-1)))
					lits = append(lits, c10lit{ki, fmt.Sprintf("0xM%016X%016X", a, b), "native-hex", cl})
				}
			}
			continue
		}
		exps := c10exps(k, !quick)
		for _, exp := range exps {
			maxExp := uint64(1)<<uint(k.expBits) - 1
			boundary := exp <= 1 || exp >= maxExp-1 || exp == maxExp/2 || exp == maxExp/2+1
			mants := c10mants(k, boundary || !quick)
			for _, mant := range mants {
				for sign := uint64(0); sign < 2; sign++ {
					m := new(big.Int).Set(mant)
					if k.name == "x86_fp80" {
						// canonical encodings: integer bit set iff exponent non-zero.
						m.SetBit(m, 63, 0)
						if exp != 0 {
							m.SetBit(m, 63, 1)
						}
					}
					cl := c10classOf(k, sign, exp, m)
					lits = append(lits, c10lit{ki, c10native(k, sign, exp, m), "native-hex", cl})
					if (k.name == "float" || k.name == "double") && exp != maxExp && mant.BitLen() <= 2 {
						var v float64
						if k.name == "double" {
							v = math.Float64frombits(sign<<63 | exp<<52 | m.Uint64())
						} else {
							v = math.Float64frombits(doubleBitsOf(k, sign, exp, m.Uint64()))
						}
						lits = append(lits, c10lit{ki, c10decimal(v), "decimal", cl})
					}
				}
			}
		}
	}
	// INEXACT decimal doubles, bounded families enumerated completely. Such literals are rounded
	// by the parser; a decimal-to-binary conversion that rounds twice (to 64 bits, then to 53) is
	// off by one ulp on about one 8-digit literal in 4000 (and on no 5-digit one): every 5-digit
	// significand dd.ddd, every 8-digit literal 34.000000 .. 34.199999 (thorough: 10.000000 ..
	// 10.999999 and 34.000000 .. 34.999999, and the 5-digit significands with exponents e-07, e+25).
	for m := 10000; m <= 99999; m++ {
		lits = append(lits, c10lit{2, fmt.Sprintf("%d.%03d", m/1000, m%1000), "decimal-inexact", "normal"})
		if !quick {
			lits = append(lits, c10lit{2, fmt.Sprintf("%d.%04de-07", m/10000, m%10000), "decimal-inexact", "normal"})
			lits = append(lits, c10lit{2, fmt.Sprintf("%d.%04de+25", m/10000, m%10000), "decimal-inexact", "normal"})
		}
	}
	hi := 34199999
	if !quick {
		hi = 34999999
		for m := 10000000; m <= 10999999; m++ {
			lits = append(lits, c10lit{2, fmt.Sprintf("%d.%06d", m/1000000, m%1000000), "decimal-inexact", "normal"})
		}
	}
	for m := 34000000; m <= hi; m++ {
		lits = append(lits, c10lit{2, fmt.Sprintf("%d.%06d", m/1000000, m%1000000), "decimal-inexact", "normal"})
	}
	// CASE of the hexadecimal digits: LLVM accepts a-f as well as A-F. Every hexadecimal literal
	// generated so far that contains a letter digit is repeated in lower case and in alternating
	// case (the form prefix 0x / 0xK / 0xL / 0xM / 0xH stays as it is).
	{
		n := len(lits)
		for i := 0; i < n; i++ {
			l := lits[i]
			if l.spelling != "native-hex" && l.spelling != "double-hex" {
				continue
			}
			pl := 2
			if len(l.text) > 2 && l.text[2] >= 'H' && l.text[2] <= 'M' {
				pl = 3
			}
			digits := l.text[pl:]
			if !strings.ContainsAny(digits, "ABCDEF") {
				continue
			}
			// half has 2^16 literals: lower case for all of them, alternating case for every 16th.
			lits = append(lits, c10lit{l.kind, l.text[:pl] + strings.ToLower(digits), l.spelling + "-lowercase", l.class})
			if l.kind == 0 && i%16 != 0 {
				continue
			}
			alt := []byte(digits)
			for j := range alt {
				if j%2 == 1 && alt[j] >= 'A' && alt[j] <= 'F' {
					alt[j] += 'a' - 'A'
				}
			}
			lits = append(lits, c10lit{l.kind, l.text[:pl] + string(alt), l.spelling + "-mixedcase", l.class})
		}
	}
	// SHORT hexadecimal literals: LLVM accepts fewer digits than the nominal 4/16/20/32. Every
	// length 1..nominal-1 of each form, over digit strings d, d0..0, 0..0d, dd..d for d in {1,8,F,c}.
	// (x86_fp80: a short literal is sign/exponent first, so most are non-canonical encodings; they
	// must still be read without crashing and are compared where LLVM folds them.)
	{
		type form struct {
			kind   int
			prefix string
			n      int
		}
		forms := []form{{0, "0xH", 4}, {0, "0x", 16}, {1, "0x", 16}, {2, "0x", 16}, {3, "0xK", 20}, {4, "0xL", 32}, {5, "0xM", 32}}
		for _, f := range forms {
			seen := map[string]bool{}
			for ln := 1; ln < f.n; ln++ {
				for _, d := range []string{"1", "8", "F", "c"} {
					for _, body := range []string{strings.Repeat(d, ln), d + strings.Repeat("0", ln-1), strings.Repeat("0", ln-1) + d, d + strings.Repeat("0", ln/2) + strings.Repeat(d, ln-1-ln/2)} {
						if len(body) != ln || seen[body] {
							continue
						}
						seen[body] = true
						if f.kind == 1 && f.prefix == "0x" {
							// float: LLVM demands a double that is exactly a float; keep those only.
							var bits uint64
							fmt.Sscanf(body, "%x", &bits)
							if v := math.Float64frombits(bits); float64(float32(v)) != v && v == v {
								continue
							}
						}
						lits = append(lits, c10lit{f.kind, f.prefix + body, "short-hex", c10classOfHex(f.kind, f.prefix, c10expandShort(f.prefix, body))})
					}
				}
			}
		}
	}
	// a few hand-picked decimal spellings.
	for _, s := range []string{"0.0", "-0.0", "1.0", "1.5", "0.1", "3.141592653589793", "1e10", "1.0e+10", "2.5e-3", "123456789.0", "1e308", "4.9406564584124654e-324", "1.7976931348623157e+308", "0.30000000000000004"} {
		lits = append(lits, c10lit{2, s, "decimal", "normal"})
	}
	for _, s := range []string{"0.0", "1.0", "1.5", "0.5", "2.0", "-3.75", "65504.0", "1e3"} {
		lits = append(lits, c10lit{0, s, "decimal", "normal"}, c10lit{1, s, "decimal", "normal"})
	}
	return lits
}

// c10expandShort gives the full-length digit string LLVM reads a short hexadecimal literal as
// (validated against llvm-as: every short literal is also sent through LLVM by c10batch).
func c10expandShort(prefix, body string) string {
	pad := func(s string, n int) string { return strings.Repeat("0", n-len(s)) + s }
	switch prefix {
	case "0xH":
		return pad(body, 4)
	case "0x":
		return pad(body, 16)
	case "0xK":
		if len(body) < 4 {
			return pad(body, 4) + pad("", 16)
		}
		return body[:4] + pad(body[4:], 16)
	default: // 0xL, 0xM
		if len(body) < 16 {
			return pad("", 16) + pad(body, 16)
		}
		return body[:16] + pad(body[16:], 16)
	}
}

// c10classOfHex classifies a full-length hexadecimal literal (class names as in c10classOf; the
// 16-digit double form and ppc_fp128 are classified as the (first) double; x86_fp80 encodings whose
// integer bit disagrees with the exponent are "noncanonical" and only checked for crashes).
func c10classOfHex(kind int, prefix, full string) string {
	word := func(s string) uint64 {
		var v uint64
		fmt.Sscanf(s, "%x", &v)
		return v
	}
	switch prefix {
	case "0xH":
		b := word(full)
		return c10classOf(c10kinds[0], b>>15, b>>10&0x1F, new(big.Int).SetUint64(b&0x3FF))
	case "0x", "0xM":
		b := word(full[:16])
		return c10classOf(c10kinds[2], b>>63, b>>52&0x7FF, new(big.Int).SetUint64(b&(1<<52-1)))
	case "0xK":
		se, m := word(full[:4]), word(full[4:])
		if (se&0x7FFF != 0) != (m>>63 == 1) {
			return "noncanonical"
		}
		return c10classOf(c10kinds[3], se>>15, se&0x7FFF, new(big.Int).SetUint64(m))
	default: // 0xL: low word first
		lo, hi := word(full[:16]), word(full[16:])
		mant := new(big.Int).Lsh(new(big.Int).SetUint64(hi&(1<<48-1)), 64)
		mant.Or(mant, new(big.Int).SetUint64(lo))
		return c10classOf(c10kinds[4], hi>>63, hi>>48&0x7FFF, mant)
	}
}

// c10baseSpelling drops the digit-case suffix: the case of the digits is not part of a signature.
func c10baseSpelling(s string) string {
	return strings.TrimSuffix(strings.TrimSuffix(s, "-lowercase"), "-mixedcase")
}

func c10decimal(v float64) string {
	s := strconv.FormatFloat(v, 'e', -1, 64)
	if !strings.Contains(s, ".") {
		s = strings.Replace(s, "e", ".0e", 1)
	}
	return s
}

var reGlobalLit = regexp.MustCompile(`(?m)^@g(\d+) = global (\S+) (.*)$`)

// c10llvmBits asks LLVM for the bit patterns of the literals (nil entry = LLVM rejects the literal).
func c10llvmBits(k c10kind, lits []string) []string {
	out := make([]string, len(lits))
	if len(lits) == 0 {
		return out
	}
	var b strings.Builder
	for i, l := range lits {
		if k.name == "ppc_fp128" {
			fmt.Fprintf(&b, "@g%d = global ppc_fp128 %s\n", i, l)
		} else {
			fmt.Fprintf(&b, "@g%d = global i%d bitcast (%s %s to i%d)\n", i, k.bits, k.name, l, k.bits)
		}
	}
	dis, e, ok, _ := fw.AsDis(b.String())
	if !ok {
		if fw.IsToolCrash(e) {
			return out
		}
		if len(lits) == 1 {
			out[0] = "REJECTED: " + fw.Trunc(strings.TrimSpace(e), 120)
			return out
		}
		h := len(lits) / 2
		copy(out, c10llvmBits(k, lits[:h]))
		copy(out[h:], c10llvmBits(k, lits[h:]))
		return out
	}
	mod := new(big.Int).Lsh(big.NewInt(1), uint(k.bits))
	for _, m := range reGlobalLit.FindAllStringSubmatch(dis, -1) {
		var i int
		fmt.Sscan(m[1], &i)
		if i >= len(out) {
			continue
		}
		if k.name == "ppc_fp128" {
			out[i] = m[3]
			continue
		}
		v, okv := new(big.Int).SetString(m[3], 10)
		if !okv {
			out[i] = "UNFOLDED: " + m[3]
			continue
		}
		v.Mod(v, mod)
		out[i] = fmt.Sprintf("%0*X", k.bits/4, v)
	}
	return out
}

type c10case struct {
	Kind     string `json:"kind"`
	Literal  string `json:"literal"`
	Spelling string `json:"spelling"`
	Class    string `json:"class"`
	Printed  string `json:"printed"`
	InBits   string `json:"llvm_bits_of_input"`
	OutBits  string `json:"llvm_bits_of_printed"`
	What     string `json:"what"`
}

func c10batch(c *fw.Check, k c10kind, lits []c10lit, mu *sync.Mutex, skipped *int) {
	in := make([]string, len(lits))
	for i, l := range lits {
		in[i] = l.text
	}
	inBits := c10llvmBits(k, in)
	// the library: parse each literal in a module, print, extract the printed literal.
	var b strings.Builder
	for i, l := range lits {
		fmt.Fprintf(&b, "@g%d = global %s %s\n", i, k.name, l.text)
	}
	printed := make([]string, len(lits))
	m, errs, pan := parseTry(b.String())
	var text string
	if errs == "" && pan == "" {
		pan = fw.Try(func() { text = m.String() })
	}
	if errs != "" || pan != "" {
		// per literal.
		for i, l := range lits {
			var f *constant.Float
			var err error
			p := fw.Try(func() {
				f, err = constant.NewFloatFromString(k.typ, l.text)
				if err == nil {
					printed[i] = f.Ident()
				}
			})
			if p != "" || err != nil {
				if strings.HasPrefix(inBits[i], "REJECTED") {
					continue // LLVM does not accept the literal either
				}
				printed[i] = ""
				c.Violation(fmt.Sprintf("parse-or-print-fails/%s/%s/%s", k.name, c10baseSpelling(l.spelling), l.class), c10case{Kind: k.name, Literal: l.text, Spelling: l.spelling, Class: l.class, What: fmt.Sprint(p, err)})
			}
		}
	} else {
		for _, mm := range reGlobalLit.FindAllStringSubmatch(text, -1) {
			var i int
			fmt.Sscan(mm[1], &i)
			if i < len(printed) {
				printed[i] = mm[3]
			}
		}
	}
	// library re-parse of its own output is stable.
	for i, l := range lits {
		if printed[i] == "" || inBits[i] == "" || strings.HasPrefix(inBits[i], "REJECTED") || strings.HasPrefix(inBits[i], "UNFOLDED") {
			continue // nothing printed, or not a literal LLVM accepts (e.g. a double that is no half)
		}
		var again string
		p := fw.Try(func() {
			f, err := constant.NewFloatFromString(k.typ, printed[i])
			if err != nil {
				again = "ERROR " + err.Error()
				return
			}
			again = f.Ident()
		})
		if p != "" || again != printed[i] {
			c.Violation(fmt.Sprintf("reparse-unstable/%s/%s/%s", k.name, l.spelling, l.class), c10case{Kind: k.name, Literal: l.text, Spelling: l.spelling, Class: l.class, Printed: printed[i], What: "the library re-reads its own printed literal as " + again + p})
		}
	}
	outBits := c10llvmBits(k, printed)
	for i, l := range lits {
		if printed[i] == "" || inBits[i] == "" {
			continue
		}
		if strings.HasPrefix(inBits[i], "REJECTED") || strings.HasPrefix(inBits[i], "UNFOLDED") {
			mu.Lock()
			*skipped++
			mu.Unlock()
			continue // not a literal LLVM accepts: generator case skipped
		}
		if l.class == "noncanonical" {
			continue // x86_fp80 pseudo-denormal / unnormal encodings: read without crashing, not compared
		}
		cs := c10case{Kind: k.name, Literal: l.text, Spelling: l.spelling, Class: l.class, Printed: printed[i], InBits: inBits[i], OutBits: outBits[i]}
		switch {
		case strings.HasPrefix(outBits[i], "REJECTED"):
			cs.What = "LLVM rejects the printed literal (decimal notation that is not exact for the type?)"
			c.Violation(fmt.Sprintf("printed-literal-invalid/%s/%s/%s", k.name, l.spelling, l.class), cs)
		case outBits[i] == "":
		case outBits[i] != inBits[i]:
			cs.What = "LLVM assigns different bits to the printed literal"
			c.Violation(fmt.Sprintf("bits-differ/%s/%s", k.name, l.class), cs)
		}
	}
	c.Valid(int64(len(lits)))
}

func runC10(c *fw.Check) {
	if !fw.HaveLLVM() {
		fw.Fatalf("C10 needs llvm-as-14/llvm-dis-14 (bitcast folding gives LLVM's bit pattern of a literal)")
	}
	lits := c10literals(c.Quick())
	c.Rule = "half: ALL 2^16 bit patterns in 0xH form, as 16-digit double hex and (finite ones) as exact decimal; float, double, x86_fp80, fp128: both signs x every exponent (x86_fp80/fp128 quick: all exponents within 40 of zero/bias/max and powers of two; thorough: every exponent) x a mantissa family (0, 1, 2, all-ones, top bit, top two, alternating, top|1, and single-bit walks at boundary exponents / everywhere in thorough), i.e. every zero/subnormal/normal/inf/quiet/signalling/payload class; ppc_fp128: 256 pairs of boundary doubles; decimal spellings of sparse-mantissa values; inexact decimal doubles: every 5-digit significand as dd.ddd and every 8-digit literal 34.000000..34.199999 (thorough: 10.000000..10.999999, 34.000000..34.999999, and 5-digit significands with exponents e-07 and e+25). every hexadecimal literal with a letter digit also in lower case and in alternating case; SHORT hexadecimal literals (every length below the nominal 4/16/20/32 digits of each form, 4 digit patterns x {1,8,F,c}). Oracle: the bit pattern LLVM assigns to the input literal (llvm-as folds `bitcast (T lit to iN)`, read back from llvm-dis) equals the one it assigns to the literal the library prints; LLVM must accept the printed literal; the library must read its own output back to the same literal. distinct = (kind, literal)."
	const batch = 2000
	type job struct {
		k    int
		lits []c10lit
	}
	byKind := map[int][]c10lit{}
	for _, l := range lits {
		byKind[l.kind] = append(byKind[l.kind], l)
	}
	var jobs []job
	for ki := range c10kinds {
		ls := byKind[ki]
		for i := 0; i < len(ls); i += batch {
			j := i + batch
			if j > len(ls) {
				j = len(ls)
			}
			jobs = append(jobs, job{ki, ls[i:j]})
		}
		c.Extra["literals_"+c10kinds[ki].name] = len(ls)
	}
	var mu sync.Mutex
	skipped := 0
	fw.ParallelFor(len(jobs), func(i int) {
		c10batch(c, c10kinds[jobs[i].k], jobs[i].lits, &mu, &skipped)
		c.DistinctN(int64(len(jobs[i].lits)))
	})
	c.Invalid = int64(skipped)
	if fw.HaveLLVM() {
		c10aggregates(c)
	}
	c.Sample(map[string]interface{}{"kind": "half", "literal": "0xH7C01", "class": "nan-signalling", "oracle": "bits(LLVM, input) == bits(LLVM, printed)"})
	c.Sample(map[string]interface{}{"kind": "double", "literal": "4.9406564584124654e-324", "spelling": "decimal"})
	c.Sample(map[string]interface{}{"kind": "fp128", "literal": c10native(c10kinds[4], 1, 1, big.NewInt(1))})
}

func replayC10(c *fw.Check, path string) {
	var cs c10case
	loadReplay(path, &cs)
	for _, k := range c10kinds {
		if k.name == cs.Kind {
			var mu sync.Mutex
			n := 0
			c10batch(c, k, []c10lit{{text: cs.Literal, spelling: cs.Spelling, class: cs.Class}}, &mu, &n)
			f, err := constant.NewFloatFromString(k.typ, cs.Literal)
			if err == nil {
				fmt.Printf("replay: %s %s prints as %s\n", k.name, cs.Literal, f.Ident())
			}
		}
	}
	c.Case("a", "a")
	c.Case("b", "b")
}
