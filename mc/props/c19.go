package props

import (
	"errors"
	"fmt"
	"io"

	"github.com/llir/llvm/asm"
	"github.com/llir/llvm/ir"
	"github.com/llir/llvm/ir/constant"
	"github.com/llir/llvm/ir/types"

	"verif/fw"
)

func init() { Registry["C19"] = Prop{Run: runC19, Replay: replayC19} }

var c19texts = []string{
	// every section of WriteTo.
	`source_filename = "a.c"
target datalayout = "e-m:e-i64:64-f80:128-n8:16:32:64-S128"
target triple = "x86_64-unknown-linux-gnu"
module asm "nop"
module asm "nop2"
%t = type { i32, %u* }
%u = type opaque
$c = comdat any
@g = global i32 42, comdat($c)
@0 = private constant [3 x i8] c"ab\00"
@a = alias i32, i32* @g
@i = ifunc void (), i8* ()* @res
declare void @ext(i32) #0
define i8* @res() {
  ret i8* null
}
define i32 @f(i32 %x, i32) #1 !dbg !3 {
entry:
  %y = add i32 %x, %0
  br label %next
next:
  %1 = mul i32 %y, 2
  call void @ext(i32 %1)
  ret i32 %1
  uselistorder i32 %y, { 0 }
}
attributes #0 = { nounwind }
attributes #1 = { "k"="v" }
!llvm.module.flags = !{!0}
!named = !{!1, !2}
!0 = !{i32 2, !"Debug Info Version", i32 3}
!1 = !{!"s"}
!2 = distinct !{!2, !1}
!3 = distinct !DISubprogram(name: "f", unit: !4, spFlags: DISPFlagDefinition)
!4 = distinct !DICompileUnit(language: DW_LANG_C99, file: !5)
!5 = !DIFile(filename: "a.c", directory: "/")
uselistorder i32* @g, { 1, 0 }
uselistorder_bb @f, %next, { 0 }
`,
	// only a function.
	"define void @f() {\n  ret void\n}\n",
	// only metadata.
	"!n = !{!0}\n!0 = !{}\n",
	// empty module.
	"",
	// one line without trailing sections.
	"target triple = \"x\"\n",
}

// c19writer is the instrumented io.Writer. mode:
//
//	"ok"      never fails; chunk>0 forwards in chunks (recorded as one stream)
//	"partial" the call that crosses limit accepts exactly the bytes up to limit and fails
//	"whole"   the call that crosses limit accepts nothing and fails
//	"late"    the call that crosses limit accepts everything and still returns the error
//	"short"   the call that crosses limit accepts the bytes up to limit and returns nil (contract-breaking short write)
type c19writer struct {
	mode      string
	limit     int
	chunk     int
	data      []byte
	accepted  int64
	calls     int
	failed    bool
	afterFail int
	firstErr  error
	shortDone bool
	strCalls  int
}

var errC19first = errors.New("c19: injected first failure")
var errC19later = errors.New("c19: injected LATER failure (writer was called again after failing)")

func (w *c19writer) Write(p []byte) (int, error) {
	w.calls++
	if w.failed {
		w.afterFail++
		return 0, errC19later
	}
	switch w.mode {
	case "ok":
		if w.chunk > 0 {
			for i := 0; i < len(p); i += w.chunk {
				j := i + w.chunk
				if j > len(p) {
					j = len(p)
				}
				w.data = append(w.data, p[i:j]...)
			}
		} else {
			w.data = append(w.data, p...)
		}
		w.accepted += int64(len(p))
		return len(p), nil
	case "short":
		if !w.shortDone && len(w.data)+len(p) > w.limit {
			n := w.limit - len(w.data)
			w.data = append(w.data, p[:n]...)
			w.accepted += int64(n)
			w.shortDone = true
			return n, nil
		}
		w.data = append(w.data, p...)
		w.accepted += int64(len(p))
		return len(p), nil
	}
	if len(w.data)+len(p) <= w.limit && !(len(w.data)+len(p) == w.limit && false) {
		w.data = append(w.data, p...)
		w.accepted += int64(len(p))
		return len(p), nil
	}
	// this call crosses the limit.
	w.failed = true
	w.firstErr = errC19first
	switch w.mode {
	case "partial":
		n := w.limit - len(w.data)
		w.data = append(w.data, p[:n]...)
		w.accepted += int64(n)
		return n, errC19first
	case "whole":
		return 0, errC19first
	case "late":
		w.data = append(w.data, p...)
		w.accepted += int64(len(p))
		return len(p), errC19first
	}
	panic("bad mode")
}

// c19strWriter additionally implements io.StringWriter (io.WriteString uses it when present).
type c19strWriter struct{ c19writer }

func (w *c19strWriter) WriteString(s string) (int, error) {
	w.strCalls++
	return w.c19writer.Write([]byte(s))
}

type c19case struct {
	Module int    `json:"module"`
	Mode   string `json:"mode"`
	Limit  int    `json:"limit"`
	Chunk  int    `json:"chunk"`
	StrW   bool   `json:"string_writer"`
	N      int64  `json:"returned_n"`
	Err    string `json:"returned_err"`
	Accept int64  `json:"writer_accepted"`
	After  int    `json:"calls_after_failure"`
	What   string `json:"what"`
}

func c19modules() []*ir.Module {
	var ms []*ir.Module
	for i, t := range c19texts {
		m, err := asm.ParseString("c19.ll", t)
		if err != nil {
			fw.Fatalf("C19 base module %d does not parse: %v", i, err)
		}
		ms = append(ms, m)
	}
	// A constructed, never printed module with unnamed values.
	m := ir.NewModule()
	g := m.NewGlobalDef("", constant.NewInt(types.I32, 7))
	f := m.NewFunc("", types.I32, ir.NewParam("", types.I32))
	b := f.NewBlock("")
	v := b.NewLoad(types.I32, g)
	w := b.NewAdd(v, f.Params[0])
	b.NewRet(w)
	ms = append(ms, m)
	return ms
}

func c19one(c *fw.Check, mi int, m *ir.Module, s string, mode string, limit, chunk int, strW bool) {
	var w *c19writer
	var iw io.Writer
	if strW {
		sw := &c19strWriter{c19writer{mode: mode, limit: limit, chunk: chunk}}
		w, iw = &sw.c19writer, sw
	} else {
		w = &c19writer{mode: mode, limit: limit, chunk: chunk}
		iw = w
	}
	var n int64
	var err error
	p := fw.Try(func() { n, err = m.WriteTo(iw) })
	cs := c19case{Module: mi, Mode: mode, Limit: limit, Chunk: chunk, StrW: strW, N: n, Err: fmt.Sprint(err), Accept: w.accepted, After: w.afterFail}
	bad := func(what string) {
		cs.What = what
		c.Violation("writeto/"+mode+"/"+what, cs)
	}
	c.Case(fmt.Sprintf("%d|%s|%d|%d|%v", mi, mode, limit, chunk, strW), fmt.Sprintf("%d|%v|%d", n, err, len(w.data)))
	c.Step(int64(w.calls))
	c.Valid(1)
	if p != "" {
		bad("panic")
		return
	}
	if n != w.accepted {
		bad("count")
	}
	if w.afterFail != 0 {
		bad("write-after-failure")
	}
	switch mode {
	case "ok":
		if err != nil {
			bad("spurious-error")
		}
		if string(w.data) != s {
			bad("bytes")
		}
		if n != int64(len(s)) {
			bad("count-vs-len")
		}
	case "short":
		if err != nil && err != io.ErrShortWrite {
			bad("spurious-error")
		}
	default:
		if limit >= len(s) {
			// the writer never had to fail.
			if err != nil || string(w.data) != s {
				bad("nofail-run")
			}
			return
		}
		if err != errC19first {
			bad("first-error")
		}
		if int(w.accepted) > len(s) || string(w.data) != s[:w.accepted] {
			bad("prefix")
		}
		if mode == "partial" && int(w.accepted) != limit {
			bad("delivered-k")
		}
	}
}

func runC19(c *fw.Check) {
	c.Level = "fault_enumeration"
	c.Rule = "for each of 6 modules (all WriteTo print sections; parsed and constructed-never-printed) and s=String(): a writer failing at EVERY byte offset k in 0..len(s) in 3 failure flavours (partial+error, whole-call error, full-accept+error) x {plain io.Writer, io.StringWriter}, short-write-without-error at every k, chunk sizes {1,2,3,7,64}; after every failing run a clean WriteTo/String on the same module (history: failure must not leak). PLUS standard-library writers passed as themselves: *bytes.Buffer, *strings.Builder, io.Pipe readers giving up after k bytes, real *os.File (good, read-only, closed, /dev/full, and a regular file the kernel stops accepting after exactly k bytes for every k via RLIMIT_FSIZE), acceptance measured from outside. Oracle: n==bytes accepted, err==first writer error (identity), delivered==s[:n], zero calls after failure, clean run == s. distinct = distinct (module,mode,offset,chunk,writer kind)."
	c19allKinds(c)
	ms := c19modules()
	stride := 1
	for mi, m := range ms {
		s := m.String()
		if s2 := m.String(); s2 != s {
			c.Violation("writeto/string-unstable", c19case{Module: mi, What: "String() twice differs"})
		}
		c.Sample(map[string]interface{}{"module": mi, "len": len(s), "text_head": fw.Trunc(s, 120), "fault": "writer fails at each k in 0..len, flavours partial/whole/late/short"})
		c19stdWriters(c, mi, m, s)
		for _, ch := range []int{0, 1, 2, 3, 7, 64} {
			c19one(c, mi, m, s, "ok", 0, ch, false)
			c19one(c, mi, m, s, "ok", 0, ch, true)
		}
		for k := 0; k <= len(s); k += stride {
			for _, mode := range []string{"partial", "whole", "late", "short"} {
				for _, sw := range []bool{false, true} {
					c19one(c, mi, m, s, mode, k, 0, sw)
					// history: a failure must not affect the next call.
					if mode != "short" && (k%7 == 0 || c.Tier == "thorough") {
						c19one(c, mi, m, s, "ok", 0, 0, sw)
					}
				}
			}
			if k%16 == 0 {
				var s3 string
				if p := fw.Try(func() { s3 = m.String() }); p != "" || s3 != s {
					c.Violation("writeto/string-after-failure", c19case{Module: mi, Limit: k, What: "String() after failing WriteTo differs or panics: " + p})
				}
			}
		}
	}
}

// c19allKinds: the writer fails inside a module that holds every construct of the generator
// catalogue (every print section and every kind of line). Offsets: every line boundary and the
// bytes next to it (quick); every byte offset (thorough). Module index 100.
func c19allKinds(c *fw.Check) {
	text := c11base()
	m0, err := asm.ParseString("c19all.ll", text)
	if err != nil {
		fw.Fatalf("C19 all-kinds module does not parse: %v", err)
	}
	s := m0.String()
	var offs []int
	for k := 0; k <= len(s); k++ {
		if c.Deep() || k == 0 || k == len(s) || s[k-1] == '\n' || (k < len(s) && s[k] == '\n') || (k >= 2 && s[k-2] == '\n') {
			offs = append(offs, k)
		}
	}
	const parts = 32
	fw.ParallelFor(parts, func(pi int) {
		m, err := asm.ParseString("c19all.ll", text)
		if err != nil {
			return
		}
		for i := pi; i < len(offs); i += parts {
			k := offs[i]
			for _, mode := range []string{"partial", "whole", "late"} {
				c19one(c, 100, m, s, mode, k, 0, false)
			}
			c19one(c, 100, m, s, "partial", k, 0, true)
			if i%64 == pi%64 {
				c19one(c, 100, m, s, "ok", 0, 0, false)
			}
		}
	})
	c.Extra["all_kinds_module_bytes"] = len(s)
	c.Extra["all_kinds_module_fault_offsets"] = len(offs)
}

func replayC19(c *fw.Check, path string) {
	var cs c19case
	loadReplay(path, &cs)
	if cs.Module == 100 {
		m, err := asm.ParseString("c19all.ll", c11base())
		if err != nil {
			fw.Fatalf("C19 all-kinds module does not parse: %v", err)
		}
		s := m.String()
		c19one(c, 100, m, s, cs.Mode, cs.Limit, cs.Chunk, cs.StrW)
		c19one(c, 100, m, s, "ok", 0, 0, cs.StrW)
		return
	}
	ms := c19modules()
	m := ms[cs.Module]
	s := m.String()
	c19one(c, cs.Module, m, s, cs.Mode, cs.Limit, cs.Chunk, cs.StrW)
	c19one(c, cs.Module, m, s, "ok", 0, 0, cs.StrW)
}
