package props

import (
	"reflect"
	"strings"

	"github.com/llir/llvm/ir"
	"github.com/llir/llvm/ir/types"
)

// c03retype replaces every type of a parsed module (whose types the parser allocated afresh) by a
// type built the way a user of the API builds it: leaves are the PREDECLARED types of package types
// (types.I8, types.Double, types.Void, ...), everything else comes from types.NewPointer, NewArray,
// NewVector, NewStruct, NewFunc; named types are re-created under their name. The construction
// program derived from the retyped module therefore hands the shared predeclared objects to every
// constructor, as user code does.
type c03retyper struct {
	memo map[types.Type]types.Type
}

var c03predeclInt = map[uint64]*types.IntType{1: types.I1, 2: types.I2, 3: types.I3, 4: types.I4, 5: types.I5, 6: types.I6, 7: types.I7, 8: types.I8, 16: types.I16, 32: types.I32, 64: types.I64, 128: types.I128, 256: types.I256, 512: types.I512, 1024: types.I1024}

var c03predeclFloat = map[types.FloatKind]*types.FloatType{types.FloatKindHalf: types.Half, types.FloatKindFloat: types.Float, types.FloatKindDouble: types.Double, types.FloatKindX86_FP80: types.X86_FP80, types.FloatKindFP128: types.FP128, types.FloatKindPPC_FP128: types.PPC_FP128}

func (r *c03retyper) typ(t types.Type) types.Type {
	if t == nil {
		return nil
	}
	if n, ok := r.memo[t]; ok {
		return n
	}
	named := t.Name() != ""
	var out types.Type
	switch t := t.(type) {
	case *types.VoidType:
		if !named {
			out = types.Void
		} else {
			out = &types.VoidType{TypeName: t.TypeName}
		}
	case *types.LabelType:
		if !named {
			out = types.Label
		} else {
			out = &types.LabelType{TypeName: t.TypeName}
		}
	case *types.TokenType:
		if !named {
			out = types.Token
		} else {
			out = &types.TokenType{TypeName: t.TypeName}
		}
	case *types.MetadataType:
		if !named {
			out = types.Metadata
		} else {
			out = &types.MetadataType{TypeName: t.TypeName}
		}
	case *types.MMXType:
		if !named {
			out = types.MMX
		} else {
			out = &types.MMXType{TypeName: t.TypeName}
		}
	case *types.IntType:
		if p, ok := c03predeclInt[t.BitSize]; ok && !named {
			out = p
		} else {
			n := types.NewInt(t.BitSize)
			n.TypeName = t.TypeName
			out = n
		}
	case *types.FloatType:
		if p, ok := c03predeclFloat[t.Kind]; ok && !named {
			out = p
		} else {
			out = &types.FloatType{TypeName: t.TypeName, Kind: t.Kind}
		}
	case *types.PointerType:
		// (an identified struct may be reached through a pointer to itself: the pointee is mapped
		// first, and a struct registers itself in the memo before its fields are mapped)
		n := types.NewPointer(r.typ(t.ElemType))
		if t.AddrSpace != 0 || named {
			// never write into an object the constructor may share
			n = &types.PointerType{TypeName: t.TypeName, ElemType: n.ElemType, AddrSpace: t.AddrSpace}
		}
		out = n
	case *types.VectorType:
		n := types.NewVector(t.Len, r.typ(t.ElemType))
		n.Scalable = t.Scalable
		n.TypeName = t.TypeName
		out = n
	case *types.ArrayType:
		n := types.NewArray(t.Len, r.typ(t.ElemType))
		n.TypeName = t.TypeName
		out = n
	case *types.StructType:
		n := types.NewStruct()
		n.TypeName, n.Packed, n.Opaque = t.TypeName, t.Packed, t.Opaque
		r.memo[t] = n
		for _, f := range t.Fields {
			n.Fields = append(n.Fields, r.typ(f))
		}
		return n
	case *types.FuncType:
		n := &types.FuncType{TypeName: t.TypeName, Variadic: t.Variadic}
		r.memo[t] = n
		n.RetType = r.typ(t.RetType)
		for _, p := range t.Params {
			n.Params = append(n.Params, r.typ(p))
		}
		return n
	default:
		out = t
	}
	r.memo[t] = out
	return out
}

var c03typeIface = reflect.TypeOf((*types.Type)(nil)).Elem()

// c03retype rewrites m in place.
func c03retype(m *ir.Module) {
	r := &c03retyper{memo: map[types.Type]types.Type{}}
	seen := map[uintptr]bool{}
	ours := func(pp string) bool {
		return strings.HasSuffix(pp, "/llvm/ir") || strings.HasSuffix(pp, "/ir/constant") || strings.HasSuffix(pp, "/ir/metadata")
	}
	var visit func(v reflect.Value, depth int)
	visit = func(v reflect.Value, depth int) {
		if depth > 200 {
			return
		}
		switch v.Kind() {
		case reflect.Interface:
			if v.IsNil() {
				return
			}
			if v.Type().Implements(c03typeIface) || v.Type() == c03typeIface {
				if v.CanSet() {
					if t, ok := v.Interface().(types.Type); ok {
						v.Set(reflect.ValueOf(r.typ(t)))
					}
				}
				return
			}
			if t, ok := v.Interface().(types.Type); ok {
				// a type held in a wider interface (value.Value is never a type; metadata fields may be)
				if v.CanSet() && reflect.TypeOf(r.typ(t)).AssignableTo(v.Type()) {
					v.Set(reflect.ValueOf(r.typ(t)))
				}
				return
			}
			visit(v.Elem(), depth+1)
		case reflect.Ptr:
			if v.IsNil() {
				return
			}
			if v.Type().Implements(c03typeIface) {
				if v.CanSet() {
					n := reflect.ValueOf(r.typ(v.Interface().(types.Type)))
					if n.Type().AssignableTo(v.Type()) {
						v.Set(n)
					}
				}
				return
			}
			t := v.Type().Elem()
			if t.Kind() != reflect.Struct || !ours(t.PkgPath()) {
				return
			}
			if seen[v.Pointer()] {
				return
			}
			seen[v.Pointer()] = true
			visit(v.Elem(), depth+1)
		case reflect.Struct:
			if !ours(v.Type().PkgPath()) {
				return
			}
			for i := 0; i < v.NumField(); i++ {
				if v.Type().Field(i).PkgPath != "" {
					continue
				}
				visit(v.Field(i), depth+1)
			}
		case reflect.Slice:
			for i := 0; i < v.Len(); i++ {
				visit(v.Index(i), depth+1)
			}
		case reflect.Map:
			for _, k := range v.MapKeys() {
				e := v.MapIndex(k)
				// map values are not addressable: descend into pointers only
				visit(e, depth+1)
			}
		}
	}
	visit(reflect.ValueOf(m), 0)
}

// c03predeclaredIntact reports the predeclared types that no longer print as declared.
func c03predeclaredIntact() string {
	want := map[types.Type]string{types.Void: "void", types.Label: "label", types.Token: "token", types.Metadata: "metadata", types.MMX: "x86_mmx",
		types.I1Ptr: "i1*", types.I8Ptr: "i8*", types.I16Ptr: "i16*", types.I32Ptr: "i32*", types.I64Ptr: "i64*", types.I128Ptr: "i128*",
		types.Half: "half", types.Float: "float", types.Double: "double", types.X86_FP80: "x86_fp80", types.FP128: "fp128", types.PPC_FP128: "ppc_fp128"}
	for n, p := range c03predeclInt {
		if p.BitSize != n || p.TypeName != "" {
			return "types.I" + p.String()[1:] + " was modified"
		}
	}
	for t, s := range want {
		if t.String() != s || t.Name() != "" {
			return "predeclared type " + s + " now prints as " + t.String()
		}
	}
	return ""
}
