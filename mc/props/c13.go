package props

import (
	"bytes"
	"encoding/json"
	"fmt"
	"os"
	"os/exec"
	"path/filepath"
	"sort"
	"strings"
	"sync"

	"github.com/llir/llvm/asm"
	"github.com/llir/llvm/ir"
	"github.com/llir/llvm/ir/constant"
	"github.com/llir/llvm/ir/enum"
	"github.com/llir/llvm/ir/metadata"
	"github.com/llir/llvm/ir/types"
	"github.com/llir/llvm/ir/value"
	"github.com/llir/llvm/vhook"

	"verif/fw"
	"verif/gen"
	"verif/sched"
)

func init() { Registry["C13"] = Prop{Run: runC13, Replay: replayC13} }

// ---- modules -------------------------------------------------------------------------------------

const c13P1 = `@0 = global i32 1
@1 = constant i32 2
@named = global i32* @0
define i32 @f(i32, i32) !dbg !3 {
  %3 = add i32 %0, SALTN
  %4 = load i32, i32* @1, align SALTAL
  call cc SALTCC void @g()
  %5 = mul i32 %3, %4, !md !1
  ret i32 %5
}
declare cc SALTCC void @g()
!llvm.module.flags = !{!2}
!n = !{!0, !1}
!0 = !{i32 1}
!1 = !{!0, !{i32 7}}
!2 = !{i32 2, !"Debug Info Version", i32 3}
!3 = distinct !DISubprogram(name: "f", unit: !4, spFlags: DISPFlagDefinition)
!4 = distinct !DICompileUnit(language: DW_LANG_C99, file: !5)
!5 = !DIFile(filename: "a.c", directory: "/")
`

const c13P2 = `source_filename = "a b.c"
%"t y" = type { i32, %"t y"*, [2 x float] }
$"c d" = comdat any
@"a b" = global i32 1, section "s \22q\22", comdat($"c d")
@str = private unnamed_addr constant [4 x i8] c"a\22\00\FF"
@fp = global double 1.5
@h = global half 0xH3C00
@big = global i64 u0x8000000000000000
@ce = global i8* getelementptr inbounds ([4 x i8], [4 x i8]* @str, i64 0, i64 1)
@"salt SALTN" = global i64 SALTN, section "sec SALTN", align SALTAL
@blob = constant [300 x i8] c"SALTBLOB"
@"SALTLONGNAME" = global i64 SALTN, section "SALTLONGNAME"
define cc SALTCC i32 @"f n"(i32 %"x y", %"t y"* %p) gc "my gc" {
"en try":
  %"y z" = add nsw i32 %"x y", 1
  %q = getelementptr %"t y", %"t y"* %p, i32 0, i32 0
  %v = load i32, i32* %q, align 4
  %c = icmp slt i32 %v, %"y z"
  br i1 %c, label %"th en", label %else
"th en":
  ret i32 %"y z"
else:
  %s = select i1 %c, i32 1, i32 2
  ret i32 %s
}
attributes #0 = { "k y"="v \5C" }
!n\20m = !{!0}
!0 = !{!"s t\00", i32 7, !"salt SALTN", !"SALTBLOB"}
`

const c13P3 = `@0 = global i32 1
define i32 @1(i32) {
  %2 = add i32 %0, 1
  ret i32 %2
}
define i32 @2(i32) {
  %2 = call i32 @1(i32 %0)
  br label %3
3:
  ret i32 %2
}
`

// c13P5: two functions that hold the address of a block of each other as instruction operands (a
// printer that numbers the functions it refers to while holding its own function's lock takes the
// two function locks in opposite orders in two threads).
const c13P5 = `define i32 @f(i32) {
  %2 = add i32 %0, 1
  br label %bf
bf:
  store i8* blockaddress(@g, %bg), i8** undef
  ret i32 %2
}
define i32 @g(i32) {
  %2 = add i32 %0, 2
  br label %bg
bg:
  store i8* blockaddress(@f, %bf), i8** undef
  ret i32 %2
}
`

func c13parse(text string) *ir.Module {
	m, err := asm.ParseString("c13.ll", text)
	if err != nil {
		fw.Fatalf("C13 module does not parse: %v", err)
	}
	return m
}

// c13K builds the constructed module (never printed).
func c13K() *ir.Module {
	m := ir.NewModule()
	g0 := m.NewGlobalDef("", constant.NewInt(types.I32, 5))
	g1 := m.NewGlobalDef("", constant.NewInt(types.I32, 6))
	md0 := &metadata.Tuple{MetadataID: -1, Fields: []metadata.Field{&metadata.String{Value: "a"}}}
	md1 := &metadata.Tuple{MetadataID: -1, Fields: []metadata.Field{md0}}
	m.MetadataDefs = append(m.MetadataDefs, md0, md1)
	f := m.NewFunc("", types.I32, ir.NewParam("", types.I32))
	b := f.NewBlock("")
	x := b.NewLoad(types.I32, g0)
	y := b.NewLoad(types.I32, g1)
	z := b.NewAdd(x, y)
	z.Metadata = append(z.Metadata, &metadata.Attachment{Name: "md", Node: md1})
	w := b.NewAdd(z, f.Params[0])
	b.NewRet(w)
	// a struct constant whose type is INFERRED from its fields (NewStruct(nil, ...)), printed as a
	// typed operand: its Type() is computed on demand by every printer.
	sc := constant.NewStruct(nil, constant.NewInt(types.I32, 1), constant.NewInt(types.I64, 2))
	sg := m.NewGlobalDef("", constant.NewStruct(nil, constant.NewInt(types.I32, 3), constant.NewStruct(nil, constant.NewInt(types.I8, 4))))
	_ = sg
	h := m.NewFunc("", types.I32)
	hb := h.NewBlock("")
	r := hb.NewCall(f, constant.NewInt(types.I32, 1))
	hb.NewStore(sc, constant.NewUndef(types.NewPointer(types.NewStruct(types.I32, types.I64))))
	hb.NewRet(r)
	return m
}

// c13salt is the execution counter of the worker: values that a process-wide cache could be keyed
// by (calling-convention numbers, names, constants, alignments, strings) are derived from it, so
// that such a cache is cold for them in EVERY explored schedule, not only in the first one.
var c13salt int

func c13salted(text string) string { return c13saltedN(text, c13salt) }

func c13saltedN(text string, n int) string {
	// (SALTBLOB: 300 bytes, SALTLONGNAME: 200 bytes -- sizes beyond any "small value" fast path or
	// "cache only the large ones" threshold)
	r := strings.NewReplacer("SALTCC", fmt.Sprint(64+n%65000), "SALTBLOB", fmt.Sprintf("%0300d", n), "SALTLONGNAME", fmt.Sprintf("long name %0190d", n), "SALTN", fmt.Sprint(n), "SALTAL", fmt.Sprint(n+1))
	return r.Replace(text)
}

type c13mod struct {
	name  string
	mk    func() *ir.Module
	block bool // block / instruction level printers are meaningful (IDs already assigned)
}

// c13generated is a module holding the default variant of every catalogue production the parser
// accepts: printing it runs (nearly) every LLString/Type/Ident path of the library under TSan.
var c13genOnce sync.Once
var c13genText string

func c13generated() *ir.Module {
	c13genOnce.Do(func() {
		var vs []gen.Variant
		for i, e := range gen.Catalogue() {
			for _, v := range gen.Variants(e, i, 0) {
				if v.Solo {
					continue
				}
				if _, errs, pan := parseTry(gen.Module([]gen.Variant{v})); errs == "" && pan == "" {
					vs = append(vs, v)
				}
			}
		}
		c13genText = gen.Module(vs)
	})
	return c13parse(c13genText)
}

var c13mods = []c13mod{
	{"P1-parsed-unnamed", func() *ir.Module { return c13parse(c13salted(c13P1)) }, true},
	{"P2-parsed-named", func() *ir.Module { return c13parse(c13salted(c13P2)) }, true},
	{"P3-parsed-2funcs", func() *ir.Module { return c13parse(c13P3) }, true},
	{"K1-constructed-never-printed", c13K, false},
	{"K2-constructed-printed-once", func() *ir.Module { m := c13K(); _ = m.String(); return m }, true},
	{"P4-generated-all-kinds", c13generated, true},
	{"K3-constructed-from-struct-literals-named", c13K3, true},
	{"P5-parsed-mutual-blockaddress", func() *ir.Module { return c13parse(c13P5) }, true},
}

// c13K3 is a module assembled from struct literals (not through the New* constructors), every
// value named, never printed: the result types of the instructions are not computed yet when the
// printers start, and whatever computes and caches them must do so safely.
func c13K3() *ir.Module {
	m := ir.NewModule()
	g := m.NewGlobalDef("g", constant.NewInt(types.I32, int64(c13salt)))
	a := ir.NewParam("a", types.I32)
	f := m.NewFunc("f", types.I32, a)
	b := f.NewBlock("entry")
	x := &ir.InstAdd{X: a, Y: constant.NewInt(types.I32, int64(c13salt))}
	x.SetName("x")
	y := &ir.InstMul{X: x, Y: x}
	y.SetName("y")
	p := &ir.InstAlloca{ElemType: types.I32}
	p.SetName("p")
	l := &ir.InstLoad{ElemType: types.I32, Src: g}
	l.SetName("l")
	z := &ir.InstXor{X: y, Y: l}
	z.SetName("z")
	c := &ir.InstICmp{Pred: enum.IPredEQ, X: z, Y: x}
	c.SetName("c")
	s := &ir.InstSelect{Cond: c, ValueTrue: z, ValueFalse: y}
	s.SetName("s")
	st := &ir.InstStore{Src: s, Dst: p}
	b.Insts = append(b.Insts, x, y, p, l, z, c, s, st)
	next := f.NewBlock("next")
	b.Term = &ir.TermBr{Target: next}
	ph := &ir.InstPhi{Incs: []*ir.Incoming{{X: s, Pred: b}}}
	ph.SetName("ph")
	cl := &ir.InstCall{Callee: f, Args: []value.Value{ph}}
	cl.SetName("r")
	next.Insts = append(next.Insts, ph, cl)
	next.Term = &ir.TermRet{X: cl}
	return m
}

// ---- thread bodies -------------------------------------------------------------------------------

type c13body struct {
	name  string
	block bool
	run   func(m *ir.Module) string
}

func c13lastDef(m *ir.Module) *ir.Func {
	var f *ir.Func
	for _, x := range m.Funcs {
		if len(x.Blocks) > 0 {
			f = x
		}
	}
	return f
}

func c13firstDef(m *ir.Module) *ir.Func {
	for _, x := range m.Funcs {
		if len(x.Blocks) > 0 {
			return x
		}
	}
	return nil
}

var c13bodies = []c13body{
	{"m.String", false, func(m *ir.Module) string { return m.String() }},
	{"m.WriteTo", false, func(m *ir.Module) string {
		var buf bytes.Buffer
		n, err := m.WriteTo(&buf)
		return fmt.Sprintf("%d %v\n%s", n, err, buf.String())
	}},
	{"f.LLString", false, func(m *ir.Module) string { return c13firstDef(m).LLString() }},
	{"f2.LLString", false, func(m *ir.Module) string { return c13lastDef(m).LLString() }},
	{"g.LLString", true, func(m *ir.Module) string {
		return m.Globals[0].LLString() + "|" + m.Globals[len(m.Globals)-1].LLString()
	}},
	{"b.LLString", true, func(m *ir.Module) string { return c13firstDef(m).Blocks[0].LLString() }},
	{"inst.LLString+Ident+Type", true, func(m *ir.Module) string {
		var sb strings.Builder
		for _, inst := range c13firstDef(m).Blocks[0].Insts {
			sb.WriteString(inst.LLString())
			if v, ok := inst.(interface {
				Ident() string
				Type() types.Type
			}); ok {
				sb.WriteString(" ; " + v.Ident() + " : " + v.Type().String())
			}
			sb.WriteString("\n")
		}
		return sb.String()
	}},
	{"md+named.LLString", true, func(m *ir.Module) string {
		var sb strings.Builder
		for _, md := range m.MetadataDefs {
			sb.WriteString(md.Ident() + " = " + md.LLString() + "\n")
		}
		return sb.String()
	}},
}

type c13scenario struct {
	Name    string
	Mod     int
	Bodies  []int
	Shards  int
	Bound   int // preemption bound; -1 unbounded
	MaxExec int
}

// schedScenario is the property-independent form run by the scheduler worker.
type schedScenario struct {
	Name    string
	Tag     string // prefix of violation signatures (module state / scenario class)
	Bound   int
	MaxExec int
	// Shards > 1 splits the schedule tree of this scenario between that many worker processes.
	Shards int
	// Fresh returns the thread bodies over a fresh instance and their names.
	Fresh func() (bodies []func() string, names []string)
	// Want returns the lone sequential result of every body (each on a fresh instance).
	Want func() []string
}

// schedRegistry maps a property id to its scenario list.
var schedRegistry = map[string]func(quick bool) []schedScenario{}

func init() {
	schedRegistry["C13"] = func(quick bool) []schedScenario {
		var out []schedScenario
		for _, sc := range c13scenarios(quick) {
			sc := sc
			out = append(out, schedScenario{
				Name: sc.Name, Tag: strings.SplitN(c13mods[sc.Mod].name, "-", 2)[0], Bound: sc.Bound, MaxExec: sc.MaxExec, Shards: maxI2(sc.Shards, map[bool]int{true: 8, false: 1}[len(sc.Bodies) > 2]),
				Fresh: func() ([]func() string, []string) {
					c13prelude()
					m := c13mods[sc.Mod].mk()
					var bs []func() string
					var ns []string
					for _, bi := range sc.Bodies {
						bi := bi
						bs = append(bs, func() string { return c13bodies[bi].run(m) })
						ns = append(ns, c13bodies[bi].name)
					}
					return bs, ns
				},
				Want: func() []string { return c13expected(sc) },
			})
		}
		return out
	}
}

func c13scenarios(quick bool) []c13scenario {
	var out []c13scenario
	for mi, md := range c13mods {
		if quick && md.name == "P3-parsed-2funcs" {
			// two functions: unbounded interleavings are large; bounded in quick.
		}
		for i := range c13bodies {
			for j := i; j < len(c13bodies); j++ {
				bi, bj := c13bodies[i], c13bodies[j]
				if (bi.block || bj.block) && !md.block {
					continue
				}
				if md.name == "P2-parsed-named" && (i > 2 || j > 5) {
					continue // named-only module: keep a core set
				}
				if md.name == "P3-parsed-2funcs" && !(i <= 3 && j <= 3) {
					continue
				}
				if md.name == "P5-parsed-mutual-blockaddress" {
					// lock order between the two functions: module || module, module || function,
					// function || other function (thorough: all pairs of the first four printers).
					if !(i <= 3 && j <= 3) || (quick && !((i == 0 && j == 0) || (i == 0 && j == 3) || (i == 2 && j == 3))) {
						continue
					}
				}
				if md.name == "P4-generated-all-kinds" && !(i == 0 && j <= 1) {
					continue // whole-module printers only (about 230 lock operations per thread)
				}
				sc := c13scenario{Name: fmt.Sprintf("%s/%s||%s", md.name, bi.name, bj.name), Mod: mi, Bodies: []int{i, j}, Bound: -1}
				if i <= 1 && j <= 1 {
					// two whole-module printers (each locks every function twice: once when
					// WriteTo numbers all functions, once when the function is printed):
					// preemption bound 3 in quick; in thorough all interleavings for the
					// one-function module P2 (48620) and preemption bound 5 for the others.
					switch {
					case quick:
						sc.Bound = 3
					case md.name == "P2-parsed-named":
						sc.Shards = 8
					default:
						sc.Bound = 5
						sc.Shards = 8
					}
				}
				sc.MaxExec = 400000
				if quick {
					sc.MaxExec = 60000
				}
				if md.name == "P4-generated-all-kinds" {
					// about 230 lock operations per thread and 0.1 s per execution: one preemption
					// in quick; thorough explores two preemptions for String||WriteTo (about 1e5
					// schedules, split over 16 worker processes).
					sc.Bound = 1
					if !quick && j == 1 {
						sc.Bound = 2
						sc.MaxExec = 400000
						sc.Shards = 16
					}
				}
				out = append(out, sc)
			}
		}
		// three threads, preemption-bounded.
		b3 := 2
		if !quick {
			b3 = 3
		}
		if md.name != "P2-parsed-named" && md.name != "P4-generated-all-kinds" {
			out = append(out, c13scenario{Name: md.name + "/m.String||m.String||f.LLString", Mod: mi, Bodies: []int{0, 0, 2}, Bound: b3, MaxExec: 400000})
			if !quick {
				out = append(out, c13scenario{Name: md.name + "/m.String||m.WriteTo||f2.LLString", Mod: mi, Bodies: []int{0, 1, 3}, Bound: b3, MaxExec: 400000})
			}
		}
		// four threads ("any number of goroutines"): two whole-module printers and two function-level
		// printers, one preemption in quick, two in thorough.
		if md.name == "P1-parsed-unnamed" || (!quick && (md.name == "K2-constructed-printed-once" || md.name == "P3-parsed-2funcs")) {
			b4 := 1
			if !quick {
				b4 = 2
			}
			out = append(out, c13scenario{Name: md.name + "/m.String||m.WriteTo||f.LLString||f2.LLString", Mod: mi, Bodies: []int{0, 1, 2, 3}, Bound: b4, MaxExec: 400000, Shards: map[bool]int{true: 1, false: 8}[quick]})
		}
	}
	return out
}

// ---- worker --------------------------------------------------------------------------------------

type c13viol struct {
	Signature string      `json:"signature"`
	Detail    interface{} `json:"detail"`
}

type c13result struct {
	Scenario  string    `json:"scenario"`
	Execs     int       `json:"execs"`
	Points    int64     `json:"points"`
	MaxLen    int       `json:"max_len"`
	Capped    bool      `json:"capped"`
	Bound     int       `json:"bound"`
	Outcomes  int       `json:"outcomes"`
	Viols     []c13viol `json:"violations"`
	Error     string    `json:"error,omitempty"`
	Sample    []int     `json:"sample_schedule,omitempty"`
	RaceBuild bool      `json:"race_build"`
	Threads   int       `json:"threads"`
}

type c13replay struct {
	Scenario string   `json:"scenario"`
	Schedule []int    `json:"schedule"`
	Threads  []int    `json:"thread_order,omitempty"`
	What     string   `json:"what"`
	Want     []string `json:"want,omitempty"`
	Got      []string `json:"got,omitempty"`
	Report   string   `json:"race_report,omitempty"`
}

func schedFindScenario(id, name string) (schedScenario, bool) {
	// the scenario of THIS tier first (bounds differ between tiers), the other tier for replays.
	thorough := argValue("--tier") == "thorough"
	for _, q := range []bool{!thorough, thorough} {
		for _, sc := range schedRegistry[id](q) {
			if sc.Name == name {
				return sc, true
			}
		}
	}
	return schedScenario{}, false
}

// c13expected computes the lone sequential text of every body on a fresh instance.
func c13expected(sc c13scenario) []string {
	var want []string
	for _, bi := range sc.Bodies {
		m := c13mods[sc.Mod].mk()
		want = append(want, c13bodies[bi].run(m))
	}
	return want
}

func schedWorker(sc schedScenario, only []int) c13result {
	res := c13result{Scenario: sc.Name, Bound: sc.Bound, RaceBuild: vhook.RaceEnabled}
	c13salt = 0
	res.Threads = len(sc.Want())
	nexec := 0
	rl := sched.NewRaceLog(os.Getenv("VERIF_RACELOG"))
	outcomes := map[string]bool{}
	seen := map[string]bool{}
	modTag := sc.Tag
	addViol := func(sig string, d c13replay) {
		sig = modTag + "/" + sig
		if seen[sig] || len(res.Viols) > 20 {
			return
		}
		seen[sig] = true
		res.Viols = append(res.Viols, c13viol{sig, d})
	}
	mk := func() ([]func(), func(vhook.Result, vhook.Trace)) {
		// a new salt per execution: caches keyed by value are cold for this module's values. The
		// sequential reference is computed AFTER the concurrent run, on a fresh identical module.
		nexec++
		c13salt = nexec
		salt := nexec
		fb, names := sc.Fresh()
		got := make([]string, len(fb))
		var bodies []func()
		for k := range fb {
			k := k
			bodies = append(bodies, func() { got[k] = fb[k]() })
		}
		after := func(r vhook.Result, tr vhook.Trace) {
			c13salt = salt
			want := sc.Want()
			d := c13replay{Scenario: sc.Name, Schedule: tr.Choice, Threads: tr.Thread}
			if r.Deadlock {
				d.What = "deadlock"
				addViol("deadlock", d)
			}
			for i, p := range r.Panics {
				if p != nil {
					d.What = fmt.Sprintf("thread %d panicked: %v", i, p)
					addViol("panic/"+names[i], d)
				}
			}
			key := strings.Join(got, "\x00")
			outcomes[fmt.Sprint(len(key))+key[:min(len(key), 64)]+fmt.Sprint(hashStr(key))] = true
			for i := range got {
				if got[i] != want[i] && r.Panics[i] == nil && !r.Deadlock {
					d.What = fmt.Sprintf("thread %d (%s) returned a result different from the lone sequential call", i, names[i])
					d.Want, d.Got = []string{want[i]}, []string{got[i]}
					addViol("text/"+names[i], d)
				}
			}
			for _, rc := range rl.Poll() {
				d.What = "data race reported by the Go race detector on this schedule"
				d.Report = rc.Report
				if rc.InLibrary {
					addViol("race/"+c13raceClass(rc.Signature), d)
				} else {
					res.Error = "race report outside the library (harness/scheduler defect): " + fw.Trunc(rc.Report, 1500)
				}
			}
			if res.Sample == nil && len(tr.Choice) > 4 {
				res.Sample = tr.Thread
			}
		}
		return bodies, after
	}
	if only != nil {
		// replay a single schedule.
		bodies, after := mk()
		vhook.SetPrefix(only)
		r := vhook.RunRecorded(bodies)
		tr := vhook.LastTrace()
		if tr.Diverged {
			res.Error = "replay diverged"
		}
		after(r, tr)
		res.Execs = 1
		res.Outcomes = len(outcomes)
		return res
	}
	ex := &sched.Explorer{Bound: sc.Bound, MaxExec: sc.MaxExec, OnSkip: func() { rl.Poll() }}
	if s := argValue("--shard"); s != "" {
		fmt.Sscanf(s, "%d/%d", &ex.Shard, &ex.Shards)
		if ex.MaxExec > 0 {
			ex.MaxExec = ex.MaxExec/ex.Shards + 1
		}
	}
	if err := ex.Explore(mk); err != nil {
		res.Error = err.Error()
	}
	res.Execs, res.Points, res.Capped, res.MaxLen = ex.Execs, ex.Points, ex.Capped, ex.MaxLen
	res.Outcomes = len(outcomes)
	return res
}

func hashStr(s string) uint64 {
	var h uint64 = 1469598103934665603
	for i := 0; i < len(s); i++ {
		h ^= uint64(s[i])
		h *= 1099511628211
	}
	return h
}

// c13freeRun is the non-deciding cross-check: the same bodies on plain goroutines under -race.
func schedFreeRun(sc schedScenario, iters int) (mismatch string) {
	want := sc.Want()
	for it := 0; it < iters; it++ {
		fb, _ := sc.Fresh()
		got := make([]string, len(fb))
		var wg sync.WaitGroup
		for k := range fb {
			k := k
			wg.Add(1)
			go func() { defer wg.Done(); got[k] = fb[k]() }()
		}
		wg.Wait()
		for i := range got {
			if got[i] != want[i] {
				return fmt.Sprintf("free run %d: thread %d text differs", it, i)
			}
		}
	}
	return ""
}

// ---- orchestration -------------------------------------------------------------------------------

func argValue(name string) string {
	for i, a := range os.Args {
		if a == name && i+1 < len(os.Args) {
			return os.Args[i+1]
		}
	}
	return ""
}

func hasArg(name string) bool {
	for _, a := range os.Args {
		if a == name {
			return true
		}
	}
	return false
}

// spawnWorkers runs one worker subprocess per scenario name (GOMAXPROCS=1, own race log) and
// returns their JSON results in order.
func spawnWorkers(id string, names []string, tier string, extra ...string) [][]byte {
	run := os.Getenv("VERIF_RUN")
	if run == "" {
		run = os.TempDir()
	}
	type job struct {
		name  string
		shard string
	}
	var jobs []job
	for _, n := range names {
		k := 1
		if sc, ok := schedFindScenario(id, n); ok && sc.Shards > 1 && len(extra) == 0 {
			k = sc.Shards
		}
		for s := 0; s < k; s++ {
			sh := ""
			if k > 1 {
				sh = fmt.Sprintf("%d/%d", s, k)
			}
			jobs = append(jobs, job{n, sh})
		}
	}
	out := make([][]byte, len(jobs))
	fw.ParallelFor(len(jobs), func(i int) {
		logp := filepath.Join(run, fmt.Sprintf("race.%s.%d", id, i))
		args := append([]string{id, "--tier", tier, "--worker", "--scenario", jobs[i].name}, extra...)
		if jobs[i].shard != "" {
			args = append(args, "--shard", jobs[i].shard)
		}
		cmd := exec.Command(os.Args[0], args...)
		cmd.Env = append(os.Environ(), "GOMAXPROCS=1", "GORACE=halt_on_error=0 log_path="+logp+" history_size=3 atexit_sleep_ms=0", "VERIF_RACELOG="+logp, "GOTRACEBACK=single")
		var so, se bytes.Buffer
		cmd.Stdout, cmd.Stderr = &so, &se
		err := cmd.Run()
		if err != nil && so.Len() == 0 {
			b, _ := json.Marshal(map[string]string{"scenario": jobs[i].name, "error": fmt.Sprintf("worker failed: %v: %s", err, fw.Trunc(se.String(), 2000))})
			out[i] = b
			return
		}
		out[i] = so.Bytes()
	})
	return out
}

// schedWorkerMain is the entry point of a scheduler worker subprocess.
func schedWorkerMain(id string) {
	{
		sc, ok := schedFindScenario(id, argValue("--scenario"))
		if !ok {
			fw.Fatalf("unknown scenario")
		}
		var only []int
		if s := argValue("--schedule"); s != "" {
			json.Unmarshal([]byte(s), &only)
			if only == nil {
				only = []int{}
			}
		}
		var r c13result
		if p := fw.Try(func() { r = schedWorker(sc, only) }); p != "" {
			r = c13result{Scenario: sc.Name, RaceBuild: vhook.RaceEnabled, Execs: 1, Viols: []c13viol{{"panic-outside-schedule@" + fw.PanicSiteOf(p), c13replay{Scenario: sc.Name, What: "library panicked while computing the sequential reference: " + p}}}}
		}
		if hasArg("--free") {
			if mm := schedFreeRun(sc, 200); mm != "" {
				r.Viols = append(r.Viols, c13viol{"free-run/text", c13replay{Scenario: sc.Name, What: mm}})
			}
		}
		b, _ := json.Marshal(r)
		os.Stdout.Write(b)
		os.Exit(0)
	}
}

func runC13(c *fw.Check) {
	if hasArg("--worker") {
		schedWorkerMain("C13")
	}
	c13requireFull()
	scs := c13scenarios(c.Quick())
	names := make([]string, len(scs))
	for i, sc := range scs {
		names[i] = sc.Name
	}
	c.Rule = "controlled scheduler over the real printing code (sync.Mutex replaced by scheduling-point shims through the build overlay; one thread runs at a time; a scheduling point before every Lock and after every Unlock, at thread start and exit): for each scenario = module state x pair (or triple) of printer bodies, a stateless DFS enumerates ALL schedules (2 threads; preemption-bounded where stated) and on EVERY schedule (a) the Go race detector, which does not see the scheduler's own hand-offs, must stay silent and (b) every returned text must equal the lone sequential text on a fresh identical instance; deadlocks and panics are violations. distinct = distinct schedules."
	results := spawnWorkers("C13", names, c.Tier)
	c13merge(c, "C13", results)
}

func c13requireFull() {
	b, err := os.ReadFile(os.Getenv("VERIF_SITES"))
	if err != nil || !strings.Contains(string(b), "sync-import") {
		fw.Fatalf("scheduler checks need the full overlay (sync shims); run through ./check")
	}
	if !vhook.RaceEnabled {
		fw.Fatalf("scheduler checks must be built with -race")
	}
}

func c13merge(c *fw.Check, id string, results [][]byte) {
	type row struct {
		Scenario string `json:"scenario"`
		Execs    int    `json:"schedules"`
		Bound    string `json:"preemption_bound"`
		Capped   bool   `json:"capped"`
		Outcomes int    `json:"distinct_outcomes"`
		MaxLen   int    `json:"max_choice_points"`
		Shards   int    `json:"worker_processes"`
	}
	var rows []row
	totalOutcomes := 0
	for _, b := range results {
		var r c13result
		if err := json.Unmarshal(b, &r); err != nil {
			fw.Fatalf("%s worker output unreadable: %v: %s", id, err, fw.Trunc(string(b), 500))
		}
		if r.Error != "" {
			fw.Fatalf("%s worker %s: %s", id, r.Scenario, r.Error)
		}
		if !r.RaceBuild {
			fw.Fatalf("%s worker not built with -race", id)
		}
		bs := "unbounded (all interleavings)"
		if r.Bound >= 0 {
			bs = fmt.Sprint(r.Bound)
		}
		merged := false
		for k := range rows {
			if rows[k].Scenario == r.Scenario { // another shard of the same scenario
				rows[k].Execs += r.Execs
				rows[k].Capped = rows[k].Capped || r.Capped
				if r.Outcomes > rows[k].Outcomes {
					rows[k].Outcomes = r.Outcomes
				}
				if r.MaxLen > rows[k].MaxLen {
					rows[k].MaxLen = r.MaxLen
				}
				rows[k].Shards++
				merged = true
			}
		}
		if !merged {
			rows = append(rows, row{r.Scenario, r.Execs, bs, r.Capped, r.Outcomes, r.MaxLen, 1})
		}
		c.DistinctN(int64(r.Execs))
		c.Step(r.Points)
		c.Valid(int64(r.Execs))
		totalOutcomes += r.Outcomes
		if r.Capped {
			c.Exhaustive = false
		}
		for _, v := range r.Viols {
			c.Violation(v.Signature, v.Detail)
		}
		if r.Sample != nil && c.NSamples() < 6 {
			c.Sample(map[string]interface{}{"scenario": r.Scenario, "one_schedule_as_thread_ids_at_choice_points": r.Sample})
		}
		c.Outcome(r.Scenario + fmt.Sprint(r.Outcomes))
	}
	sort.Slice(rows, func(i, j int) bool { return rows[i].Scenario < rows[j].Scenario })
	c.Extra["scenarios"] = rows
	c.Extra["scenario_count"] = len(rows)
	c.Extra["distinct_outcomes_total"] = totalOutcomes
	c.Assumptions = append(c.Assumptions,
		"scheduling only at synchronisation operations is complete for data-race-free executions (Go memory model, DRF-SC); the race detector checks every explored schedule",
		"TSan shadow memory (4 cells/word) and history are sufficient for 2-3 short threads",
		"channel operations / sync/atomic in the library would not be scheduling points (mkoverlay reports them; none exist)")
}

func replayC13(c *fw.Check, path string) {
	var d c13replay
	loadReplay(path, &d)
	c13requireFull()
	sj, _ := json.Marshal(d.Schedule)
	res := spawnWorkers("C13", []string{d.Scenario}, c.Tier, "--schedule", string(sj))
	c13merge(c, "C13", res)
	c.Case("replay", "x")
	c.Case("replay2", "y")
}

func maxI2(a, b int) int {
	if a > b {
		return a
	}
	return b
}

// c13prelude runs, before the threads of every execution start, two operations that FAIL and are
// recovered from by the caller -- printing a function whose block has no terminator yet (a debug
// dump of IR under construction; it panics) and parsing a rejected input -- so that process-wide
// state left behind by an error path (a buffer returned to a pool twice, a half-updated cache) is
// in place when the concurrent printers run.
func c13prelude() {
	m := ir.NewModule()
	f := m.NewFunc("prelude", types.Void)
	b := f.NewBlock("entry")
	b.NewAdd(constant.NewInt(types.I32, int64(c13salt)), constant.NewInt(types.I32, 1))
	fw.Try(func() { _ = f.LLString() })
	fw.Try(func() { _ = b.LLString() })
	fw.Try(func() { _ = m.String() })
	fw.Try(func() { asm.ParseString("prelude.ll", "define void @f() {\n  br label %nowhere\n}\n") })
}

// c13raceClass folds one family of race signatures: a lazily computed and cached result type
// (`Typ`, filled by Type()) that is computed by a printer working BELOW function level
// (Block.LLString, an instruction's LLString, a direct Type() query), i.e. outside the function
// lock that Func.AssignIDs holds while it computes the types. Races between two function- or
// module-level printers keep their precise signature.
func c13raceClass(sig string) string {
	i := strings.Index(sig, "/entries=")
	if i < 0 {
		return sig
	}
	write, entries := sig[:i], strings.Split(sig[i+len("/entries="):], "|")
	lazy := false
	for _, w := range strings.Split(strings.TrimPrefix(write, "write="), "+") {
		if strings.HasSuffix(w, ").Type") || w == "ir/types.NewPointer" {
			lazy = true
		}
	}
	if !lazy {
		return sig
	}
	below := false
	for _, e := range entries {
		switch e {
		case "ir.(*Func).LLString", "ir.(*Module).WriteTo", "ir.(*Module).String":
		default:
			below = true
		}
	}
	if below {
		return "lazy-result-type-computed-below-function-level"
	}
	return sig
}
