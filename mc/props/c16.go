package props

import (
	"fmt"
	"reflect"
	"strings"

	"github.com/llir/llvm/asm"
	"github.com/llir/llvm/ir"
	"github.com/llir/llvm/ir/types"

	"verif/fw"
)

func init() { Registry["C16"] = Prop{Run: runC16, Replay: replayC16} }

// td is the harness's own type descriptor (independent of ir/types).
type td struct {
	K        string // void label token metadata mmx int float ptr vec arr struct func named
	Bits     uint64
	FK       string
	Len      uint64
	Scal     bool
	AS       uint64
	Packed   bool
	Variadic bool
	Elem     *td
	Fields   []*td // struct fields / func params
	Name     string
}

// canon is the reference identity: two descriptors denote the same LLVM type iff canon is equal.
func (d *td) canon() string {
	switch d.K {
	case "void", "label", "token", "metadata", "mmx":
		return d.K
	case "int":
		return fmt.Sprintf("i%d", d.Bits)
	case "float":
		return d.FK
	case "named":
		return "%" + d.Name
	case "ptr":
		return fmt.Sprintf("ptr(%s,as%d)", d.Elem.canon(), d.AS)
	case "vec":
		return fmt.Sprintf("vec(%d,%v,%s)", d.Len, d.Scal, d.Elem.canon())
	case "arr":
		return fmt.Sprintf("arr(%d,%s)", d.Len, d.Elem.canon())
	case "struct", "func":
		var fs []string
		for _, f := range d.Fields {
			fs = append(fs, f.canon())
		}
		if d.K == "struct" {
			return fmt.Sprintf("struct(%v;%s)", d.Packed, strings.Join(fs, ","))
		}
		return fmt.Sprintf("func(%s;%v;%s)", d.Elem.canon(), d.Variadic, strings.Join(fs, ","))
	}
	panic("bad td")
}

var c16fk = map[string]types.FloatKind{"half": types.FloatKindHalf, "float": types.FloatKindFloat, "double": types.FloatKindDouble, "fp128": types.FloatKindFP128, "x86_fp80": types.FloatKindX86_FP80, "ppc_fp128": types.FloatKindPPC_FP128}

// build makes a fresh llir type graph for d; named structs come from env.
func (d *td) build(env map[string]*types.StructType) types.Type { return d.buildWith(env, false) }

// buildWith: with predeclared set, leaves are the package's predeclared singleton types (types.I32,
// types.Double, types.Void, ...) -- the documented way to name them -- instead of fresh objects;
// everything above the leaves is still made by the New* constructors plus field assignment, the
// only way the API offers to set an address space, scalability, packedness or variadicity. A
// constructor that hands out a shared object for a common case is then written to by the next
// field assignment.
func (d *td) buildWith(env map[string]*types.StructType, predeclared bool) types.Type {
	if predeclared {
		switch d.K {
		case "void":
			return types.Void
		case "label":
			return types.Label
		case "token":
			return types.Token
		case "metadata":
			return types.Metadata
		case "mmx":
			return types.MMX
		case "int":
			switch d.Bits {
			case 1:
				return types.I1
			case 8:
				return types.I8
			case 16:
				return types.I16
			case 32:
				return types.I32
			case 64:
				return types.I64
			}
		case "float":
			switch d.FK {
			case "half":
				return types.Half
			case "float":
				return types.Float
			case "double":
				return types.Double
			}
		}
	}
	switch d.K {
	case "void":
		return &types.VoidType{}
	case "label":
		return &types.LabelType{}
	case "token":
		return &types.TokenType{}
	case "metadata":
		return &types.MetadataType{}
	case "mmx":
		return &types.MMXType{}
	case "int":
		return types.NewInt(d.Bits)
	case "float":
		return &types.FloatType{Kind: c16fk[d.FK]}
	case "named":
		return env[d.Name]
	case "ptr":
		p := types.NewPointer(d.Elem.buildWith(env, predeclared))
		p.AddrSpace = types.AddrSpace(d.AS)
		return p
	case "vec":
		v := types.NewVector(d.Len, d.Elem.buildWith(env, predeclared))
		v.Scalable = d.Scal
		return v
	case "arr":
		return types.NewArray(d.Len, d.Elem.buildWith(env, predeclared))
	case "struct":
		var fs []types.Type
		for _, f := range d.Fields {
			fs = append(fs, f.buildWith(env, predeclared))
		}
		s := types.NewStruct(fs...)
		s.Packed = d.Packed
		return s
	case "func":
		var ps []types.Type
		for _, f := range d.Fields {
			ps = append(ps, f.buildWith(env, predeclared))
		}
		f := types.NewFunc(d.Elem.buildWith(env, predeclared), ps...)
		f.Variadic = d.Variadic
		return f
	}
	panic("bad td")
}

func tInt(b uint64) *td         { return &td{K: "int", Bits: b} }
func tFlt(k string) *td         { return &td{K: "float", FK: k} }
func tNamed(n string) *td       { return &td{K: "named", Name: n} }
func tPtr(e *td, as uint64) *td { return &td{K: "ptr", Elem: e, AS: as} }

// c16universe enumerates all descriptors of constructor depth <= depth.
func c16universe(depth int, thorough bool) []*td {
	atoms := []*td{{K: "void"}, {K: "label"}, {K: "token"}, {K: "metadata"}, {K: "mmx"}, tInt(1), tInt(8), tInt(32), tFlt("half"), tFlt("float"), tFlt("double"), tNamed("A"), tNamed("B")}
	if thorough {
		atoms = append(atoms, tInt(64), tFlt("fp128"), tFlt("x86_fp80"), tFlt("ppc_fp128"))
	}
	seen := map[string]bool{}
	var all []*td
	add := func(d *td) {
		k := d.canon()
		if !seen[k] {
			seen[k] = true
			all = append(all, d)
		}
	}
	for _, a := range atoms {
		add(a)
	}
	// element pools per level: level-1 constructors draw from E0; level-2 from E0 + R1.
	e0 := []*td{tInt(8), tInt(32), tFlt("float"), tNamed("A")}
	layer := func(elems []*td, retTypes []*td, maxFields int) {
		for _, e := range elems {
			for _, as := range []uint64{0, 1} {
				add(tPtr(e, as))
			}
			for _, l := range []uint64{0, 2} {
				add(&td{K: "arr", Len: l, Elem: e})
			}
			if e.K == "int" || e.K == "float" || e.K == "ptr" {
				for _, l := range []uint64{2, 4} {
					for _, sc := range []bool{false, true} {
						add(&td{K: "vec", Len: l, Scal: sc, Elem: e})
					}
				}
			}
		}
		// field lists of length 0..maxFields.
		lists := [][]*td{nil}
		prev := [][]*td{nil}
		for l := 1; l <= maxFields; l++ {
			var cur [][]*td
			for _, p := range prev {
				for _, e := range elems {
					cur = append(cur, append(append([]*td(nil), p...), e))
				}
			}
			lists = append(lists, cur...)
			prev = cur
		}
		for _, fs := range lists {
			for _, pk := range []bool{false, true} {
				add(&td{K: "struct", Packed: pk, Fields: fs})
			}
			for _, r := range retTypes {
				for _, va := range []bool{false, true} {
					add(&td{K: "func", Elem: r, Variadic: va, Fields: fs})
				}
			}
		}
	}
	rets := []*td{{K: "void"}, tInt(32), tNamed("A")}
	layer(append(append([]*td(nil), e0...), tNamed("B"), tFlt("double")), rets, 2)
	if depth >= 2 {
		r1 := []*td{
			tPtr(tInt(32), 0), tPtr(tInt(32), 1), tPtr(tNamed("A"), 0), tPtr(tNamed("A"), 1), tPtr(tNamed("B"), 0),
			{K: "vec", Len: 2, Elem: tInt(32)}, {K: "vec", Len: 2, Scal: true, Elem: tInt(32)}, {K: "vec", Len: 4, Elem: tInt(32)},
			{K: "arr", Len: 2, Elem: tInt(32)}, {K: "arr", Len: 0, Elem: tInt(32)},
			{K: "struct", Fields: []*td{tInt(32)}}, {K: "struct", Packed: true, Fields: []*td{tInt(32)}}, {K: "struct"},
			{K: "func", Elem: tInt(32)}, {K: "func", Elem: tInt(32), Variadic: true}, {K: "func", Elem: &td{K: "void"}, Fields: []*td{tInt(32)}},
		}
		elems := append(append([]*td(nil), e0...), r1...)
		mf := 2
		layer(elems, append(rets, r1[0], r1[10]), mf)
	}
	if depth >= 3 {
		r2 := []*td{
			tPtr(tPtr(tInt(32), 1), 0), tPtr(&td{K: "func", Elem: tInt(32), Variadic: true}, 0), tPtr(&td{K: "func", Elem: tInt(32)}, 0),
			{K: "vec", Len: 2, Elem: tPtr(tInt(32), 0)}, {K: "vec", Len: 2, Elem: tPtr(tInt(32), 1)}, {K: "vec", Len: 2, Scal: true, Elem: tPtr(tInt(32), 0)},
			{K: "arr", Len: 2, Elem: &td{K: "arr", Len: 2, Elem: tInt(32)}}, {K: "arr", Len: 2, Elem: &td{K: "struct", Fields: []*td{tInt(32)}}},
			{K: "struct", Fields: []*td{{K: "struct", Fields: []*td{tInt(32)}}}}, {K: "struct", Fields: []*td{{K: "struct", Packed: true, Fields: []*td{tInt(32)}}}},
			{K: "struct", Packed: true, Fields: []*td{tPtr(tNamed("A"), 1), tInt(8)}},
		}
		layer(append([]*td{tInt(32), tNamed("A")}, r2...), []*td{{K: "void"}, r2[0]}, 2)
	}
	return all
}

// c16env builds fresh identified structs A and B with the bodies of universe u.
func c16env(u int) map[string]*types.StructType {
	a, b := types.NewStruct(), types.NewStruct()
	a.TypeName, b.TypeName = "A", "B"
	switch u {
	case 0: // both opaque
		a.Opaque, b.Opaque = true, true
	case 1: // plain bodies
		a.Fields = []types.Type{types.I32}
		b.Fields = []types.Type{types.I8, types.I8}
	case 2: // self-recursive A, B = { A }
		a.Fields = []types.Type{types.NewPointer(a), types.I32}
		b.Fields = []types.Type{a}
	case 3: // mutually recursive
		a.Fields = []types.Type{types.NewPointer(b)}
		b.Fields = []types.Type{types.NewPointer(a)}
	case 4: // same body, different names; packed
		a.Fields = []types.Type{types.I32}
		b.Fields = []types.Type{types.I32}
		b.Packed = true
	case 5: // recursion through function and array types
		a.Fields = []types.Type{types.NewPointer(types.NewFunc(types.NewPointer(a), types.NewPointer(b))), types.NewArray(2, types.NewPointer(a))}
		b.Opaque = true
	case 6: // names that read as numbers: %"7" and %"007" are different identified structs
		// (a numeric name is kept with its quotes in TypeName, see asm/type.go getTypeName)
		a.TypeName, b.TypeName = `"7"`, `"007"`
		a.Fields = []types.Type{types.I32}
		b.Fields = []types.Type{types.I32}
	case 7: // a name that begins and ends with a literal quote character next to the name between the quotes
		a.TypeName, b.TypeName = `"a b"`, `a b`
		a.Fields = []types.Type{types.I32}
		b.Fields = []types.Type{types.I32}
	}
	return map[string]*types.StructType{"A": a, "B": b}
}

const c16universes = 8

type c16case struct {
	Universe int    `json:"universe"`
	T        string `json:"t"`
	U        string `json:"u"`
	V        string `json:"v,omitempty"`
	Got      string `json:"got"`
	What     string `json:"what"`
}

// equalSafe calls Equal with panic capture (stack overflow on runaway recursion is fatal in Go and
// is turned into a deterministic crash by the stack cap set in runC16).
// c16nameBelow names every non-struct type strictly below the root of t.
func c16nameBelow(t types.Type, root bool, k *int) {
	if _, ok := t.(*types.StructType); ok {
		if t.Name() != "" {
			return
		}
	} else if !root {
		*k++
		c16setTypeName(t, fmt.Sprintf("inner%d", *k))
	}
	switch t := t.(type) {
	case *types.PointerType:
		c16nameBelow(t.ElemType, false, k)
	case *types.VectorType:
		c16nameBelow(t.ElemType, false, k)
	case *types.ArrayType:
		c16nameBelow(t.ElemType, false, k)
	case *types.StructType:
		for _, f := range t.Fields {
			c16nameBelow(f, false, k)
		}
	case *types.FuncType:
		c16nameBelow(t.RetType, false, k)
		for _, f := range t.Params {
			c16nameBelow(f, false, k)
		}
	}
}

// c16setTypeName sets the TypeName field of a non-struct type.
func c16setTypeName(t types.Type, name string) {
	if _, ok := t.(*types.StructType); ok {
		return
	}
	if f := reflect.ValueOf(t).Elem().FieldByName("TypeName"); f.IsValid() && f.CanSet() {
		f.SetString(name)
	}
}

func equalSafe(t, u types.Type) (eq bool, p string) {
	p = fw.Try(func() { eq = types.Equal(t, u) })
	return
}

func runC16(c *fw.Check) {
	depth := 2
	if !c.Quick() {
		depth = 3
	}
	ds := c16universe(depth, !c.Quick())
	n := len(ds)
	canon := make([]string, n)
	for i, d := range ds {
		canon[i] = d.canon()
	}
	c.Rule = fmt.Sprintf("type universe = all descriptors of constructor depth <=%d over {void,label,token,metadata,x86_mmx,i1,i8,i32,half,float,double, identified structs A,B} with pointers in 2 address spaces, fixed/scalable vectors of 2 lengths, arrays of 2 lengths, literal/packed structs and (variadic) function types of <=2 members; %d universes of bodies for A,B (opaque, plain, self-recursive, mutually recursive, same-body, recursion through function/array, names that read as numbers, a name enclosed in literal quote characters next to the enclosed name). For each universe two independent instance sets X,Y are built and Equal is evaluated on ALL ordered pairs X[i],Y[j] and X[i],X[j] against the descriptor identity (reflexive/symmetric/transitive follow from agreeing with an equivalence on all pairs); in the first universe also against instance sets whose leaves are the predeclared singleton types of package types (built in two orders; the predeclared types must be unchanged afterwards), and against sets whose non-struct types all carry the same type name, and pairwise different names (only structs are identified by name); each type is printed in a module, re-parsed, and the parsed type compared with ALL types; for every type of depth <=2, every node of its graph and every applicable in-place edit (width, kind, address space, length, scalability, packedness, variadicity, naming a literal struct, replacing an element type) the edited graph -- which has been compared before -- is compared with fresh instances of the edited and of the original type. distinct = ordered pairs.", depth, c16universes)
	c.Extra["types"] = n
	for u := 0; u < c16universes; u++ {
		envX, envY := c16env(u), c16env(u)
		X, Y := make([]types.Type, n), make([]types.Type, n)
		for i, d := range ds {
			X[i], Y[i] = d.build(envX), d.build(envY)
		}
		check := func(u int, A, B []types.Type, tag string) {
			suffix := ""
			if strings.Contains(tag, "named") {
				suffix = "/type-aliases"
			}
			if strings.Contains(tag, "below the root") {
				suffix = "/nested-type-aliases"
			}
			fw.ParallelFor(n, func(i int) {
				for j := 0; j < n; j++ {
					want := canon[i] == canon[j]
					got, p := equalSafe(A[i], B[j])
					if p != "" {
						c.Violation("equal/panic/"+ds[i].K+"-"+ds[j].K, c16case{Universe: u, T: canon[i], U: canon[j], What: p})
						continue
					}
					if got != want {
						kind := "conflates"
						if want {
							kind = "separates"
						}
						c.Violation("equal/"+kind+"/"+ds[i].K+"-"+ds[j].K+suffix, c16case{Universe: u, T: canon[i], U: canon[j], Got: fmt.Sprint(got), What: tag + ": Equal disagrees with structural identity"})
					}
					// method form as well
					if got2 := A[i].Equal(B[j]); got2 != got {
						c.Violation("equal/method-vs-func/"+ds[i].K, c16case{Universe: u, T: canon[i], U: canon[j], Got: fmt.Sprint(got2)})
					}
				}
				c.DistinctN(int64(n))
			})
		}
		check(u, X, Y, "X-Y")
		check(u, X, X, "X-X")
		if u == 0 {
			// non-struct types that carry a type NAME (aliases such as `%cb = type void (i32)`)
			// are identified by structure all the same: one instance set in which every
			// non-struct type has the SAME name, one in which all names differ.
			envZ, envW := c16env(u), c16env(u)
			Z, W := make([]types.Type, n), make([]types.Type, n)
			for i, d := range ds {
				Z[i], W[i] = d.build(envZ), d.build(envW)
				if d.K != "named" {
					c16setTypeName(Z[i], "alias")
					c16setTypeName(W[i], fmt.Sprintf("alias%d", i))
				}
			}
			// every non-struct type BELOW the root named (an alias used as element, field,
			// parameter or pointee is still the type it stands for).
			envV := c16env(u)
			V := make([]types.Type, n)
			for i, d := range ds {
				V[i] = d.build(envV)
				k := 0
				c16nameBelow(V[i], true, &k)
			}
			// instances whose leaves are the predeclared singleton types.
			envP, envQ := c16env(u), c16env(u)
			P, Q := make([]types.Type, n), make([]types.Type, n)
			for i, d := range ds {
				P[i] = d.buildWith(envP, true)
			}
			for i := n - 1; i >= 0; i-- { // the other construction order
				Q[i] = ds[i].buildWith(envQ, true)
			}
			check(u, X, P, "X vs instances over the predeclared singleton types")
			check(u, P, P, "instances over the predeclared singleton types")
			check(u, P, Q, "instances over the predeclared singleton types, built in opposite orders")
			// building them must not have changed the predeclared types themselves.
			for _, pr := range []struct {
				t    types.Type
				want string
			}{{types.I1Ptr, "i1*"}, {types.I8Ptr, "i8*"}, {types.I16Ptr, "i16*"}, {types.I32Ptr, "i32*"}, {types.I64Ptr, "i64*"}, {types.I128Ptr, "i128*"}, {types.I1, "i1"}, {types.I8, "i8"}, {types.I32, "i32"}, {types.I64, "i64"}, {types.Half, "half"}, {types.Float, "float"}, {types.Double, "double"}, {types.Void, "void"}, {types.Label, "label"}, {types.Token, "token"}, {types.Metadata, "metadata"}, {types.MMX, "x86_mmx"}} {
				if got := pr.t.String(); got != pr.want {
					c.Violation("equal/predeclared-type-changed/"+pr.want, c16case{Universe: u, T: pr.want, Got: got, What: "a predeclared type of package types prints differently after types were built through the constructors"})
				}
			}
			check(u, X, V, "X vs named non-struct types below the root")
			check(u, X, Z, "X vs same-named non-struct types")
			check(u, Z, Z, "same-named non-struct types")
			check(u, Z, W, "same-named vs differently named non-struct types")
		}
		// print -> parse -> Equal.
		c16roundtrip(c, u, ds, canon, X, envX)
	}
	c16boundaries(c)
	c16mutations(c)
	c.Sample(map[string]string{"t": canon[len(canon)/2], "u": canon[len(canon)/3], "oracle": "Equal(t,u) == (canon(t)==canon(u))"})
	c.Sample(map[string]string{"t": canon[len(canon)-1], "printed_and_reparsed": ds[len(ds)-1].build(c16env(1)).String()})
}

func c16roundtrip(c *fw.Check, u int, ds []*td, canon []string, X []types.Type, env map[string]*types.StructType) {
	m := ir.NewModule()
	m.TypeDefs = append(m.TypeDefs, env["A"], env["B"])
	var idx []int
	for i, d := range ds {
		switch d.K {
		case "void", "label", "token", "metadata":
			continue // not parameter types
		}
		if d.K == "func" {
			continue // function types appear as pointees in the universe
		}
		f := m.NewFunc(fmt.Sprintf("f%d", i), types.Void, ir.NewParam("", X[i]))
		_ = f
		idx = append(idx, i)
	}
	var text string
	if p := fw.Try(func() { text = m.String() }); p != "" {
		c.Violation("roundtrip/print-panic", c16case{Universe: u, What: p})
		return
	}
	var pm *ir.Module
	var err error
	if p := fw.Try(func() { pm, err = asm.ParseString("c16.ll", text) }); p != "" || err != nil {
		c.Violation("roundtrip/parse-fails", c16case{Universe: u, What: fmt.Sprint(p, err), T: fw.Trunc(text, 300)})
		return
	}
	if len(pm.Funcs) != len(idx) {
		c.Violation("roundtrip/func-count", c16case{Universe: u})
		return
	}
	n := len(ds)
	fw.ParallelFor(len(idx), func(k int) {
		i := idx[k]
		pt := pm.Funcs[k].Sig.Params[0]
		for j := 0; j < n; j++ {
			want := canon[i] == canon[j]
			g1, p1 := equalSafe(pt, X[j])
			g2, p2 := equalSafe(X[j], pt)
			if p1 != "" || p2 != "" {
				c.Violation("roundtrip/equal-panic", c16case{Universe: u, T: canon[i], U: canon[j], What: p1 + p2})
				continue
			}
			if g1 != want || g2 != want {
				c.Violation("roundtrip/equal/"+ds[i].K+"-"+ds[j].K, c16case{Universe: u, T: canon[i], U: canon[j], Got: fmt.Sprint(g1, g2), What: "type changed identity through print+parse: printed " + X[i].String() + " parsed " + pt.String()})
			}
		}
		c.DistinctN(int64(n))
		c.Valid(1)
	})
}

func replayC16(c *fw.Check, path string) {
	var cs c16case
	loadReplay(path, &cs)
	ds := c16universe(3, true)
	env := c16env(cs.Universe)
	env2 := c16env(cs.Universe)
	var t, u types.Type
	for _, d := range ds {
		if d.canon() == cs.T {
			t = d.build(env)
		}
		if d.canon() == cs.U {
			u = d.build(env2)
		}
	}
	if t == nil || u == nil {
		fw.Fatalf("replay: types not in universe")
	}
	got, p := equalSafe(t, u)
	fmt.Printf("replay: Equal(%s, %s) = %v %s; reference says %v\n", t, u, got, p, cs.T == cs.U)
	if got != (cs.T == cs.U) || p != "" {
		c.Violation("equal/replay", cs)
	}
	c.Case("a", "a")
	c.Case("b", "b")
}
