package props

import (
	"fmt"
	"strings"

	"verif/fw"
)

// Floating-point literals as ELEMENTS of aggregate constants: the element printer must keep every
// bit (the sign of a zero first of all) whatever stands next to it. For each of the 6 kinds every
// ordered pair of a value set {+-0, +-1, +-smallest subnormal, +-infinity} (in the kind's native
// hexadecimal spelling; for float and double also +-0.0 and +-1.0 in decimal) is written as [a, b],
// <a, b>, {a, b}, [a, b, a] and [[a], [b]]. Oracle: LLVM reads the printed module exactly like the
// input (llvm-as | llvm-dis of both, compared global by global), and the printed module is a
// fixpoint of parse and print.
func c10aggregates(c *fw.Check) {
	type kv struct {
		ty   string
		vals []string
	}
	kinds := []kv{
		{"half", []string{"0xH0000", "0xH8000", "0xH3C00", "0xHBC00", "0xH0001", "0xH8001", "0xH7C00", "0xHFC00"}},
		{"float", []string{"0x0000000000000000", "0x8000000000000000", "0x3FF0000000000000", "0xBFF0000000000000", "0x36A0000000000000", "0xB6A0000000000000", "0x7FF0000000000000", "0xFFF0000000000000", "0.0", "-0.0", "1.0", "-1.0"}},
		{"double", []string{"0x0000000000000000", "0x8000000000000000", "0x3FF0000000000000", "0xBFF0000000000000", "0x0000000000000001", "0x8000000000000001", "0x7FF0000000000000", "0xFFF0000000000000", "0.0", "-0.0", "1.0", "-1.0"}},
		{"x86_fp80", []string{"0xK00000000000000000000", "0xK80000000000000000000", "0xK3FFF8000000000000000", "0xKBFFF8000000000000000", "0xK00000000000000000001", "0xK80000000000000000001", "0xK7FFF8000000000000000", "0xKFFFF8000000000000000"}},
		{"fp128", []string{"0xL00000000000000000000000000000000", "0xL00000000000000008000000000000000", "0xL00000000000000003FFF000000000000", "0xL0000000000000000BFFF000000000000", "0xL00000000000000010000000000000000", "0xL00000000000000018000000000000000", "0xL00000000000000007FFF000000000000", "0xL0000000000000000FFFF000000000000"}},
		{"ppc_fp128", []string{"0xM00000000000000000000000000000000", "0xM80000000000000000000000000000000", "0xM3FF00000000000000000000000000000", "0xMBFF00000000000000000000000000000", "0xM7FF00000000000000000000000000000", "0xMFFF00000000000000000000000000000"}},
	}
	forms := []string{"array", "vector", "struct", "array3", "nested"}
	total := 0
	fw.ParallelFor(len(kinds), func(ki int) {
		k := kinds[ki]
		type cse struct {
			a, b string
			form int
		}
		// values whose SCALAR round trip already loses bits belong to the scalar part of this check
		// (listed findings: ppc_fp128 signs, ...); they are left out here.
		var vals []string
		for _, v := range k.vals {
			one := fmt.Sprintf("@g0 = global %s %s\n", k.ty, v)
			r1, _, okr, _ := fw.AsDis(one)
			m1, e1, p1 := parseTry(one)
			if !okr || e1 != "" || p1 != "" {
				continue
			}
			var o1 string
			if p := fw.Try(func() { o1 = m1.String() }); p != "" {
				continue
			}
			r2, _, ok2, _ := fw.AsDis(o1)
			if ok2 && r1 == r2 {
				vals = append(vals, v)
			}
		}
		var cases []cse
		for _, a := range vals {
			for _, b := range vals {
				for f := range forms {
					cases = append(cases, cse{a, b, f})
				}
			}
		}
		line := func(i int, cs cse) string {
			t := k.ty
			a, b := t+" "+cs.a, t+" "+cs.b
			switch cs.form {
			case 0:
				return fmt.Sprintf("@g%d = global [2 x %s] [%s, %s]\n", i, t, a, b)
			case 1:
				return fmt.Sprintf("@g%d = global <2 x %s> <%s, %s>\n", i, t, a, b)
			case 2:
				return fmt.Sprintf("@g%d = global { %s, %s } { %s, %s }\n", i, t, t, a, b)
			case 3:
				return fmt.Sprintf("@g%d = global [3 x %s] [%s, %s, %s]\n", i, t, a, b, a)
			}
			return fmt.Sprintf("@g%d = global [2 x [1 x %s]] [[1 x %s] [%s], [1 x %s] [%s]]\n", i, t, t, a, t, b)
		}
		var in strings.Builder
		for i, cs := range cases {
			in.WriteString(line(i, cs))
		}
		c.DistinctN(int64(len(cases)))
		text := in.String()
		ref, e0, ok0, _ := fw.AsDis(text)
		if !ok0 {
			fw.Fatalf("C10 aggregates: LLVM rejects the input module for %s: %s", k.ty, fw.Trunc(e0, 400))
		}
		m, errs, pan := parseTry(text)
		if errs != "" || pan != "" {
			c.Violation("aggregate/parse-fails/"+k.ty, c10case{Kind: k.ty, What: "the parser rejects aggregate constants of valid literals: " + fw.Trunc(errs+pan, 300)})
			return
		}
		var out string
		if p := fw.Try(func() { out = m.String() }); p != "" {
			c.Violation("aggregate/print-panics/"+k.ty, c10case{Kind: k.ty, What: p})
			return
		}
		got, e1, ok1, _ := fw.AsDis(out)
		if !ok1 {
			c.Violation("aggregate/llvm-rejects-printed/"+k.ty, c10case{Kind: k.ty, What: fw.Trunc(e1, 300)})
			return
		}
		gl := func(s string) map[string]string {
			o := map[string]string{}
			for _, l := range strings.Split(s, "\n") {
				if strings.HasPrefix(l, "@g") {
					o[l[:strings.Index(l, " ")]] = l
				}
			}
			return o
		}
		a, b := gl(ref), gl(got)
		pl := gl(out)
		for i, cs := range cases {
			n := fmt.Sprintf("@g%d", i)
			c.Case("fagg|"+k.ty+"|"+cs.a+"|"+cs.b+"|"+forms[cs.form], b[n])
			if a[n] != b[n] {
				c.Violation("aggregate/bits-differ/"+k.ty+"/"+forms[cs.form], c10case{Kind: k.ty, Literal: strings.TrimSpace(line(i, cs)), Printed: pl[n], InBits: a[n], OutBits: b[n], What: "LLVM reads the printed aggregate constant differently from the input (an element changed because of its neighbour)"})
				break
			}
		}
		m2, e2, p2 := parseTry(out)
		if e2 != "" || p2 != "" {
			c.Violation("aggregate/reparse-fails/"+k.ty, c10case{Kind: k.ty, What: fw.Trunc(e2+p2, 300)})
			return
		}
		if out2 := m2.String(); out2 != out {
			c.Violation("aggregate/not-a-fixpoint/"+k.ty, c10case{Kind: k.ty, What: "printing the re-parsed module gives another text: " + firstDiff(out, out2)})
		}
		c.Valid(int64(len(cases)))
	})
	for _, k := range kinds {
		total += len(k.vals) * len(k.vals) * len(forms)
	}
	c.Extra["aggregate_element_cases"] = total
}
