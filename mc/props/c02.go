package props

import (
	"fmt"
	"regexp"
	"sort"
	"strings"
	"sync"

	"verif/fw"
	"verif/gen"
	"verif/irwalk"
)

func init() { Registry["C02"] = Prop{Run: runC02, Replay: replayC02} }

var (
	reSimpleName = regexp.MustCompile(`([@%$])([A-Za-z_.][-A-Za-z0-9_.$]*)`)
	reKeywordPct = regexp.MustCompile(`^[0-9]`)
)

// spellings of the same module text.
var c02spellings = []struct {
	name      string
	sameAsRaw bool // the printed result must equal the printed result of the plain spelling
	f         func(vs []gen.Variant) string
}{
	{"plain", true, func(vs []gen.Variant) string { return gen.Module(vs) }},
	{"redundantly-quoted-names", true, func(vs []gen.Variant) string {
		return quoteNames(gen.Module(vs))
	}},
	{"comments-and-whitespace", true, func(vs []gen.Variant) string {
		x := gen.Module(vs)
		var b strings.Builder
		b.WriteString("; leading comment\n\n")
		for _, l := range strings.Split(x, "\n") {
			if strings.Contains(l, `"`) {
				b.WriteString(l + " ; trailing\n")
				continue
			}
			l = strings.ReplaceAll(l, ", ", " ,\t")
			l = strings.ReplaceAll(l, " = ", "  =\t")
			b.WriteString("  " + l + "   ; c\n\n")
		}
		return b.String()
	}},
	{"reversed-debug-info-field-order", true, func(vs []gen.Variant) string {
		return reverseDIFields(gen.Module(vs))
	}},
	{"reversed-top-level-order", false, func(vs []gen.Variant) string {
		r := make([]gen.Variant, len(vs))
		for i, v := range vs {
			f := *v.Frag
			f.Top = reverse(v.Frag.Top)
			f.Tail = reverse(v.Frag.Tail)
			v.Frag = &f
			r[len(vs)-1-i] = v
		}
		return gen.Module(r)
	}},
}

// reverseDIFields reverses the `name: value` field list of every specialised metadata node (the
// order of named fields is free in LLVM assembly; !DIExpression holds positional operands and is
// left alone), recursively for nodes written inline inside a field.
func reverseDIFields(text string) string {
	var out strings.Builder
	i := 0
	for i < len(text) {
		j := strings.Index(text[i:], "!")
		if j < 0 {
			break
		}
		j += i
		k := j + 1
		for k < len(text) && (text[k] >= 'A' && text[k] <= 'Z' || text[k] >= 'a' && text[k] <= 'z') {
			k++
		}
		name := text[j+1 : k]
		if k >= len(text) || text[k] != '(' || !(strings.HasPrefix(name, "DI") || name == "GenericDINode") || name == "DIExpression" || name == "DIArgList" {
			out.WriteString(text[i:k])
			i = k
			continue
		}
		// find the matching parenthesis and the top-level commas.
		depth, inq := 0, false
		end := -1
		var cuts []int
		for p := k; p < len(text); p++ {
			ch := text[p]
			if ch == '"' {
				inq = !inq
			}
			if inq {
				continue
			}
			switch ch {
			case '(', '{', '[':
				depth++
			case ')', '}', ']':
				depth--
				if depth == 0 {
					end = p
				}
			case ',':
				if depth == 1 {
					cuts = append(cuts, p)
				}
			}
			if end >= 0 {
				break
			}
		}
		if end < 0 {
			out.WriteString(text[i:k])
			i = k
			continue
		}
		var fields []string
		prev := k + 1
		for _, cpos := range append(cuts, end) {
			fields = append(fields, strings.TrimSpace(text[prev:cpos]))
			prev = cpos + 1
		}
		for a, b := 0, len(fields)-1; a < b; a, b = a+1, b-1 {
			fields[a], fields[b] = fields[b], fields[a]
		}
		for a := range fields {
			fields[a] = reverseDIFields(fields[a])
		}
		out.WriteString(text[i:k])
		out.WriteString("(" + strings.Join(fields, ", ") + ")")
		i = end + 1
	}
	out.WriteString(text[i:])
	return out.String()
}

// c02anyAccepted reports whether the parser accepts the module in at least one spelling (each
// accepted spelling is an input in C02's quantifier, also when the plain one is rejected).
func c02anyAccepted(vs []gen.Variant) bool {
	for _, sp := range c02spellings {
		if _, errs, pan := parseTry(sp.f(vs)); errs == "" && pan == "" {
			return true
		}
	}
	return false
}

func reverse(s []string) []string {
	out := make([]string, len(s))
	for i, x := range s {
		out[len(s)-1-i] = x
	}
	return out
}

// quoteNames quotes every simple @name / %name / $name outside string literals.
func quoteNames(x string) string {
	var out strings.Builder
	inq := false
	i := 0
	for i < len(x) {
		ch := x[i]
		if ch == '"' {
			inq = !inq
			out.WriteByte(ch)
			i++
			continue
		}
		if !inq && (ch == '@' || ch == '%' || ch == '$') && i+1 < len(x) {
			j := i + 1
			for j < len(x) && (x[j] == '_' || x[j] == '.' || x[j] == '-' || x[j] == '$' || x[j] >= '0' && x[j] <= '9' || x[j] >= 'a' && x[j] <= 'z' || x[j] >= 'A' && x[j] <= 'Z') {
				j++
			}
			name := x[i+1 : j]
			if name != "" && !(name[0] >= '0' && name[0] <= '9') && name[0] != '-' {
				out.WriteString(string(ch) + `"` + name + `"`)
				i = j
				continue
			}
		}
		out.WriteByte(ch)
		i++
	}
	return out.String()
}

// c02test returns "" if the batch satisfies the fixpoint oracle in all spellings.
func c02test(vs []gen.Variant) (kind, what, detail, printed string) {
	var y0 string
	plainRejected := false
	for _, sp := range c02spellings {
		if sp.name == "reversed-top-level-order" && len(vs) == 1 && vs[0].Solo {
			continue // reordering definitions of unnamed @N values renumbers them: not a respelling
		}
		x := sp.f(vs)
		m1, errs, pan := parseTry(x)
		if pan != "" {
			return "parse-panics/" + sp.name, "asm.ParseString panics", pan, ""
		}
		if errs != "" {
			if sp.name == "plain" {
				// not an accepted input: outside C02's quantifier (C01 owns acceptance); the
				// respellings are inputs in their own right.
				plainRejected = true
				continue
			}
			if plainRejected {
				continue
			}
			return "spelling-rejected/" + sp.name, "a respelling of an accepted input is rejected", errs, x
		}
		var y, y2 string
		if p := fw.Try(func() { y = m1.String() }); p != "" {
			return "print-panics/" + sp.name, "String() panics on a parsed module", p, ""
		}
		m2, errs2, pan2 := parseTry(y)
		if pan2 != "" {
			return "reparse-panics/" + sp.name, "parser panics on the printer's output", pan2, y
		}
		if errs2 != "" {
			return "reparse-rejected/" + sp.name, "parser rejects the printer's output", errs2, y
		}
		if p := fw.Try(func() { y2 = m2.String() }); p != "" {
			return "reprint-panics/" + sp.name, "String() panics on the re-parsed module", p, y
		}
		if y2 != y {
			return "not-a-fixpoint/" + sp.name, "print(parse(y)) differs from y", firstDiff(y, y2), y
		}
		if sp.name == "plain" {
			// the translator iterates over Go maps: an order that leaks into the output shows
			// in some parses only, so y is read three more times (C12 explores the orders).
			for rep := 0; rep < 3; rep++ {
				if m3, e3, p3 := parseTry(y); e3 == "" && p3 == "" {
					var y3 string
					if p := fw.Try(func() { y3 = m3.String() }); p == "" && y3 != y {
						return "not-a-fixpoint/" + sp.name, "print(parse(y)) differs from y in one of several parses", firstDiff(y, y3), y
					}
				}
			}
		}
		if d1, d2 := irwalk.Digest(m1), irwalk.Digest(m2); d1 != d2 {
			return "structure-differs/" + sp.name, "parse(x) and parse(print(parse(x))) are not structurally identical", firstDiff(irwalk.Dump(m1), irwalk.Dump(m2)), y
		}
		if sp.name == "plain" {
			y0 = y
		} else if sp.sameAsRaw && !plainRejected && y != y0 {
			return "spelling-sensitive/" + sp.name, "a pure respelling of the input changes the printed module", firstDiff(y0, y), y
		}
	}
	return "", "", "", ""
}

func firstDiff(a, b string) string {
	la, lb := strings.Split(a, "\n"), strings.Split(b, "\n")
	for i := 0; i < len(la) || i < len(lb); i++ {
		var x, y string
		if i < len(la) {
			x = la[i]
		}
		if i < len(lb) {
			y = lb[i]
		}
		if x != y {
			return fmt.Sprintf("first difference at line %d:\n- %s\n+ %s", i+1, x, y)
		}
	}
	return "equal"
}

// bisect runs test on the batch and narrows failures down to single variants; a failure that
// needs several variants of the batch together (state carried from one function/entity to the
// next) is narrowed greedily to a smallest failing combination and reported as such. It returns
// whether a failure was recorded.
func bisect(fs *failSet, vs []gen.Variant, test func(vs []gen.Variant) (kind, what, detail, printed string)) bool {
	if len(vs) == 0 {
		return false
	}
	kind, what, detail, printed := test(vs)
	if kind == "" {
		return false
	}
	if len(vs) == 1 {
		if kind == "split" {
			return false
		}
		fs.add(vs[0], kind, what, detail, printed)
		return true
	}
	h := len(vs) / 2
	a := bisect(fs, vs[:h], test)
	b := bisect(fs, vs[h:], test)
	if a || b || kind == "split" {
		return a || b
	}
	// the batch fails although neither half does: a combination.
	cur := append([]gen.Variant(nil), vs...)
	for i := 0; i < len(cur) && len(cur) > 2; {
		cand := append(append([]gen.Variant(nil), cur[:i]...), cur[i+1:]...)
		if k, w, d, p := test(cand); k != "" && k != "split" {
			cur, kind, what, detail, printed = cand, k, w, d, p
		} else {
			i++
		}
	}
	fs.addCombo(cur, kind, what, detail, printed)
	return true
}

func runC02(c *fw.Check) {
	bound := 2
	if !c.Quick() {
		bound = 3
		c.SetBudget(45 * 60 * 1e9)
	}
	if c.Deep() {
		bound = 4
	}
	entries := gen.Catalogue()
	all, batches := genBatches(entries, bound, 40)
	c.Rule = fmt.Sprintf("same generated module space as C01 (all variants with <=%d deviations of a %d-production catalogue, including constructs LLVM 14 does not know) x spelling alphabet {plain, every name redundantly quoted, comments+irregular whitespace everywhere, reversed field order in every specialised metadata node, reversed top-level order}: y=print(parse(x)) must be accepted, print(parse(y)) must equal y byte for byte, the two parsed modules must have the same structural digest (reflection walk with pointer identity made explicit), and pure respellings must print the same y. The same for all two-variant modules (every ordered pair of productions, every ordered pair of <=1-deviation variants of one production, twins). No LLVM involved. distinct = (variant or pair, spelling).", bound, len(entries))
	c.Extra["variants"] = len(all)
	c.Extra["spellings"] = len(c02spellings)
	fs := &failSet{}
	var mu sync.Mutex
	notAccepted := 0
	fw.ParallelFor(len(batches), func(i int) {
		if c.OverBudget() {
			return
		}
		// drop variants the library does not accept in plain spelling (C01 reports those).
		var acc []gen.Variant
		for _, v := range batches[i] {
			if c02anyAccepted([]gen.Variant{v}) {
				acc = append(acc, v)
			} else {
				mu.Lock()
				notAccepted++
				mu.Unlock()
			}
		}
		bisect(fs, acc, c02test)
		c.DistinctN(int64(len(acc) * len(c02spellings)))
		c.Valid(int64(len(acc) * len(c02spellings)))
	})
	// two-variant modules (state carried from one entity to the next).
	accepted := map[string]bool{}
	pairs := genPairs(entries, true)
	c.Extra["pair_modules"] = len(pairs)
	fw.ParallelFor(len(pairs), func(i int) {
		if c.OverBudget() {
			return
		}
		for _, v := range pairs[i] {
			if _, errs, pan := parseTry(gen.Module([]gen.Variant{v})); errs != "" || pan != "" {
				return
			}
		}
		if _, errs, pan := parseTry(gen.Module(pairs[i])); errs != "" || pan != "" {
			// each part is accepted, the pair is not: acceptance is C01's business when LLVM
			// accepts the pair; recorded here for the evidence only.
			mu.Lock()
			accepted["pair-not-accepted:"+pairs[i][0].Entry+"+"+pairs[i][1].Entry] = true
			mu.Unlock()
			return
		}
		bisect(fs, pairs[i], c02test)
		c.DistinctN(int64(len(c02spellings)))
		c.Valid(int64(len(c02spellings)))
	})
	var pna []string
	for k := range accepted {
		pna = append(pna, k)
	}
	sort.Strings(pna)
	c.Extra["pairs_not_accepted_although_parts_are"] = pna
	c.Extra["inputs_not_accepted_by_parser_skipped"] = notAccepted
	fs.report(c)
	if len(all) > 3 {
		v := all[len(all)/3]
		c.Sample(map[string]interface{}{"entry": v.Entry, "deviations": v.Devs, "spelling": "redundantly-quoted-names", "text": c02spellings[1].f([]gen.Variant{v})})
		c.Sample(map[string]interface{}{"entry": v.Entry, "spelling": "comments-and-whitespace", "text": c02spellings[2].f([]gen.Variant{v})})
	}
}

func replayC02(c *fw.Check, path string) {
	var cs genCase
	loadReplay(path, &cs)
	if vs := variantsOfCase(cs); len(vs) > 0 {
		fmt.Printf("replay %s:\n%s\n", cs.Entry, gen.Module(vs))
		fs := &failSet{}
		bisect(fs, vs, c02test)
		fs.report(c)
	}
	c.Case("a", "a")
	c.Case("b", "b")
}
