package props

// Tables filled by the file that /verif/tools/treegen generates from the tree under test at
// check time (injected through the build overlay as props/zz_treegen.go).

// TreegenAvailable is set by the generated file.
var TreegenAvailable bool

// EnumConst is one typed constant of an enumerated type.
type EnumConst struct {
	Name  string
	Value uint64
}

// EnumType is one enumerated type of ir/enum (or types.FloatKind).
type EnumType struct {
	Name       string
	Unsigned   bool
	String     func(v uint64) string
	FromString func(s string) uint64 // nil if asm/enum has no <Name>FromString
	Consts     []EnumConst
}

// KindInfo is one instruction / terminator / constant-expression struct type.
type KindInfo struct {
	Name string
	New  func() interface{}
}

var (
	EnumTable         []EnumType
	InstKinds         []KindInfo
	TermKinds         []KindInfo
	ExprKinds         []KindInfo
	IRConstructors    []string
	ConstConstructors []string
	BlockConstructors []string
)
