package props

import (
	"fmt"
	"strings"
	"sync"

	"github.com/llir/llvm/ir"
	"github.com/llir/llvm/ir/constant"
	"github.com/llir/llvm/ir/value"

	"verif/fw"
)

func init() { Registry["C07"] = Prop{Run: runC07, Replay: replayC07} }

// ---- reference model of getelementptr typing (written from the LangRef) --------------------------

type gty struct {
	text   string
	kind   string // leaf array vector struct
	fields []*gty // struct fields; or the single element of array/vector
}

func gLeaf(t string) *gty { return &gty{text: t, kind: "leaf"} }
func gArr(n int, e *gty) *gty {
	return &gty{text: fmt.Sprintf("[%d x %s]", n, e.text), kind: "array", fields: []*gty{e}}
}
func gVec(n int, e *gty) *gty {
	return &gty{text: fmt.Sprintf("<%d x %s>", n, e.text), kind: "vector", fields: []*gty{e}}
}
func gStruct(packed bool, fs ...*gty) *gty {
	var s []string
	for _, f := range fs {
		s = append(s, f.text)
	}
	t := "{ " + strings.Join(s, ", ") + " }"
	if packed {
		t = "<" + t + ">"
	}
	return &gty{text: t, kind: "struct", fields: fs}
}

const c07named = "%N = type { i32, [2 x i8] }"

func gNamed() *gty {
	return &gty{text: "%N", kind: "struct", fields: []*gty{gLeaf("i32"), gArr(2, gLeaf("i8"))}}
}

func c07elemTypes(depth int) []*gty {
	l0 := []*gty{gLeaf("i8"), gLeaf("i32")}
	l1 := []*gty{gArr(2, l0[0]), gArr(2, l0[1]), gVec(2, l0[1]), gStruct(false, l0[0], l0[1]), gStruct(true, l0[0], l0[1]), gNamed()}
	out := append(append([]*gty{}, l0...), l1...)
	// a WIDE struct: 13 fields of pairwise different types, so that a struct index read in another
	// base or width (010 as octal, u0xA as decimal, ...) lands on a field of another type.
	out = append(out, gStruct(false, gLeaf("i8"), gLeaf("i16"), gLeaf("i32"), gLeaf("i64"), gLeaf("i128"), gLeaf("half"), gLeaf("float"), gLeaf("double"), gLeaf("i1"), gLeaf("i24"), gVec(2, gLeaf("i16")), gArr(3, gLeaf("i8")), gLeaf("i8*")))
	if depth >= 2 {
		for _, e := range l1 {
			out = append(out, gArr(2, e))
		}
		out = append(out, gStruct(false, l1[0], l0[1]), gStruct(false, l0[1], l1[3]), gStruct(true, l1[5], l1[2]), gStruct(false, l1[5], l1[5]))
	}
	if depth >= 3 {
		l2a := gStruct(false, l0[1], l1[3])
		out = append(out, gArr(2, gArr(2, l1[1])), gArr(2, l2a), gStruct(false, l2a, gArr(2, l1[5])), gStruct(true, gArr(2, l1[3]), l0[0]))
	}
	return out
}

// index forms.
type gidx struct {
	name     string
	text     string // "T V" as written
	vec      int    // 0 scalar, 2 fixed <2 x>, -2 scalable <vscale x 2 x>
	constVal int    // value if usable for struct steps (constant i32, or splat i32 vector); -1 otherwise
	param    string // parameter type if the index is not a constant
	exprOnly bool   // inrange
}

func c07indexForms() []gidx {
	return []gidx{
		{name: "i32-const", text: "i32 1", constVal: 1},
		{name: "i32-zero", text: "i32 0", constVal: 0},
		{name: "i64-const", text: "i64 1", constVal: -1},
		{name: "i8-const", text: "i8 1", constVal: -1},
		{name: "i1-true", text: "i1 true", constVal: -1},
		{name: "i32-zeroinitializer", text: "i32 zeroinitializer", constVal: 0},
		{name: "i64-undef", text: "i64 undef", constVal: -1},
		{name: "i64-poison", text: "i64 poison", constVal: -1},
		{name: "constexpr", text: "i64 ptrtoint (i8* @G to i64)", constVal: -1},
		{name: "inrange", text: "inrange i64 1", constVal: -1, exprOnly: true},
		{name: "nonconst-scalar", text: "i64 %i", constVal: -1, param: "i64"},
		{name: "vec-zeroinitializer", text: "<2 x i64> zeroinitializer", vec: 2, constVal: -1},
		{name: "vec-i32-zeroinitializer", text: "<2 x i32> zeroinitializer", vec: 2, constVal: 0},
		{name: "vec-splat", text: "<2 x i64> <i64 1, i64 1>", vec: 2, constVal: -1},
		{name: "vec-i32-splat", text: "<2 x i32> <i32 1, i32 1>", vec: 2, constVal: 1},
		{name: "vec-nonsplat", text: "<2 x i64> <i64 0, i64 1>", vec: 2, constVal: -1},
		{name: "vec-undef", text: "<2 x i64> undef", vec: 2, constVal: -1},
		{name: "vec-poison", text: "<2 x i64> poison", vec: 2, constVal: -1},
		{name: "nonconst-vector", text: "<2 x i64> %vi", vec: 2, constVal: -1, param: "<2 x i64>"},
		{name: "vec1-i32-splat", text: "<1 x i32> <i32 1>", vec: 1, constVal: 1},
		{name: "vec1-zeroinitializer", text: "<1 x i64> zeroinitializer", vec: 1, constVal: -1},
		{name: "vec1-i64-const", text: "<1 x i64> <i64 1>", vec: 1, constVal: -1},
		// spellings of constant struct indices (LLVM: decimal, also with leading zeros; u0x/s0x hexadecimal).
		{name: "i32-8", text: "i32 8", constVal: 8},
		{name: "i32-09", text: "i32 09", constVal: 9},
		{name: "i32-010", text: "i32 010", constVal: 10},
		{name: "i32-0011", text: "i32 0011", constVal: 11},
		{name: "i32-12", text: "i32 12", constVal: 12},
		{name: "i32-u0xA", text: "i32 u0xA", constVal: 10},
		{name: "vec-i32-splat-010", text: "<2 x i32> <i32 010, i32 010>", vec: 2, constVal: 10},
		{name: "vec-i32-splat-u0xC", text: "<2 x i32> <i32 u0xC, i32 u0xC>", vec: 2, constVal: 12},
		{name: "svec-zeroinitializer", text: "<vscale x 2 x i64> zeroinitializer", vec: -2, constVal: -1},
		{name: "svec-undef", text: "<vscale x 2 x i64> undef", vec: -2, constVal: -1},
		{name: "nonconst-svector", text: "<vscale x 2 x i64> %svi", vec: -2, constVal: -1, param: "<vscale x 2 x i64>"},
	}
}

type c07case struct {
	Elem    string   `json:"elem"`
	Base    string   `json:"base"`
	AS      int      `json:"addrspace"`
	Indices []string `json:"indices"`
	IdxText []string `json:"index_text"`
	Want    string   `json:"expected_type"`
	Inst    string   `json:"instruction"`
	Expr    string   `json:"constant_expression,omitempty"`
	Got     string   `json:"got,omitempty"`
	What    string   `json:"what,omitempty"`
	hasExpr bool
	scalar  bool
}

// c07build enumerates the valid (elem, base, indices) combinations with the model's result type.
func c07build(elems []*gty, maxIdx int) []c07case {
	forms := c07indexForms()
	var out []c07case
	for _, et := range elems {
		for _, baseVec := range []int{0, 2, -2} {
			for _, as := range []int{0, 3} {
				ast := ""
				if as != 0 {
					ast = fmt.Sprintf(" addrspace(%d)", as)
				}
				var rec func(cur *gty, idx []gidx, steps int)
				emit := func(final *gty, idx []gidx) {
					vec := baseVec
					for _, ix := range idx {
						if ix.vec != 0 {
							vec = ix.vec
						}
					}
					ptr := final.text + ast + "*"
					want := ptr
					switch vec {
					case 1:
						want = "<1 x " + ptr + ">"
					case 2:
						want = "<2 x " + ptr + ">"
					case -2:
						want = "<vscale x 2 x " + ptr + ">"
					}
					bt := et.text + ast + "*"
					switch baseVec {
					case 2:
						bt = "<2 x " + bt + ">"
					case -2:
						bt = "<vscale x 2 x " + bt + ">"
					}
					cs := c07case{Elem: et.text, Base: bt, AS: as, Want: want, scalar: vec == 0}
					params := []string{bt + " %p"}
					allConst, anyExprOnly := true, false
					var its, ets []string
					seenP := map[string]bool{}
					for _, ix := range idx {
						cs.Indices = append(cs.Indices, ix.name)
						cs.IdxText = append(cs.IdxText, ix.text)
						if ix.param != "" {
							allConst = false
							pn := ix.text[strings.LastIndex(ix.text, "%"):]
							if !seenP[pn] {
								seenP[pn] = true
								params = append(params, ix.param+" "+pn)
							}
						}
						if ix.exprOnly {
							anyExprOnly = true
						}
						its = append(its, ix.text)
						ets = append(ets, ix.text)
					}
					if !anyExprOnly {
						cs.Inst = fmt.Sprintf("(%s) {\n  %%r = getelementptr %s, %s %%p%s\n  store %s %%r, %s* undef\n  ret void\n}", strings.Join(params, ", "), et.text, bt, c07commaList(its), want, want)
					}
					if allConst {
						basec := "null"
						if baseVec != 0 {
							basec = "zeroinitializer"
						}
						cs.Expr = fmt.Sprintf("%s getelementptr (%s, %s %s%s)", want, et.text, bt, basec, c07commaList(ets))
						cs.hasExpr = true
					}
					if cs.Inst != "" || cs.hasExpr {
						out = append(out, cs)
					}
				}
				rec = func(cur *gty, idx []gidx, steps int) {
					// the empty index list is valid too: the result is the base pointer type itself
					emit(cur, idx)
					if len(idx) == maxIdx {
						return
					}
					for _, f := range forms {
						// vector compatibility: all vector operands share length and scalability.
						vec := baseVec
						for _, ix := range idx {
							if ix.vec != 0 {
								vec = ix.vec
							}
						}
						if f.vec != 0 && vec != 0 && f.vec != vec {
							continue
						}
						if f.exprOnly && len(idx) == 0 {
							continue
						}
						if len(idx) == 0 {
							rec(cur, append(append([]gidx(nil), idx...), f), steps)
							continue
						}
						switch cur.kind {
						case "leaf":
							continue
						case "array", "vector":
							rec(cur.fields[0], append(append([]gidx(nil), idx...), f), steps+1)
						case "struct":
							if f.constVal < 0 || f.constVal >= len(cur.fields) || f.exprOnly {
								continue
							}
							rec(cur.fields[f.constVal], append(append([]gidx(nil), idx...), f), steps+1)
						}
					}
				}
				rec(et, nil, 0)
			}
		}
	}
	return out
}

// c07commaList renders ", a, b" (nothing for an empty list).
func c07commaList(xs []string) string {
	var b strings.Builder
	for _, x := range xs {
		b.WriteString(", " + x)
	}
	return b.String()
}

func c07moduleText(cases []c07case, base int) string {
	var b strings.Builder
	b.WriteString(c07named + "\n@G = global i8 0\n")
	for i, cs := range cases {
		if cs.Inst != "" {
			fmt.Fprintf(&b, "define void @f%d%s\n", base+i, cs.Inst)
		}
		if cs.hasExpr {
			// (a scalable vector cannot be a global initialiser: the expression is an operand)
			fmt.Fprintf(&b, "define void @g%d() {\n  store %s, %s* undef\n  ret void\n}\n", base+i, cs.Expr, cs.Want)
			if cs.scalar && cs.AS == 0 && !strings.Contains(cs.Expr, "inrange") && !strings.Contains(cs.Expr, "@G") {
				// alias whose aliasee is the same expression over a real global (types the alias
				// through the parser's early gep-expression typing).
				pointee := strings.TrimSuffix(cs.Want, "*")
				fmt.Fprintf(&b, "@b%d = global %s zeroinitializer\n@a%d = alias %s, %s\n", base+i, cs.Elem, base+i, pointee, strings.Replace(cs.Expr, " null, ", fmt.Sprintf(" @b%d, ", base+i), 1))
			}
		}
	}
	return b.String()
}

func c07sig(cs c07case) string {
	baseShape := "ptr"
	if strings.HasPrefix(cs.Base, "<vscale") {
		baseShape = "scalable-vector-base"
	} else if strings.HasPrefix(cs.Base, "<") {
		baseShape = "vector-base"
	}
	// the most "special" index form of the list names the class.
	rank := []string{"nonconst-svector", "svec-undef", "svec-zeroinitializer", "vec1-i32-splat", "vec1-i64-const", "vec1-zeroinitializer", "vec-poison", "vec-undef", "vec-zeroinitializer", "vec-i32-zeroinitializer", "vec-nonsplat", "vec-i32-splat", "vec-splat", "nonconst-vector", "inrange", "i64-poison", "i64-undef", "i32-zeroinitializer", "i1-true", "i8-const", "constexpr", "nonconst-scalar", "i64-const", "i32-zero", "i32-const"}
	for _, r := range rank {
		for _, n := range cs.Indices {
			if n == r {
				as := ""
				if cs.AS != 0 {
					as = "/addrspace"
				}
				return baseShape + "/" + r + as
			}
		}
	}
	return baseShape
}

func c07checkBatch(c *fw.Check, cases []c07case, base int, mu *sync.Mutex, invalid *int) {
	// 1. LLVM validates the reference model (drop what LLVM rejects).
	var good []c07case
	var filt func(cs []c07case)
	filt = func(cs []c07case) {
		if len(cs) == 0 {
			return
		}
		ok, e := fw.LLVMAccepts(c07moduleText(cs, 0))
		if ok {
			good = append(good, cs...)
			return
		}
		if len(cs) == 1 {
			if cs[0].Inst != "" && cs[0].hasExpr {
				// try the two forms separately.
				a, b := cs[0], cs[0]
				a.hasExpr, a.Expr = false, ""
				b.Inst = ""
				okA, _ := fw.LLVMAccepts(c07moduleText([]c07case{a}, 0))
				okB, _ := fw.LLVMAccepts(c07moduleText([]c07case{b}, 0))
				if okA {
					good = append(good, a)
				}
				if okB {
					good = append(good, b)
				}
				if okA || okB {
					return
				}
			}
			mu.Lock()
			*invalid++
			if *invalid <= 3 {
				c.Extra[fmt.Sprintf("model_case_rejected_by_llvm_%d", *invalid)] = fw.Trunc(c07moduleText(cs, 0)+" => "+e, 400)
			}
			mu.Unlock()
			return
		}
		h := len(cs) / 2
		filt(cs[:h])
		filt(cs[h:])
	}
	if fw.HaveLLVM() {
		filt(cases)
	} else {
		good = cases
	}
	// 2. the library, case by case inside one module.
	text := c07moduleText(good, base)
	m, errs, pan := parseTry(text)
	report := func(cs c07case, which, got, what string) {
		cs.Got, cs.What = got, what
		c.Violation(which+"/"+c07sig(cs), cs)
	}
	if errs != "" || pan != "" {
		for i, cs := range good {
			_, e1, p1 := parseTry(c07moduleText([]c07case{cs}, base+i))
			if p1 != "" {
				report(cs, "parser-panics", "", p1)
			} else if e1 != "" {
				report(cs, "parser-rejects", "", fw.Trunc(e1, 300))
			}
		}
		return
	}
	funcs := map[string]*ir.Func{}
	for _, f := range m.Funcs {
		funcs[f.Name()] = f
	}
	aliases := map[string]*ir.Alias{}
	for _, a := range m.Aliases {
		aliases[a.Name()] = a
	}
	for i, cs := range good {
		if cs.Inst != "" {
			f := funcs[fmt.Sprintf("f%d", base+i)]
			if f == nil || len(f.Blocks) == 0 || len(f.Blocks[0].Insts) == 0 {
				report(cs, "parser-lost-function", "", "")
				continue
			}
			gi, ok := f.Blocks[0].Insts[0].(*ir.InstGetElementPtr)
			if !ok {
				report(cs, "parser-lost-gep", "", "")
				continue
			}
			var tAsm, tIR string
			p := fw.Try(func() {
				tAsm = gi.Type().String()
				idx := append([]value.Value(nil), gi.Indices...)
				tIR = ir.NewGetElementPtr(gi.ElemType, gi.Src, idx...).Type().String()
			})
			if p != "" {
				report(cs, "ir-constructor-panics", "", p)
			} else {
				if tAsm != cs.Want {
					report(cs, "parser-instruction-type", tAsm, "type attached by the parser to the instruction differs from LLVM's")
				}
				if tIR != cs.Want {
					report(cs, "ir-instruction-type", tIR, "ir.NewGetElementPtr computes a type different from LLVM's")
				}
			}
		}
		if cs.hasExpr {
			gf := funcs[fmt.Sprintf("g%d", base+i)]
			if gf == nil || len(gf.Blocks) == 0 || len(gf.Blocks[0].Insts) == 0 {
				report(cs, "parser-lost-function", "", "")
				continue
			}
			st, ok := gf.Blocks[0].Insts[0].(*ir.InstStore)
			if !ok {
				report(cs, "parser-lost-store", "", "")
				continue
			}
			ge, ok := st.Src.(*constant.ExprGetElementPtr)
			if !ok {
				report(cs, "parser-lost-gep-expr", fmt.Sprintf("%T", st.Src), "")
				continue
			}
			if al := aliases[fmt.Sprintf("a%d", base+i)]; al != nil {
				var ta string
				if p := fw.Try(func() { ta = al.Type().String() }); p != "" || ta != cs.Want {
					report(cs, "alias-gep-type", ta+p, "type of an alias whose aliasee is the getelementptr expression differs from LLVM's")
				}
			}
			var tAsm, tIR string
			p := fw.Try(func() {
				tAsm = ge.Type().String()
				var idx []constant.Constant
				for _, ix := range ge.Indices {
					idx = append(idx, ix)
				}
				tIR = constant.NewGetElementPtr(ge.ElemType, ge.Src, idx...).Type().String()
			})
			// the INSTRUCTION constructor fed with the indices of the parsed constant expression (the
			// parser wraps every constant-expression index in a *constant.Index, with or without
			// inrange): code built from parsed pieces does exactly this.
			var tMix string
			if pm := fw.Try(func() {
				var idx []value.Value
				for _, ix := range ge.Indices {
					idx = append(idx, ix)
				}
				tMix = ir.NewGetElementPtr(ge.ElemType, ge.Src, idx...).Type().String()
			}); pm != "" {
				report(cs, "ir-constructor-panics/wrapped-constant-indices", "", pm)
			} else if tMix != cs.Want {
				report(cs, "ir-instruction-type/wrapped-constant-indices", tMix, "ir.NewGetElementPtr over the (wrapped) indices of the parsed constant expression computes a type different from LLVM's")
			}
			if p != "" {
				report(cs, "constant-constructor-panics", "", p)
			} else {
				if tAsm != cs.Want {
					report(cs, "parser-expression-type", tAsm, "type attached by the parser to the constant expression differs from LLVM's")
				}
				if tIR != cs.Want {
					report(cs, "constant-expression-type", tIR, "constant.NewGetElementPtr computes a type different from LLVM's")
				}
			}
		}
	}
	// 3. the printed module must be accepted by LLVM (uses at the reported types).
	var printed string
	if p := fw.Try(func() { printed = m.String() }); p != "" {
		c.Violation("print-panics", c07case{What: p})
		return
	}
	if fw.HaveLLVM() {
		if ok, e := fw.LLVMAccepts(printed); !ok && !fw.IsToolCrash(e) {
			// attribute.
			for i, cs := range good {
				m1, e1, p1 := parseTry(c07moduleText([]c07case{cs}, base+i))
				if e1 != "" || p1 != "" {
					continue
				}
				var pr string
				fw.Try(func() { pr = m1.String() })
				if ok1, el := fw.LLVMAccepts(pr); !ok1 {
					report(cs, "llvm-rejects-printed", pr, fw.Trunc(el, 200))
				}
			}
		}
	}
	c.Valid(int64(len(good)))
}

func runC07(c *fw.Check) {
	depth, maxIdx := 2, 2
	if !c.Quick() {
		depth, maxIdx = 3, 3
		c.SetBudget(50 * 60 * 1e9)
	}
	if c.Deep() {
		maxIdx = 4
		c.SetBudget(40 * 60 * 1e9)
	}
	elems := c07elemTypes(depth)
	cases := c07build(elems, maxIdx)
	c.Rule = fmt.Sprintf("source element types = %d nestings (depth <=%d) of [2 x T], <2 x T>, literal/packed structs and a named struct over {i8, i32}; base = T*, <2 x T*>, <vscale x 2 x T*> in address spaces 0 and 3; ALL index lists of length <=%d over 33 index forms (i32/i64/i8 constants, struct indices 8..12 of a 13-field struct spelled 8, 09, 010, 0011, 12, u0xA and as splats <i32 010, i32 010>, <i32 u0xC, i32 u0xC>, i1 true, scalar zeroinitializer, undef, poison, constant expression, inrange, non-constant scalar, fixed vector zeroinitializer/splat/non-splat/undef/poison/non-constant, scalable vector zeroinitializer/undef/non-constant) that a 30-line reference model of LLVM's typing rule deems valid; llvm-as confirms the model on every case (rejected cases are dropped and counted). For each case the types computed by the parser for the instruction, by the parser for the constant expression, by ir.NewGetElementPtr and by constant.NewGetElementPtr must all spell LLVM's result type, and llvm-as must accept the printed module (every result used at its reported type). distinct = (element type, base, index list).", len(elems), depth, maxIdx-0)
	c.Extra["cases"] = len(cases)
	c.Extra["element_types"] = len(elems)
	const batch = 250
	nb := (len(cases) + batch - 1) / batch
	var mu sync.Mutex
	invalid := 0
	fw.ParallelFor(nb, func(i int) {
		if c.OverBudget() {
			return
		}
		lo, hi := i*batch, (i+1)*batch
		if hi > len(cases) {
			hi = len(cases)
		}
		c07checkBatch(c, cases[lo:hi], lo, &mu, &invalid)
		c.DistinctN(int64(hi - lo))
	})
	c.Invalid = int64(invalid)
	if len(cases) > 100 {
		c.Sample(cases[len(cases)/2])
		c.Sample(cases[len(cases)-1])
	}
}

func replayC07(c *fw.Check, path string) {
	var cs c07case
	loadReplay(path, &cs)
	cs.hasExpr = cs.Expr != ""
	fmt.Printf("replay:\n%s\nexpected %s\n", c07moduleText([]c07case{cs}, 0), cs.Want)
	var mu sync.Mutex
	n := 0
	c07checkBatch(c, []c07case{cs}, 0, &mu, &n)
	c.Case("a", "a")
	c.Case("b", "b")
}
