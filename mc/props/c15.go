package props

import (
	_ "embed"
	"fmt"
	"reflect"
	"regexp"
	"sort"
	"strings"
	"sync"
	"unsafe"

	"github.com/llir/llvm/asm"
	"github.com/llir/llvm/ir"
	"github.com/llir/llvm/ir/constant"
	"github.com/llir/llvm/ir/types"
	"github.com/llir/llvm/ir/value"

	"verif/fw"
	"verif/gen"
)

//go:embed data/c15.ll
var c15text string

func init() { Registry["C15"] = Prop{Run: runC15, Replay: replayC15} }

var valueIface = reflect.TypeOf((*value.Value)(nil)).Elem()

// c15slots finds, by reflection, the address of every non-nil value.Value-typed slot inside the
// instruction (through helper structs of package ir that are not values themselves: Case, Incoming,
// Clause, OperandBundle ...). A field added to an instruction later is found without editing this.
func c15slots(x interface{}) []unsafe.Pointer {
	var out []unsafe.Pointer
	var walk func(v reflect.Value, depth int)
	walk = func(v reflect.Value, depth int) {
		if depth > 4 {
			return
		}
		t := v.Type()
		switch t.Kind() {
		case reflect.Interface:
			if t == valueIface {
				if !v.IsNil() {
					out = append(out, v.Addr().UnsafePointer())
				}
			}
		case reflect.Slice:
			for i := 0; i < v.Len(); i++ {
				walk(v.Index(i), depth)
			}
		case reflect.Ptr:
			if v.IsNil() {
				return
			}
			et := t.Elem()
			if et.Kind() == reflect.Struct && strings.HasSuffix(et.PkgPath(), "llir/llvm/ir") && !t.Implements(valueIface) {
				walk(v.Elem(), depth+1)
			}
		case reflect.Struct:
			if strings.HasSuffix(t.PkgPath(), "llir/llvm/ir") {
				for i := 0; i < v.NumField(); i++ {
					walk(v.Field(i), depth)
				}
			}
		}
	}
	rv := reflect.ValueOf(x)
	if rv.Kind() == reflect.Ptr {
		walk(rv.Elem(), 0)
	}
	return out
}

type c15case struct {
	Func  string `json:"func"`
	Kind  string `json:"kind"`
	Inst  string `json:"inst"`
	Slot  int    `json:"slot,omitempty"`
	After string `json:"after,omitempty"`
	What  string `json:"what"`
}

type c15user struct {
	fn   *ir.Func
	blk  *ir.Block
	user value.User
	ll   func() string
	kind string
	term ir.Terminator
}

func c15users(m *ir.Module) []c15user {
	var us []c15user
	for _, f := range m.Funcs {
		for _, b := range f.Blocks {
			for _, inst := range b.Insts {
				inst := inst
				if u, ok := inst.(value.User); ok {
					us = append(us, c15user{f, b, u, inst.LLString, strings.TrimPrefix(fmt.Sprintf("%T", inst), "*ir."), nil})
				}
			}
			t := b.Term
			us = append(us, c15user{f, b, t, t.LLString, strings.TrimPrefix(fmt.Sprintf("%T", t), "*ir."), t})
		}
	}
	return us
}

func ptrSet(ps []unsafe.Pointer) map[unsafe.Pointer]bool {
	m := map[unsafe.Pointer]bool{}
	for _, p := range ps {
		m[p] = true
	}
	return m
}

// c15checkSlots: Operands() (non-nil entries) == reflective slots, no duplicates.
func c15checkSlots(c *fw.Check, u c15user, after string) {
	var ops []*value.Value
	if p := fw.Try(func() { ops = u.user.Operands() }); p != "" {
		c.Violation("operands/panic/"+u.kind, c15case{Func: u.fn.Name(), Kind: u.kind, After: after, What: p})
		return
	}
	want := ptrSet(c15slots(u.user))
	got := map[unsafe.Pointer]bool{}
	for _, op := range ops {
		if op == nil || *op == nil {
			continue
		}
		p := unsafe.Pointer(op)
		if got[p] {
			c.Violation("operands/duplicate-slot/"+u.kind+after, c15case{Func: u.fn.Name(), Kind: u.kind, Inst: u.ll(), After: after, What: "Operands() lists the same slot twice"})
		}
		got[p] = true
	}
	missing, stale := 0, 0
	for p := range want {
		if !got[p] {
			missing++
		}
	}
	for p := range got {
		if !want[p] {
			stale++
		}
	}
	if missing > 0 {
		c.Violation("operands/missing-slot/"+u.kind+after, c15case{Func: u.fn.Name(), Kind: u.kind, Inst: u.ll(), After: after, What: fmt.Sprintf("%d value-typed slot(s) of the instruction are not exposed by Operands() (have %d, reflection finds %d)", missing, len(got), len(want))})
	}
	if stale > 0 {
		c.Violation("operands/not-live/"+u.kind+after, c15case{Func: u.fn.Name(), Kind: u.kind, Inst: u.ll(), After: after, What: fmt.Sprintf("%d entr(ies) of Operands() do not address a field of the instruction (copies or stale cache)", stale)})
	}
}

var c15tokRe = regexp.MustCompile(`[%@][-a-zA-Z$._0-9]+|%"[^"]*"|@"[^"]*"`)

// c15repl makes a uniquely named replacement value of the same type (a block for labels).
func c15repl(old value.Value, name string) value.Value {
	if a, ok := old.(*ir.Arg); ok {
		return &ir.Arg{Value: c15repl(a.Value, name), Attrs: a.Attrs}
	}
	if _, ok := old.(*ir.Block); ok {
		return ir.NewBlock(name)
	}
	return ir.NewParam(name, old.Type())
}

func c15ident(v value.Value) string {
	if a, ok := v.(*ir.Arg); ok {
		return a.Value.Ident()
	}
	return v.Ident()
}

// c15othersText is the text of every instruction and terminator of u's function except u itself.
func c15othersText(u c15user) string {
	var b strings.Builder
	fw.Try(func() {
		for _, blk := range u.fn.Blocks {
			for _, in := range blk.Insts {
				if interface{}(in) != interface{}(u.user) {
					b.WriteString(in.LLString() + "\n")
				}
			}
			if blk.Term != nil && interface{}(blk.Term) != interface{}(u.user) {
				b.WriteString(blk.Term.LLString() + "\n")
			}
		}
	})
	return b.String()
}

// c15checkWrites: writing a replacement through each slot changes exactly one occurrence.
func c15checkWrites(c *fw.Check, u c15user) int {
	ops := u.user.Operands()
	n := 0
	for i, op := range ops {
		if op == nil || *op == nil {
			continue
		}
		old := *op
		s0 := u.ll()
		others0 := c15othersText(u)
		name := fmt.Sprintf("REPL%d", i)
		rep := c15repl(old, name)
		*op = rep
		var s1 string
		p := fw.Try(func() { s1 = u.ll() })
		others1 := c15othersText(u)
		*op = old
		if others0 != others1 {
			c.Violation("write/changes-another-user/"+u.kind, c15case{Func: u.fn.Name(), Kind: u.kind, Inst: s0, Slot: i, What: "writing through the slot changed the text of ANOTHER instruction of the function: " + firstDiff(others0, others1)})
		}
		s2 := u.ll()
		n++
		cs := c15case{Func: u.fn.Name(), Kind: u.kind, Inst: s0, Slot: i}
		if p != "" {
			cs.What = "LLString panics after a same-typed write through the slot: " + p
			c.Violation("write/panic/"+u.kind, cs)
			continue
		}
		if s2 != s0 {
			cs.What = "restoring the slot does not restore the text: " + s2
			c.Violation("write/not-restored/"+u.kind, cs)
		}
		// s1 must be s0 with exactly one occurrence of the old operand token replaced.
		oldTok, newTok := c15ident(old), "%"+name
		ok := false
		if !strings.HasPrefix(oldTok, "@") && !strings.HasPrefix(oldTok, "%") {
			// constant literal / inline asm: replace one textual occurrence.
			for idx := 0; ; {
				j := strings.Index(s0[idx:], oldTok)
				if j < 0 {
					break
				}
				if s0[:idx+j]+newTok+s0[idx+j+len(oldTok):] == s1 {
					ok = true
					break
				}
				idx += j + 1
			}
		} else {
			for _, loc := range c15tokRe.FindAllStringIndex(s0, -1) {
				if s0[loc[0]:loc[1]] == oldTok && s0[:loc[0]]+newTok+s0[loc[1]:] == s1 {
					ok = true
					break
				}
			}
		}
		if !ok {
			cs.What = fmt.Sprintf("writing %s through slot %d (holding %s) gives %q: not exactly that one operand replaced", newTok, i, oldTok, s1)
			c.Violation("write/not-exactly-one/"+u.kind, cs)
		}
	}
	return n
}

var c15labelRe = regexp.MustCompile(`label (%[-a-zA-Z$._0-9]+|%"[^"]*")`)

// c15checkSuccs: Succs() == the `label %x` targets of the printed terminator, in order, all blocks
// of the same function.
func c15checkSuccs(c *fw.Check, u c15user, after string) {
	if u.term == nil {
		return
	}
	var succs []*ir.Block
	if p := fw.Try(func() { succs = u.term.Succs() }); p != "" {
		c.Violation("succs/panic/"+u.kind+after, c15case{Func: u.fn.Name(), Kind: u.kind, After: after, What: p})
		return
	}
	text := u.ll()
	targets := text
	if u.kind == "TermInvoke" || u.kind == "TermCallBr" {
		// label-typed ARGUMENTS and operand-bundle inputs are operands, not branch targets: the
		// targets are what follows the call part.
		if i := strings.LastIndex(text, "to label "); i >= 0 {
			targets = text[i+3:]
		}
	}
	var want []string
	for _, m := range c15labelRe.FindAllStringSubmatch(targets, -1) {
		want = append(want, m[1])
	}
	var got []string
	inFunc := map[*ir.Block]bool{}
	for _, b := range u.fn.Blocks {
		inFunc[b] = true
	}
	foreign := false
	for _, b := range succs {
		got = append(got, b.Ident())
		if !inFunc[b] && after != "/after-slot-write" {
			foreign = true
		}
	}
	if strings.Join(want, ",") != strings.Join(got, ",") {
		c.Violation("succs/differs-from-targets/"+u.kind+after, c15case{Func: u.fn.Name(), Kind: u.kind, Inst: text, After: after, What: fmt.Sprintf("Succs()=%v but branch targets are %v", got, want)})
	}
	if foreign {
		c.Violation("succs/foreign-block/"+u.kind+after, c15case{Func: u.fn.Name(), Kind: u.kind, Inst: text, After: after, What: "a successor is not a block of the same function"})
	}
}

var c15twinRe = regexp.MustCompile(`^  (%[-a-zA-Z$._0-9]+) = ([a-z_]+) `)

// c15twinned doubles every instruction of the catalogue inside its function: the copy has the same
// text (same callee, arguments, operand bundles, constant expressions, metadata) and a result name
// of its own. Two users with textually identical parts in one function must still own their
// operand slots (a translator that shares sub-objects between equal-looking instructions shows
// here). Pads, phis' positions and terminators keep the block structure valid.
func c15twinned(text string) string {
	var b strings.Builder
	skip := map[string]bool{"landingpad": true, "catchpad": true, "cleanuppad": true, "catchswitch": true, "invoke": true, "callbr": true, "alloca": false}
	voidOps := map[string]bool{"store": true, "fence": true, "call": true, "tail": true, "musttail": true, "notail": true}
	for _, l := range strings.Split(text, "\n") {
		b.WriteString(l + "\n")
		if m := c15twinRe.FindStringSubmatch(l); m != nil {
			if skip[m[2]] || strings.Contains(l, "musttail") {
				continue
			}
			b.WriteString("  " + m[1] + ".twin = " + l[len(m[0])-len(m[2])-1:] + "\n")
			continue
		}
		f := strings.Fields(l)
		if strings.HasPrefix(l, "  ") && len(f) > 0 && voidOps[f[0]] && !strings.Contains(l, "musttail") {
			b.WriteString(l + "\n")
		}
	}
	return b.String()
}

func c15parse() *ir.Module {
	text := c15twinned(c15text)
	if fw.HaveLLVM() {
		if ok, e := fw.LLVMAccepts(text); !ok {
			fw.Fatalf("C15 twinned catalogue is not valid LLVM: %s", e)
		}
	}
	m, err := asm.ParseString("c15.ll", text)
	if err != nil {
		fw.Fatalf("C15 catalogue does not parse: %v", err)
	}
	return m
}

// c15mutateLists replaces list elements / grows lists (after a first Operands() call, so that a
// cached slot list would go stale), returning a description or "".
func c15mutateLists(u c15user) string {
	rv := reflect.ValueOf(u.user).Elem()
	var done []string
	for i := 0; i < rv.NumField(); i++ {
		f := rv.Field(i)
		ft := rv.Type().Field(i)
		if f.Kind() != reflect.Slice || !f.CanSet() {
			continue
		}
		et := f.Type().Elem()
		switch {
		case et.Kind() == reflect.Ptr && et.Elem().Kind() == reflect.Struct && strings.HasSuffix(et.Elem().PkgPath(), "llir/llvm/ir") && !et.Implements(valueIface) && f.Len() >= 1:
			// replace the LAST element by a fresh copy (new pointer, same contents).
			last := f.Index(f.Len() - 1)
			cp := reflect.New(et.Elem())
			cp.Elem().Set(last.Elem())
			last.Set(cp)
			done = append(done, "replaced last "+ft.Name)
		case et == valueIface && f.Len() >= 1 && ft.Name != "Indices":
			// grow the slice so that it is reallocated (same contents afterwards).
			grown := reflect.MakeSlice(f.Type(), f.Len(), f.Len()+4)
			reflect.Copy(grown, f)
			f.Set(grown)
			done = append(done, "reallocated "+ft.Name)
		}
	}
	return strings.Join(done, "; ")
}

func runC15(c *fw.Check) {
	if !TreegenAvailable {
		fw.Fatalf("C15 needs the treegen table (build through ./check)")
	}
	c.Rule = "catalogue module with every instruction and terminator kind (kinds listed from the CURRENT source by go/types; a kind without an instance is a machinery error) in all variants of optional operands and list lengths 0,1,2 (args, bundles x inputs, incomings, cases, clauses, handlers, indices, targets), parsed by asm, plus constructor-built terminators/instructions whose argument slices are later mutated by the caller. For EVERY user: Operands() == set of value-typed slots found by reflection (before and after list-element replacement / reallocation), a uniquely named same-typed replacement written through EVERY slot changes exactly that one occurrence in LLString(), changes the text of NO other instruction of the function (every instruction of the catalogue has a textual twin in its function) and restores, Succs() == printed branch targets in order and inside the function (also after writing another block through every target slot); for EVERY value of every function, substituting it through the slots of all users leaves no occurrence. distinct = (user, slot, oracle)."
	c15purity(c, c15twinned(c15text), "")
	m := c15parse()
	us := c15users(m)
	seenKinds := map[string]int{}
	for _, u := range us {
		seenKinds[u.kind]++
	}
	var missing []string
	for _, k := range append(append([]KindInfo(nil), InstKinds...), TermKinds...) {
		if seenKinds[k.Name] == 0 {
			missing = append(missing, k.Name)
		}
		if _, ok := k.New().(value.User); !ok {
			fw.Fatalf("kind %s does not implement value.User", k.Name)
		}
	}
	if len(missing) > 0 {
		fw.Fatalf("C15 catalogue has no instance of kind(s) %v (instruction added to the library? extend mc/props/data/c15.ll)", missing)
	}
	c.Extra["kinds"] = len(InstKinds) + len(TermKinds)
	c.Extra["users"] = len(us)
	nslots := 0
	for _, u := range us {
		inst := u.ll()
		c15checkSlots(c, u, "")
		nslots += c15checkWrites(c, u)
		c15checkSlots(c, u, "")
		c15checkSuccs(c, u, "")
		c.Case(u.fn.Name()+"|"+inst, fmt.Sprint(len(u.user.Operands())))
		c.Valid(1)
	}
	c.Extra["slots_written"] = nslots
	c.DistinctN(int64(nslots))
	// Succs after writing another block of the function through each target slot.
	for _, u := range us {
		if u.term == nil {
			continue
		}
		_ = u.term.Succs()
		for i, op := range u.user.Operands() {
			if op == nil || *op == nil {
				continue
			}
			if old, ok := (*op).(*ir.Block); ok {
				var other *ir.Block
				for _, b := range u.fn.Blocks {
					if b != old {
						other = b
					}
				}
				if other == nil {
					continue
				}
				*op = other
				c15checkSuccs(c, u, "/after-slot-write")
				*op = old
				c15checkSuccs(c, u, "/after-slot-restore")
				c.Case(fmt.Sprintf("succs|%s|%s|%d", u.fn.Name(), u.ll(), i), "")
			}
		}
	}
	// Operands after list mutation (fresh parse so that caches start empty, then primed).
	m2 := c15parse()
	for _, u := range c15users(m2) {
		_ = u.user.Operands()
		before := u.ll()
		if d := c15mutateLists(u); d != "" {
			c15checkSlots(c, u, "/after-list-edit")
			n := c15checkWrites(c, u)
			c.DistinctN(int64(n))
			if after := u.ll(); after != before {
				c.Violation("list-edit/text-changed/"+u.kind, c15case{Func: u.fn.Name(), Kind: u.kind, Inst: before, After: d, What: "content-preserving list edit changed the text: " + after})
			}
			c.Case("listedit|"+u.fn.Name()+"|"+before, d)
		}
	}
	// Substitute-all: every value of every function.
	m3 := c15parse()
	nsub := 0
	for _, f := range m3.Funcs {
		var vals []value.Value
		for _, p := range f.Params {
			vals = append(vals, p)
		}
		for _, b := range f.Blocks {
			vals = append(vals, b)
			for _, inst := range b.Insts {
				if v, ok := inst.(value.Value); ok && !types.Equal(v.Type(), types.Void) {
					vals = append(vals, v)
				}
			}
			if v, ok := b.Term.(value.Value); ok && !types.Equal(v.Type(), types.Void) {
				vals = append(vals, v)
			}
		}
		fus := c15users(&ir.Module{Funcs: []*ir.Func{f}})
		for vi, v := range vals {
			tok := v.Ident()
			rep := c15repl(v, fmt.Sprintf("SUBST%d", vi))
			type undo struct {
				p   *value.Value
				old value.Value
			}
			var undos []undo
			for _, u := range fus {
				for _, op := range u.user.Operands() {
					if op == nil || *op == nil {
						continue
					}
					switch o := (*op).(type) {
					case *ir.Arg:
						if o.Value == v {
							undos = append(undos, undo{op, *op})
							*op = &ir.Arg{Value: rep, Attrs: o.Attrs}
						}
					default:
						if *op == v {
							undos = append(undos, undo{op, *op})
							*op = rep
						}
					}
				}
			}
			// no user may still mention the value.
			for _, u := range fus {
				if vv, ok := u.user.(value.Value); ok && vv == v {
					continue // its own definition line
				}
				line := u.ll()
				if u.blk == v {
					// a block's own label is not part of its instructions' text
				}
				for _, t := range c15tokRe.FindAllString(line, -1) {
					if t == tok && !strings.Contains(line, "blockaddress("+u.fn.Ident()+", "+tok+")") {
						c.Violation("substitute/use-left-behind/"+u.kind, c15case{Func: f.Name(), Kind: u.kind, Inst: line, What: fmt.Sprintf("after substituting %s through the slots of all users, %q still mentions it", tok, line)})
					}
				}
			}
			for _, un := range undos {
				*un.p = un.old
			}
			nsub++
			c.Case(fmt.Sprintf("subst|%s|%s", f.Name(), tok), fmt.Sprint(len(undos)))
		}
	}
	c.Extra["values_substituted"] = nsub
	c15generated(c)
	c15constructed(c)
	var kinds []string
	for k := range seenKinds {
		kinds = append(kinds, k)
	}
	sort.Strings(kinds)
	c.Sample(map[string]interface{}{"kinds_instantiated": kinds})
	c.Sample(map[string]interface{}{"user": "%r10 = call i32 @f1(i32 %a) [ \"tag\"(i32 %b, float %x), \"other\"(i1 %c) ]", "oracles": []string{"Operands()==reflective slots", "write REPLi through slot i changes exactly one token", "substitute-all leaves no use"}})
}

// c15purity: on a fresh parse of text, Operands() and Succs() are called (twice) on every user in
// order and nothing else; the module must then print exactly like another fresh parse that was
// never queried, and every terminator's successors must still be its printed targets. (A query that
// writes into storage shared with a NEIGHBOUR leaves both views of the neighbour consistent with
// each other -- only the comparison with an unqueried module shows it.)
func c15purity(c *fw.Check, text, tag string) {
	mq, e1, p1 := parseTry(text)
	mr, e2, p2 := parseTry(text)
	if e1+p1+e2+p2 != "" {
		return
	}
	us := c15users(mq)
	if p := fw.Try(func() {
		for round := 0; round < 2; round++ {
			for _, u := range us {
				_ = u.user.Operands()
				if u.term != nil {
					_ = u.term.Succs()
				}
			}
		}
	}); p != "" {
		c.Violation("query-panics"+tag, c15case{What: "Operands()/Succs() panics on a parsed module: " + p})
		return
	}
	var a, b string
	if p := fw.Try(func() { a, b = mq.String(), mr.String() }); p != "" {
		return
	}
	c.Case("purity|"+tag+"|"+fmt.Sprint(len(text)), fmt.Sprint(a == b))
	if a != b {
		c.Violation("query-changes-module"+tag, c15case{What: "calling Operands() and Succs() on every instruction and terminator of a freshly parsed module changed what the module prints", Inst: firstDiff(b, a)})
		return
	}
	for _, u := range us {
		c15checkSuccs(c, u, tag+"/after-queries")
	}
}

// c15generated runs the slot / write-through / successor oracles on EVERY user of EVERY generated
// catalogue variant (widened type universe), not only on the fixed catalogue module.
func c15generated(c *fw.Check) {
	gen.SetWide()
	bound := 2
	if c.Deep() {
		bound = 3
	}
	all, batches := genBatches(gen.Catalogue(), bound, 40)
	var mu sync.Mutex
	users, slots := 0, 0
	fw.ParallelFor(len(batches), func(i int) {
		var try func(vs []gen.Variant)
		try = func(vs []gen.Variant) {
			if len(vs) == 0 {
				return
			}
			m, errs, pan := parseTry(gen.Module(vs))
			if errs != "" || pan != "" {
				if len(vs) > 1 {
					h := len(vs) / 2
					try(vs[:h])
					try(vs[h:])
				}
				return
			}
			c15purity(c, gen.Module(vs), "/generated")
			us := c15users(m)
			n := 0
			for _, u := range us {
				c15checkSlots(c, u, "/generated")
				n += c15checkWrites(c, u)
				c15checkSuccs(c, u, "/generated")
			}
			mu.Lock()
			users += len(us)
			slots += n
			mu.Unlock()
		}
		try(batches[i])
	})
	c.Extra["generated_variants"] = len(all)
	c.Extra["generated_users"] = users
	c.Extra["generated_slots_written"] = slots
	c.DistinctN(int64(users))
	c.Valid(int64(users))
}

// c15constructed builds list-carrying users through the constructors from caller slices with spare
// capacity, mutates the caller's slices afterwards, and checks the same oracles.
func c15constructed(c *fw.Check) {
	f := ir.NewFunc("k", types.Void, ir.NewParam("a", types.I32), ir.NewParam("p", types.I8Ptr))
	var blocks []*ir.Block
	for i := 0; i < 6; i++ {
		blocks = append(blocks, f.NewBlock(fmt.Sprintf("b%d", i)))
	}
	callee := ir.NewFunc("callee", types.I32, ir.NewParam("x", types.I32), ir.NewParam("y", types.I32))
	mk := func(n int) []*ir.Block { // slice with spare capacity
		s := make([]*ir.Block, n, n+4)
		copy(s, blocks[1:1+n])
		return s
	}
	type built struct {
		name   string
		user   value.User
		term   ir.Terminator
		mutate func()
	}
	var bs []built
	{
		hs := mk(2)
		t := ir.NewCatchSwitch(constant.None, hs, blocks[4])
		bs = append(bs, built{"NewCatchSwitch", t, t, func() { hs = append(hs, blocks[5]); hs[0] = blocks[5] }})
	}
	{
		hs := mk(2)
		t := ir.NewIndirectBr(f.Params[1], hs...)
		bs = append(bs, built{"NewIndirectBr", t, t, func() { hs = append(hs, blocks[5]) }})
	}
	{
		hs := mk(2)
		args := make([]value.Value, 2, 6)
		args[0], args[1] = f.Params[0], f.Params[0]
		t := ir.NewCallBr(callee, args, blocks[3], hs...)
		bs = append(bs, built{"NewCallBr", t, t, func() { hs = append(hs, blocks[5]); args = append(args, f.Params[1]) }})
	}
	{
		cases := make([]*ir.Case, 2, 6)
		cases[0], cases[1] = ir.NewCase(constant.NewInt(types.I32, 1), blocks[1]), ir.NewCase(constant.NewInt(types.I32, 2), blocks[2])
		t := ir.NewSwitch(f.Params[0], blocks[3], cases...)
		bs = append(bs, built{"NewSwitch", t, t, func() { cases = append(cases, ir.NewCase(constant.NewInt(types.I32, 3), blocks[5])) }})
	}
	{
		incs := make([]*ir.Incoming, 2, 6)
		incs[0], incs[1] = ir.NewIncoming(f.Params[0], blocks[1]), ir.NewIncoming(constant.NewInt(types.I32, 2), blocks[2])
		p := ir.NewPhi(incs...)
		bs = append(bs, built{"NewPhi", p, nil, func() { incs = append(incs, ir.NewIncoming(f.Params[0], blocks[5])) }})
	}
	{
		args := make([]value.Value, 2, 6)
		args[0], args[1] = f.Params[0], f.Params[0]
		t := ir.NewInvoke(callee, args, blocks[1], blocks[2])
		bs = append(bs, built{"NewInvoke", t, t, func() { args = append(args, f.Params[1]) }})
		cl := ir.NewCall(callee, args[:2:2]...)
		bs = append(bs, built{"NewCall", cl, nil, func() {}})
	}
	for _, b := range bs {
		u := c15user{fn: f, blk: blocks[0], user: b.user, kind: strings.TrimPrefix(fmt.Sprintf("%T", b.user), "*ir."), term: b.term}
		switch x := b.user.(type) {
		case ir.Instruction:
			u.ll = x.LLString
		case ir.Terminator:
			u.ll = x.LLString
		}
		_ = b.user.Operands()
		if b.term != nil {
			_ = b.term.Succs()
		}
		before := u.ll()
		c15checkSlots(c, u, "/constructed")
		c15checkSuccs(c, u, "/constructed")
		b.mutate()
		// A caller reusing its slice must not change the instruction behind its back in an
		// inconsistent way: views and text must still agree with each other.
		c15checkSlots(c, u, "/constructed-after-caller-slice-edit")
		c15checkSuccs(c, u, "/constructed-after-caller-slice-edit")
		c15checkWrites(c, u)
		c.Case("constructed|"+b.name, before+"|"+u.ll())
		c.Valid(1)
	}
}

func replayC15(c *fw.Check, path string) {
	var cs c15case
	loadReplay(path, &cs)
	fmt.Printf("replay: %s %s: %s\n  %s\n(re-running the whole catalogue: it is small)\n", cs.Func, cs.Kind, cs.Inst, cs.What)
	runC15(c)
}
