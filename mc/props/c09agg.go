package props

import (
	"fmt"
	"math/big"
	"strings"

	"github.com/llir/llvm/asm"
	"github.com/llir/llvm/ir"
	"github.com/llir/llvm/ir/constant"
	"github.com/llir/llvm/ir/types"

	"verif/fw"
)

// Integer literals as ELEMENTS. The printer of an aggregate constant prints its elements itself: a
// value must keep its exact spelling whatever stands next to it. For 10 widths, every ordered pair
// (a, b) of a boundary set (values that agree in their low 8/32/64 bits, in their decimal prefix,
// in everything but the sign) is written as [a, b], <a, b>, {a, b}, [a, b, a] and [[a], [b]], both
// as text and through the constant constructors; the elements read back (and read back again after
// print + parse) must be exactly a and b, and LLVM must read the printed module like the reference
// text in plain signed decimal.
func c09aggregates(c *fw.Check) {
	widths := []uint64{1, 7, 8, 32, 63, 64, 65, 72, 127, 128, 129}
	type cse struct {
		w    uint64
		a, b *big.Int
		form int
	}
	forms := []string{"array", "vector", "struct", "array3", "nested"}
	var cases []cse
	for _, w := range widths {
		var set []*big.Int
		seen := map[string]bool{}
		add := func(v *big.Int) {
			// representable as signed or unsigned w-bit value
			if v.Cmp(new(big.Int).Neg(pow2(w-1))) < 0 || v.Cmp(new(big.Int).Sub(pow2(w), big1)) > 0 {
				return
			}
			if !seen[v.String()] {
				seen[v.String()] = true
				set = append(set, v)
			}
		}
		for _, base := range []int64{0, 1, 5, 255, 256} {
			add(big.NewInt(base))
			add(big.NewInt(-base))
			for _, k := range []uint64{8, 32, 63, 64, 65, 72, 127, 128} {
				add(new(big.Int).Add(pow2(k), big.NewInt(base)))
				add(new(big.Int).Neg(new(big.Int).Add(pow2(k), big.NewInt(base))))
			}
		}
		add(new(big.Int).Sub(pow2(w), big1))
		add(new(big.Int).Neg(pow2(w - 1)))
		add(new(big.Int).Sub(pow2(w-1), big1))
		for _, a := range set {
			for _, b := range set {
				for f := range forms {
					cases = append(cases, cse{w, a, b, f})
				}
			}
		}
	}
	text := func(cs cse, i int, dec bool) string {
		t := fmt.Sprintf("i%d", cs.w)
		sp := func(v *big.Int) string {
			if dec || cs.w == 1 {
				// the reference spelling: LLVM's own (signed decimal; i1 as true/false)
				u := new(big.Int).Mod(v, pow2(cs.w))
				if cs.w == 1 {
					return map[bool]string{true: "true", false: "false"}[u.Sign() != 0]
				}
				if u.Bit(int(cs.w)-1) == 1 {
					u.Sub(u, pow2(cs.w))
				}
				return u.String()
			}
			return v.String()
		}
		a, b := t+" "+sp(cs.a), t+" "+sp(cs.b)
		switch cs.form {
		case 0:
			return fmt.Sprintf("@g%d = global [2 x %s] [%s, %s]\n", i, t, a, b)
		case 1:
			return fmt.Sprintf("@g%d = global <2 x %s> <%s, %s>\n", i, t, a, b)
		case 2:
			return fmt.Sprintf("@g%d = global { %s, %s } { %s, %s }\n", i, t, t, a, b)
		case 3:
			return fmt.Sprintf("@g%d = global [3 x %s] [%s, %s, %s]\n", i, t, a, b, a)
		}
		return fmt.Sprintf("@g%d = global [2 x [1 x %s]] [[1 x %s] [%s], [1 x %s] [%s]]\n", i, t, t, a, t, b)
	}
	build := func(m *ir.Module, cs cse, i int) {
		t := types.NewInt(cs.w)
		a, b := &constant.Int{Typ: t, X: new(big.Int).Set(cs.a)}, &constant.Int{Typ: t, X: new(big.Int).Set(cs.b)}
		var k constant.Constant
		switch cs.form {
		case 0:
			k = constant.NewArray(types.NewArray(2, t), a, b)
		case 1:
			k = constant.NewVector(types.NewVector(2, t), a, b)
		case 2:
			k = constant.NewStruct(types.NewStruct(t, t), a, b)
		case 3:
			k = constant.NewArray(types.NewArray(3, t), a, b, &constant.Int{Typ: t, X: new(big.Int).Set(cs.a)})
		default:
			it := types.NewArray(1, t)
			k = constant.NewArray(types.NewArray(2, it), constant.NewArray(it, a), constant.NewArray(it, b))
		}
		m.NewGlobalDef(fmt.Sprintf("g%d", i), k)
	}
	// elements of an aggregate constant, flattened.
	var flat func(k constant.Constant) []*big.Int
	flat = func(k constant.Constant) []*big.Int {
		switch k := k.(type) {
		case *constant.Int:
			return []*big.Int{k.X}
		case *constant.Array:
			var o []*big.Int
			for _, e := range k.Elems {
				o = append(o, flat(e)...)
			}
			return o
		case *constant.Vector:
			var o []*big.Int
			for _, e := range k.Elems {
				o = append(o, flat(e)...)
			}
			return o
		case *constant.Struct:
			var o []*big.Int
			for _, e := range k.Fields {
				o = append(o, flat(e)...)
			}
			return o
		}
		return nil
	}
	same := func(w uint64, got, want *big.Int) bool {
		mod := pow2(w)
		return new(big.Int).Mod(got, mod).Cmp(new(big.Int).Mod(want, mod)) == 0
	}
	const batch = 1500
	nb := (len(cases) + batch - 1) / batch
	fw.ParallelFor(nb, func(bi int) {
		lo, hi := bi*batch, (bi+1)*batch
		if hi > len(cases) {
			hi = len(cases)
		}
		var in, ref strings.Builder
		api := ir.NewModule()
		for i := lo; i < hi; i++ {
			in.WriteString(text(cases[i], i-lo, false))
			ref.WriteString(text(cases[i], i-lo, true))
			build(api, cases[i], i-lo)
		}
		verify := func(m *ir.Module, stage string) bool {
			if len(m.Globals) != hi-lo {
				c.Violation("int/aggregate/"+stage+"/globals-lost", c09case{What: "number of globals differs"})
				return false
			}
			for i := lo; i < hi; i++ {
				cs := cases[i]
				want := []*big.Int{cs.a, cs.b}
				if cs.form == 3 {
					want = append(want, cs.a)
				}
				got := flat(m.Globals[i-lo].Init)
				ok := len(got) == len(want)
				for k := 0; ok && k < len(want); k++ {
					ok = same(cs.w, got[k], want[k])
				}
				c.Case(fmt.Sprintf("agg|%d|%s|%s|%d|%s", cs.w, cs.a, cs.b, cs.form, stage), fmt.Sprint(got))
				if !ok {
					c.Violation("int/aggregate/"+stage+"/"+forms[cs.form]+"/"+c09class(cs.w), c09case{Width: cs.w, Lit: strings.TrimSpace(text(cs, 0, false)), Value: fmt.Sprint(want), Got: fmt.Sprint(got), What: "the elements of the aggregate constant are not the values written (" + stage + ")"})
					return false
				}
			}
			return true
		}
		for _, src := range []struct {
			name string
			mk   func() (*ir.Module, string)
		}{
			{"text", func() (*ir.Module, string) {
				m, errs, pan := parseTry(in.String())
				return m, errs + pan
			}},
			{"api", func() (*ir.Module, string) { return api, "" }},
		} {
			m, bad := src.mk()
			if bad != "" {
				c.Violation("int/aggregate/"+src.name+"/parse-fails", c09case{What: fw.Trunc(bad, 300)})
				continue
			}
			if !verify(m, src.name) {
				continue
			}
			var out string
			if p := fw.Try(func() { out = m.String() }); p != "" {
				c.Violation("int/aggregate/"+src.name+"/print-panics", c09case{What: p})
				continue
			}
			m2, err := asm.ParseString("agg.ll", out)
			if err != nil {
				c.Violation("int/aggregate/"+src.name+"/reparse-fails", c09case{What: fw.Trunc(err.Error(), 300)})
				continue
			}
			if !verify(m2, src.name+"-printed") {
				continue
			}
			if fw.HaveLLVM() {
				a, e1, ok1, _ := fw.AsDis(out)
				b, e2, ok2, _ := fw.AsDis(ref.String())
				if !ok2 {
					fw.Fatalf("C09 aggregates: LLVM rejects the reference module: %s", e2)
				}
				if !ok1 {
					c.Violation("int/aggregate/"+src.name+"/llvm-rejects-printed", c09case{What: fw.Trunc(e1, 300)})
					continue
				}
				la, lb := strings.Split(a, "\n"), strings.Split(b, "\n")
				for i := range lb {
					if strings.HasPrefix(lb[i], "@g") && (i >= len(la) || la[i] != lb[i]) {
						got := ""
						if i < len(la) {
							got = la[i]
						}
						c.Violation("int/aggregate/"+src.name+"/llvm-reads-differently", c09case{What: "LLVM reads the printed aggregate differently from the reference", Value: lb[i], Got: got})
						break
					}
				}
			}
			c.Valid(int64(hi - lo))
		}
	})
	c.Extra["aggregate_element_cases"] = len(cases)
}
