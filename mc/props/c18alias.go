package props

import (
	"fmt"
	"reflect"
	"sort"

	"github.com/llir/llvm/asm"
	"github.com/llir/llvm/ir"

	"verif/fw"
)

// In-place edits and aliasing. A value "maps back to the value that printed it" only if the slot
// that holds it belongs to ONE entity. The parser may hand out shared storage (one backing array
// for every `nuw nsw` flag list, a table entry per keyword, one attribute object per spelling): a
// pass that edits a flag list of one instruction in place then changes other instructions, other
// modules and even later parses. For every enum slot of the all-kinds module (first two
// occurrences of every (struct, field)) and two values: the slot is written IN PLACE (a slice
// element is overwritten where the slice has elements, never re-allocated), and then
//   (1) every OTHER enum slot of the same module still holds what it held,
//   (2) a module parsed BEFORE the edit still prints the base text,
//   (3) the base text parsed AFTER the edit still prints the base text.
// Runs sequentially, last in the check (a polluted process cannot confuse the other parts).

func c18snapshot(all map[string][]c18slot) (names []string, vals map[string][]string) {
	vals = map[string][]string{}
	for en := range all {
		names = append(names, en)
	}
	sort.Strings(names)
	for _, en := range names {
		for _, s := range all[en] {
			vals[en] = append(vals[en], fmt.Sprintf("%s=%v", s.key, s.v.Interface()))
		}
	}
	return
}

// c18writeInPlace overwrites the slot without allocating where possible; reports what it did.
func c18writeInPlace(s c18slot, enumName string, v uint64) (how string, ok bool) {
	f := s.v
	setNum := func(e reflect.Value) bool {
		switch {
		case e.Kind() >= reflect.Int && e.Kind() <= reflect.Int64:
			e.SetInt(int64(v))
		case e.Kind() >= reflect.Uint && e.Kind() <= reflect.Uint64:
			e.SetUint(v)
		default:
			return false
		}
		return true
	}
	if f.Kind() == reflect.Slice {
		if f.Len() == 0 {
			return "", false
		}
		e := f.Index(0)
		if e.Kind() == reflect.Interface {
			ev, okv := c18enumValue(enumName, v)
			if !okv {
				return "", false
			}
			e.Set(ev)
			return "element 0 of the slice overwritten", true
		}
		return "element 0 of the slice overwritten", setNum(e)
	}
	return "field overwritten", setNum(f)
}

func c18aliasing(c *fw.Check) {
	base := c18base()
	parse := func() *ir.Module {
		m, err := asm.ParseString("c18base.ll", base)
		if err != nil {
			fw.Fatalf("C18 base: %v", err)
		}
		return m
	}
	probe := parse()
	all0 := c18walk(probe)
	names, _ := c18snapshot(all0)
	byName := map[string]EnumType{}
	for _, et := range EnumTable {
		byName[et.Name] = et
	}
	n := 0
	reported := map[string]bool{}
	for _, en := range names {
		et, okE := byName[en]
		if !okE || len(et.Consts) == 0 {
			continue
		}
		occ := map[string]int{}
		for idx := range all0[en] {
			key := all0[en][idx].key
			occ[key]++
			if occ[key] > 2 {
				continue
			}
			// two values: first and last defined non-zero constants.
			var cands []EnumConst
			for _, k := range et.Consts {
				if k.Value != 0 {
					cands = append(cands, k)
				}
			}
			if len(cands) == 0 {
				continue
			}
			for _, k := range []EnumConst{cands[0], cands[len(cands)-1]} {
				before := parse() // a module parsed BEFORE the edit
				m := parse()
				all := c18walk(m)
				if idx >= len(all[en]) || all[en][idx].key != key {
					fw.Fatalf("C18 aliasing: walk order is not reproducible for %s", key)
				}
				_, snap0 := c18snapshot(all)
				how, ok := c18writeInPlace(all[en][idx], en, k.Value)
				if !ok {
					continue
				}
				n++
				_, snap1 := c18snapshot(all)
				sig, what := "", ""
			cmp:
				for _, en2 := range names {
					for i := range snap0[en2] {
						if en2 == en && i == idx {
							continue
						}
						if i < len(snap1[en2]) && snap0[en2][i] != snap1[en2][i] {
							sig = "aliasing/other-slot-changed/" + en + "@" + key
							what = fmt.Sprintf("%s of occurrence %d of %s (%s, value %s): slot #%d of %s changed from %s to %s", how, occ[key], key, en, k.Name, i, en2, snap0[en2][i], snap1[en2][i])
							break cmp
						}
					}
				}
				if sig == "" {
					var t string
					if p := fw.Try(func() { t = before.String() }); p != "" || t != base {
						sig = "aliasing/earlier-module-changed/" + en + "@" + key
						what = fmt.Sprintf("%s of %s in one module (value %s): a module parsed earlier prints differently: %s%s", how, key, k.Name, p, fw.Trunc(c18diffLines(base, t), 400))
					}
				}
				if sig == "" {
					var t string
					if p := fw.Try(func() { t = parse().String() }); p != "" || t != base {
						sig = "aliasing/later-parse-changed/" + en + "@" + key
						what = fmt.Sprintf("%s of %s in one module (value %s): the same text parsed afterwards prints differently: %s%s", how, key, k.Name, p, fw.Trunc(c18diffLines(base, t), 400))
					}
				}
				c.Case("alias|"+en+"|"+key+"|"+fmt.Sprint(occ[key], k.Value), sig)
				if sig == "" {
					c.Valid(1)
				} else if !reported[sig] {
					reported[sig] = true
					c.Violation(sig, c18case{Type: en + "@" + key, Const: k.Name, Value: k.Value, What: what})
				}
			}
		}
	}
	c.Extra["in_place_edits_checked_for_aliasing"] = n
}
