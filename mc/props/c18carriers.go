package props

import (
	"fmt"
	"reflect"
	"sort"

	"github.com/llir/llvm/asm"
	"github.com/llir/llvm/ir"
	"github.com/llir/llvm/ir/constant"
	"github.com/llir/llvm/ir/enum"
	"github.com/llir/llvm/ir/types"
	"github.com/llir/llvm/ir/value"

	"verif/fw"
)

// c18carrier is one more grammar position ("carrier") of an enumerated value besides the family's
// primary template: the same value must survive print+parse on EVERY entity that can carry it.
// The field is found and set by reflection (by the enum's Go type), so a carrier applies to every
// enum type its entity has a field of.
type c18carrier struct {
	name   string
	build  func() (*ir.Module, interface{}) // module and the entity carrying the value
	locate func(m *ir.Module) interface{}   // the same entity in a re-parsed module
}

func c18lastFunc(m *ir.Module) *ir.Func {
	if len(m.Funcs) == 0 {
		return nil
	}
	return m.Funcs[len(m.Funcs)-1]
}

func c18firstInst(m *ir.Module, t reflect.Type) interface{} {
	f := c18lastFunc(m)
	if f == nil {
		return nil
	}
	for _, b := range f.Blocks {
		for _, i := range b.Insts {
			if reflect.TypeOf(i) == t {
				return i
			}
		}
		if b.Term != nil && reflect.TypeOf(b.Term) == t {
			return b.Term
		}
	}
	return nil
}

func c18instCarrier(name string, mk func(m *ir.Module, f *ir.Func, b *ir.Block) interface{}) c18carrier {
	var t reflect.Type
	return c18carrier{name: name,
		build: func() (*ir.Module, interface{}) {
			m := ir.NewModule()
			callee := m.NewFunc("callee", types.Float, ir.NewParam("x", types.Float))
			_ = callee
			f := m.NewFunc("f", types.Void, ir.NewParam("a", types.I32), ir.NewParam("b", types.Float), ir.NewParam("p", types.I32Ptr))
			b := f.NewBlock("entry")
			o := mk(m, f, b)
			if b.Term == nil {
				b.NewRet(nil)
			}
			t = reflect.TypeOf(o)
			return m, o
		},
		locate: func(m *ir.Module) interface{} { return c18firstInst(m, t) },
	}
}

func c18carriers() []c18carrier {
	return []c18carrier{
		{"function-declaration", func() (*ir.Module, interface{}) {
			m := ir.NewModule()
			f := m.NewFunc("f", types.Void)
			return m, f
		}, func(m *ir.Module) interface{} { return c18lastFunc(m) }},
		{"function-definition", func() (*ir.Module, interface{}) {
			m := ir.NewModule()
			f := m.NewFunc("f", types.Void)
			f.NewBlock("").NewRet(nil)
			return m, f
		}, func(m *ir.Module) interface{} { return c18lastFunc(m) }},
		{"alias", func() (*ir.Module, interface{}) {
			m := ir.NewModule()
			g := m.NewGlobalDef("g", constant.NewInt(types.I32, 0))
			a := m.NewAlias("a", g)
			return m, a
		}, func(m *ir.Module) interface{} {
			if len(m.Aliases) != 1 {
				return nil
			}
			return m.Aliases[0]
		}},
		{"ifunc", func() (*ir.Module, interface{}) {
			m := ir.NewModule()
			r := m.NewFunc("resolver", types.NewPointer(types.NewFunc(types.Void)))
			r.NewBlock("").NewRet(constant.NewNull(types.NewPointer(types.NewFunc(types.Void))))
			i := m.NewIFunc("i", r)
			return m, i
		}, func(m *ir.Module) interface{} {
			if len(m.IFuncs) != 1 {
				return nil
			}
			return m.IFuncs[0]
		}},
		c18instCarrier("call", func(m *ir.Module, f *ir.Func, b *ir.Block) interface{} {
			return b.NewCall(m.Funcs[0], f.Params[1])
		}),
		c18instCarrier("invoke", func(m *ir.Module, f *ir.Func, b *ir.Block) interface{} {
			ok, lp := f.NewBlock("ok"), f.NewBlock("lp")
			ok.NewRet(nil)
			l := lp.NewLandingPad(types.NewStruct(types.I8Ptr, types.I32))
			l.Cleanup = true
			lp.NewRet(nil)
			pers := m.NewFunc("pers", types.I32)
			pers.Sig.Variadic = true
			// keep @f the last function.
			m.Funcs[len(m.Funcs)-1], m.Funcs[len(m.Funcs)-2] = m.Funcs[len(m.Funcs)-2], m.Funcs[len(m.Funcs)-1]
			f.Personality = pers
			return b.NewInvoke(m.Funcs[0], []value.Value{f.Params[1]}, ok, lp)
		}),
		c18instCarrier("callbr", func(m *ir.Module, f *ir.Func, b *ir.Block) interface{} {
			ok, o := f.NewBlock("ok"), f.NewBlock("other")
			ok.NewRet(nil)
			o.NewRet(nil)
			return b.NewCallBr(m.Funcs[0], []value.Value{f.Params[1]}, ok, o)
		}),
		c18instCarrier("load", func(m *ir.Module, f *ir.Func, b *ir.Block) interface{} {
			l := b.NewLoad(types.I32, f.Params[2])
			l.Atomic = true
			l.Align = 4
			return l
		}),
		c18instCarrier("store", func(m *ir.Module, f *ir.Func, b *ir.Block) interface{} {
			s := b.NewStore(f.Params[0], f.Params[2])
			s.Atomic = true
			s.Align = 4
			return s
		}),
		c18instCarrier("cmpxchg", func(m *ir.Module, f *ir.Func, b *ir.Block) interface{} {
			return b.NewCmpXchg(f.Params[2], f.Params[0], f.Params[0], enum.AtomicOrderingMonotonic, enum.AtomicOrderingMonotonic)
		}),
		c18instCarrier("atomicrmw", func(m *ir.Module, f *ir.Func, b *ir.Block) interface{} {
			return b.NewAtomicRMW(enum.AtomicOpAdd, f.Params[2], f.Params[0], enum.AtomicOrderingMonotonic)
		}),
		c18instCarrier("fadd", func(m *ir.Module, f *ir.Func, b *ir.Block) interface{} { return b.NewFAdd(f.Params[1], f.Params[1]) }),
		c18instCarrier("fsub", func(m *ir.Module, f *ir.Func, b *ir.Block) interface{} { return b.NewFSub(f.Params[1], f.Params[1]) }),
		c18instCarrier("fmul", func(m *ir.Module, f *ir.Func, b *ir.Block) interface{} { return b.NewFMul(f.Params[1], f.Params[1]) }),
		c18instCarrier("fdiv", func(m *ir.Module, f *ir.Func, b *ir.Block) interface{} { return b.NewFDiv(f.Params[1], f.Params[1]) }),
		c18instCarrier("frem", func(m *ir.Module, f *ir.Func, b *ir.Block) interface{} { return b.NewFRem(f.Params[1], f.Params[1]) }),
		c18instCarrier("fneg", func(m *ir.Module, f *ir.Func, b *ir.Block) interface{} { return b.NewFNeg(f.Params[1]) }),
		c18instCarrier("fcmp", func(m *ir.Module, f *ir.Func, b *ir.Block) interface{} {
			return b.NewFCmp(enum.FPredOEQ, f.Params[1], f.Params[1])
		}),
		c18instCarrier("select", func(m *ir.Module, f *ir.Func, b *ir.Block) interface{} {
			return b.NewSelect(constant.True, f.Params[1], f.Params[1])
		}),
		c18instCarrier("add", func(m *ir.Module, f *ir.Func, b *ir.Block) interface{} { return b.NewAdd(f.Params[0], f.Params[0]) }),
		c18instCarrier("sub", func(m *ir.Module, f *ir.Func, b *ir.Block) interface{} { return b.NewSub(f.Params[0], f.Params[0]) }),
		c18instCarrier("mul", func(m *ir.Module, f *ir.Func, b *ir.Block) interface{} { return b.NewMul(f.Params[0], f.Params[0]) }),
		c18instCarrier("shl", func(m *ir.Module, f *ir.Func, b *ir.Block) interface{} { return b.NewShl(f.Params[0], f.Params[0]) }),
	}
}

// c18fieldsOf returns the (possibly several, e.g. cmpxchg's two orderings) fields of entity whose
// type is enumType or []enumType.
func c18fieldsOf(entity interface{}, enumType reflect.Type) []int {
	v := reflect.ValueOf(entity)
	if v.Kind() != reflect.Ptr || v.IsNil() {
		return nil
	}
	st := v.Elem()
	var out []int
	for i := 0; i < st.NumField(); i++ {
		ft := st.Type().Field(i).Type
		if ft == enumType || (ft.Kind() == reflect.Slice && ft.Elem() == enumType) {
			out = append(out, i)
		}
	}
	return out
}

func c18setField(entity interface{}, idx int, v uint64) {
	f := reflect.ValueOf(entity).Elem().Field(idx)
	if f.Kind() == reflect.Slice {
		e := reflect.New(f.Type().Elem()).Elem()
		e.SetUint(v)
		f.Set(reflect.Append(reflect.MakeSlice(f.Type(), 0, 1), e))
		return
	}
	f.SetUint(v)
}

func c18getField(entity interface{}, idx int) (uint64, bool) {
	v := reflect.ValueOf(entity)
	if !v.IsValid() || v.Kind() != reflect.Ptr || v.IsNil() {
		return 0, false
	}
	f := v.Elem().Field(idx)
	if f.Kind() == reflect.Slice {
		if f.Len() != 1 {
			return 0, false
		}
		return f.Index(0).Uint(), true
	}
	return f.Uint(), true
}

// c18enumGoTypes maps the names of the enum types of ir/enum to their Go types.
var c18enumGoTypes = map[string]reflect.Type{
	"Linkage": reflect.TypeOf(enum.Linkage(0)), "Preemption": reflect.TypeOf(enum.Preemption(0)), "Visibility": reflect.TypeOf(enum.Visibility(0)),
	"DLLStorageClass": reflect.TypeOf(enum.DLLStorageClass(0)), "TLSModel": reflect.TypeOf(enum.TLSModel(0)), "UnnamedAddr": reflect.TypeOf(enum.UnnamedAddr(0)),
	"CallingConv": reflect.TypeOf(enum.CallingConv(0)), "AtomicOrdering": reflect.TypeOf(enum.AtomicOrdering(0)), "FastMathFlag": reflect.TypeOf(enum.FastMathFlag(0)),
	"OverflowFlag": reflect.TypeOf(enum.OverflowFlag(0)), "Tail": reflect.TypeOf(enum.Tail(0)),
}

// c18runCarriers checks value v of enum type et on every carrier that has a field of that type.
func c18runCarriers(c *fw.Check, et EnumType, name string, v uint64, carriers []c18carrier, used map[string]bool) {
	gt, ok := c18enumGoTypes[et.Name]
	if !ok {
		return
	}
	for _, cr := range carriers {
		_, probe := cr.build()
		for _, idx := range c18fieldsOf(probe, gt) {
			fieldName := reflect.TypeOf(probe).Elem().Field(idx).Name
			where := cr.name + "." + fieldName
			used[et.Name+"@"+where] = true
			var text string
			var got uint64
			var found bool
			var perr error
			p := fw.Try(func() {
				m, ent := cr.build()
				c18setField(ent, idx, v)
				text = m.String()
				m2, err := asm.ParseString("c18.ll", text)
				if err != nil {
					perr = err
					return
				}
				got, found = c18getField(cr.locate(m2), idx)
			})
			c.Case("carrier|"+et.Name+"|"+where+"|"+fmt.Sprint(v), text)
			cs := c18case{Type: et.Name + "@" + where, Const: name, Value: v, Text: fw.Trunc(text, 400)}
			bad := ""
			switch {
			case p != "":
				bad, cs.What = "panic", p
			case perr != nil:
				bad, cs.What = "reparse-error", perr.Error()
			case !found:
				bad, cs.What = "lost", "value not found in re-parsed module"
			case got != v:
				bad, cs.What, cs.Got = "changed", "value changed through print+parse", fmt.Sprint(got)
			}
			if bad == "" {
				c.Valid(1)
				continue
			}
			// a value that LLVM does not admit at this position (e.g. `release` on a load,
			// `extern_weak` on a definition) is outside the property.
			if text != "" && fw.HaveLLVM() {
				if okL, _ := fw.LLVMAccepts(text); !okL {
					c.Invalid++
					continue
				}
			}
			c.Violation("carrier/"+et.Name+"@"+where+"/"+bad+"/"+name, cs)
		}
	}
}

// c18pairs: two enum fields of ONE entity set together (a printer that derives one keyword from the
// others -- "dso_local is implied by internal linkage" -- shows only in combinations). For globals,
// function declarations and definitions, aliases and ifuncs: every pair of enum-typed fields x every
// pair of defined non-zero values; both must come back. Combinations LLVM rejects are skipped.
func c18pairs(c *fw.Check) {
	entities := append([]c18carrier{{"global", func() (*ir.Module, interface{}) {
		m := ir.NewModule()
		g := m.NewGlobalDef("g", constant.NewInt(types.I32, 0))
		return m, g
	}, func(m *ir.Module) interface{} {
		if len(m.Globals) != 1 {
			return nil
		}
		return m.Globals[0]
	}}}, c18carriers()[:4]...)
	vals := map[string][]EnumConst{}
	for _, et := range EnumTable {
		seen := map[uint64]bool{}
		for _, k := range et.Consts {
			if k.Value != 0 && !seen[k.Value] {
				seen[k.Value] = true
				vals[et.Name] = append(vals[et.Name], k)
			}
		}
	}
	type fld struct {
		enum string
		idx  int
		name string
	}
	var jobs []func()
	npairs := 0
	for _, ent := range entities {
		ent := ent
		_, probe := ent.build()
		var fs []fld
		var names []string
		for en := range c18enumGoTypes {
			names = append(names, en)
		}
		sort.Strings(names)
		for _, en := range names {
			for _, idx := range c18fieldsOf(probe, c18enumGoTypes[en]) {
				f := reflect.TypeOf(probe).Elem().Field(idx)
				if f.Type.Kind() == reflect.Slice {
					continue
				}
				fs = append(fs, fld{en, idx, f.Name})
			}
		}
		for a := 0; a < len(fs); a++ {
			for b := a + 1; b < len(fs); b++ {
				fa, fb := fs[a], fs[b]
				for _, va := range vals[fa.enum] {
					for _, vb := range vals[fb.enum] {
						va, vb := va, vb
						npairs++
						jobs = append(jobs, func() {
							var text string
							var ga, gb uint64
							var oka, okb bool
							var perr error
							p := fw.Try(func() {
								m, e := ent.build()
								c18setField(e, fa.idx, va.Value)
								c18setField(e, fb.idx, vb.Value)
								text = m.String()
								m2, err := asm.ParseString("c18.ll", text)
								if err != nil {
									perr = err
									return
								}
								e2 := ent.locate(m2)
								ga, oka = c18getField(e2, fa.idx)
								gb, okb = c18getField(e2, fb.idx)
							})
							c.Case(fmt.Sprintf("pair|%s|%s=%d|%s=%d", ent.name, fa.name, va.Value, fb.name, vb.Value), text)
							bad, what := "", ""
							switch {
							case p != "":
								bad, what = "panic", p
							case perr != nil:
								bad, what = "reparse-error", perr.Error()
							case !oka || !okb:
								bad, what = "lost", "entity not found in the re-parsed module"
							case ga != va.Value:
								bad, what = "changed/"+va.Name+"-with-"+vb.Name, fmt.Sprintf("%s came back as %d", fa.name, ga)
							case gb != vb.Value:
								bad, what = "changed/"+vb.Name+"-with-"+va.Name, fmt.Sprintf("%s came back as %d", fb.name, gb)
							}
							if bad == "" {
								c.Valid(1)
								return
							}
							if text != "" && fw.HaveLLVM() {
								if okL, _ := fw.LLVMAccepts(text); !okL {
									c.Invalid++
									return
								}
							}
							c.Violation("pair/"+ent.name+"/"+bad, c18case{Type: fa.enum + "+" + fb.enum + "@" + ent.name, Const: va.Name + "+" + vb.Name, Value: va.Value, Text: fw.Trunc(text, 400), What: what})
						})
					}
				}
			}
		}
	}
	fw.ParallelFor(len(jobs), func(i int) { jobs[i]() })
	c.Extra["enum_field_pairs_on_one_entity"] = npairs
}
