package props

import (
	"bytes"
	"encoding/json"
	"fmt"
	"io"
	"os"
	"os/exec"
	"path/filepath"
	"sort"
	"strings"
	"time"

	"github.com/llir/llvm/asm"
	"github.com/llir/llvm/ir"
	"github.com/llir/llvm/vhook"

	"verif/fw"
	"verif/gen"
	"verif/irwalk"
)

func init() { Registry["C12"] = Prop{Run: runC12, Replay: replayC12} }

// ---- inputs --------------------------------------------------------------------------------------
// A and B use the SAME names, literals and IDs with DIFFERENT meanings, so that anything leaking
// from one parse into another (caches keyed by name or literal text) becomes visible.

const c12A = `source_filename = "a.c"
%real = type float
%t1 = type { i32, %t10* }
%t10 = type { %t1*, %t9 }
%t9 = type opaque
%t18446744073709551616 = type { i8 }
%t18446744073709551617 = type { i16 }
%t18446744073709551618 = type { i32 }
$c1 = comdat any
$c2 = comdat largest
$c10 = comdat nodeduplicate
@g1 = global i32 7, comdat($c1), !foo !0
@g2 = global i32* @g1, comdat($c2)
@g10 = global %real 2.5, comdat($c10)
@h = global double 1.0e+00
@"q g" = global i32 1
@"1q" = global i32* @"q g"
@h2 = global double 2.5
@h3 = global [2 x i8] c"ab"
@0 = global i64 u0x1000000000
@a = alias i32, i32* @g1
define %real @f(%real %x, %t1* %p) #0 {
entry:
  %y = fadd %real %x, 2.5
  %z = fadd float %y, 2.5, !foo !1
  br label %next
next:
  %q = phi float [ %z, %entry ]
  ret %real %q
}
define i32 @k(i32) #1 {
  %2 = add i32 %0, 4096
  %"a b" = add i32 %2, 1
  br label %"l 1"
"l 1":
  ret i32 %"a b"
}
declare void @d() #2
attributes #0 = { nounwind }
attributes #1 = { noreturn "a"="b" }
attributes #2 = { nounwind }
attributes #0 = { readnone }
!n1 = !{!0, !1}
!n2 = !{!2}
!n10 = !{!3}
!n1 = !{!3}
!0 = !{i32 1, !1}
!1 = !{!"one", !2}
!2 = distinct !{!2, !0}
!3 = !{%real 2.5}
`

const c12B = `source_filename = "b.c"
%real = type double
%t1 = type { i8 }
%t10 = type { %t1, %t1 }
%t9 = type { %t10* }
%t18446744073709551616 = type { i64 }
%t18446744073709551617 = type { i64, i8 }
$c1 = comdat largest
$c2 = comdat any
@g1 = global i64 7, comdat($c1), !foo !0
@g2 = global i64* @g1, comdat($c2)
@g10 = global %real 2.5
@h = global float 1.0e+00
@"q g" = global i64 1
@"1q" = global i64* @"q g"
@h2 = global float 2.5
@h3 = global [2 x i8] c"cd"
@0 = global i32 4096
define %real @f(%real %x, %t1* %p) #0 {
entry:
  %y = fadd %real %x, 2.5
  %z = fadd double %y, 2.5, !foo !1
  ret %real %z, !foo !0
}
define i64 @k(i64) #1 {
  %2 = add i64 %0, 4096
  %"a b" = add i64 %2, 1
  br label %"l 1"
"l 1":
  ret i64 %"a b"
}
attributes #0 = { noreturn }
attributes #1 = { nounwind }
!n1 = !{!1}
!n2 = !{!0}
!0 = !{i64 1}
!1 = !{!"uno", !0}
!3 = !{%real 2.5}
`

// c12U uses attribute groups that are never defined (LLVM reads them as empty; the library keeps
// placeholders) from several top-level entities, so their first uses fall into different
// iterations of the translator's loops over its indices.
const c12U = `@gu = global i32 0 #11
declare void @u1() #7
declare void @u2() #3
define void @u3() #9 {
  call void @u1() #5
  ret void
}
define void @u4() #3 {
  call void @u2() #4
  ret void
}
define void @u5() #2 {
  call void @u2() #9
  ret void
}
attributes #3 = { nounwind }
`

// rejected inputs (naming faults far into the text; C2 has two faults).
const c12C = c12A + "@bad = global i32* @undefined\n"
const c12C2 = c12A + "@bad = global %undefinedtype* null\n@bad2 = global i32* @undefined2\n$c1 = comdat any\n"
const c12C3 = "define void @f() {\n  br label %nowhere\n}\n" + c12B

// type definitions that name other type definitions: chains of aliases of every kind of type, (LLVM
// wants each alias after the type it names; the translator resolves them through an index).
const c12T = `%e1 = type i32
%e2 = type %e1
%e3 = type %e2
%v1 = type <2 x i8>
%v2 = type %v1
%p1 = type i8*
%p2 = type %p1
%p3 = type %p2*
%s1 = type { %e3, %v2 }
%b1 = type i1
%b2 = type %b1
@a = global %e3 7
@b = global %v2 <i8 1, i8 2>
@c = global %p3 null
@d = global %s1 zeroinitializer
@e = global %b2 true
define %e3 @f(%e2 %x, %b2 %c) {
  %r = select %b2 %c, %e2 %x, %e1 5
  ret %e3 %r
}
`

// c12AS: globals and functions in address spaces, referenced through constant expressions whose
// type depends on the address space, from entities written before and after them (a translator that
// fills in the address space of an entity in map order types such an expression too early in some
// orders only).
const c12AS = `@g1 = addrspace(1) global [4 x i32] zeroinitializer
@p1 = global i32 addrspace(1)* getelementptr ([4 x i32], [4 x i32] addrspace(1)* @g1, i32 0, i32 1)
@p2 = global i32 addrspace(2)* getelementptr ([4 x i32], [4 x i32] addrspace(2)* @g2, i32 0, i32 2)
@g2 = addrspace(2) global [4 x i32] zeroinitializer
@sel = global i32 addrspace(1)* select (i1 icmp eq (i32 addrspace(2)* getelementptr ([4 x i32], [4 x i32] addrspace(2)* @g2, i32 0, i32 0), i32 addrspace(2)* null), i32 addrspace(1)* getelementptr ([4 x i32], [4 x i32] addrspace(1)* @g1, i32 0, i32 0), i32 addrspace(1)* null)
@fp = global void () addrspace(3)* @f
define void @f() addrspace(3) {
  %q = getelementptr [4 x i32], [4 x i32] addrspace(1)* @g1, i32 0, i32 3
  store i32 1, i32 addrspace(1)* %q
  store i32 2, i32 addrspace(2)* getelementptr ([4 x i32], [4 x i32] addrspace(2)* @g2, i32 0, i32 3)
  ret void
}
@a1 = alias i32, i32 addrspace(1)* getelementptr ([4 x i32], [4 x i32] addrspace(1)* @g1, i32 0, i32 1)
@bc = global i8 addrspace(3)* bitcast (void () addrspace(3)* @f to i8 addrspace(3)*)
@a3 = alias i32, i32 addrspace(1)* @a2
@a2 = alias i32, i32 addrspace(1)* @a1
@a4 = alias i8, i8 addrspace(1)* bitcast (i32 addrspace(1)* @a3 to i8 addrspace(1)*)
`

var c12inputs = []struct {
	name, text string
}{{"A", c12A}, {"B", c12B}, {"C-rejected", c12C}, {"C2-rejected-2faults", c12C2}, {"C3-rejected", c12C3}, {"P1", c13saltedN(c13P1, 7)}, {"P2", c13saltedN(c13P2, 7)}, {"U-undefined-attrgroups", c12U}, {"T-type-alias-chains", c12T}, {"AS-address-spaces", c12AS}}

// c12outcome parses text and returns "ERR" (rejected) or the printed module.
func c12outcome(parse func() (*ir.Module, error)) string {
	var out string
	p := fw.Try(func() {
		m, err := parse()
		if err != nil {
			out = "ERR"
			return
		}
		out = "OK\n" + m.String() + "\n; structure digest (pointer identity explicit): " + irwalk.Digest(m)
	})
	if p != "" {
		return "PANIC " + p
	}
	return out
}

func c12parseString(text string) string {
	return c12outcome(func() (*ir.Module, error) { return asm.ParseString("x.ll", text) })
}

// ---- (a) map iteration orders --------------------------------------------------------------------

type c12hit struct {
	site string
	n    int
}

type c12case struct {
	Part    string   `json:"part"`
	Input   string   `json:"input"`
	Hits    []string `json:"deviations,omitempty"`
	History []string `json:"history,omitempty"`
	Want    string   `json:"want,omitempty"`
	Got     string   `json:"got,omitempty"`
	What    string   `json:"what"`
}

func permsOf(n int) [][]int {
	if n > 4 {
		// identity-excluded family for large n: reverse, rotations, adjacent swaps.
		var out [][]int
		rev := make([]int, n)
		for i := range rev {
			rev[i] = n - 1 - i
		}
		out = append(out, rev)
		for r := 1; r < n; r++ {
			p := make([]int, n)
			for i := range p {
				p[i] = (i + r) % n
			}
			out = append(out, p)
		}
		for s := 0; s+1 < n; s++ {
			p := make([]int, n)
			for i := range p {
				p[i] = i
			}
			p[s], p[s+1] = p[s+1], p[s]
			out = append(out, p)
		}
		return out
	}
	base := make([]int, n)
	for i := range base {
		base[i] = i
	}
	var out [][]int
	permute(base, 0, func(p []int) {
		id := true
		for i, x := range p {
			if x != i {
				id = false
			}
		}
		if !id {
			out = append(out, append([]int(nil), p...))
		}
	})
	return out
}

// c12runArranged parses text with the given permutation installed at the given hit indices.
func c12runArranged(text string, dev map[int][]int) (out string, hits []c12hit) {
	idx := 0
	vhook.SiteHits = func(site string, n int) { hits = append(hits, c12hit{site, n}) }
	vhook.Arranger = func(n int, site string) []int {
		i := idx
		idx++
		if p, ok := dev[i]; ok && len(p) == n {
			return p
		}
		return nil
	}
	defer func() { vhook.Arranger, vhook.SiteHits = nil, nil }()
	out = c12parseString(text)
	return
}

// c12genInputs: batches of generated catalogue fragments (many keys per translator index).
func c12genInputs(bound int) []struct{ name, text string } {
	var vs []gen.Variant
	for i, e := range gen.Catalogue() {
		for _, v := range gen.Variants(e, i, bound) {
			if v.Solo {
				continue
			}
			if _, errs, pan := parseTry(gen.Module([]gen.Variant{v})); errs == "" && pan == "" {
				vs = append(vs, v)
			}
		}
	}
	var out []struct{ name, text string }
	const batch = 24
	for i := 0; i < len(vs); i += batch {
		j := i + batch
		if j > len(vs) {
			j = len(vs)
		}
		out = append(out, struct{ name, text string }{fmt.Sprintf("generated-batch-%d", i/batch), gen.Module(vs[i:j])})
	}
	return out
}

// c12moResult is what one map-order worker (one input) reports.
type c12moResult struct {
	Input string              `json:"input"`
	Cases int64               `json:"cases"`
	Sites []string            `json:"sites"`
	Hits  []string            `json:"hits"`
	Viols []c12moViol         `json:"violations"`
	Texts map[string]struct{} `json:"-"`
	Error string              `json:"error,omitempty"`
	Over  bool                `json:"over_budget"`
}

type c12moViol struct {
	Sig    string  `json:"signature"`
	Detail c12case `json:"detail"`
}

func c12moInputs(maxDev int) []struct{ name, text string } {
	inputs := append([]struct{ name, text string }(nil), c12inputs...)
	genBound := 0
	if maxDev >= 2 {
		genBound = 1
	}
	return append(inputs, c12genInputs(genBound)...)
}

// c12mapOrdersOne explores the map-order permutations of one input (the arranger is process-wide
// state, so inputs are explored in separate worker processes).
func c12mapOrdersOne(in struct{ name, text string }, maxDev int, deadline time.Time) c12moResult {
	res := c12moResult{Input: in.name}
	sitesSeen := map[string]bool{}
	generated := strings.HasPrefix(in.name, "generated-batch")
	base, hits := c12runArranged(in.text, nil)
	res.Cases++
	for _, h := range hits {
		sitesSeen[h.site] = true
		res.Hits = append(res.Hits, fmt.Sprintf("%s(%d keys)", h.site, h.n))
	}
	type dv struct {
		hit  int
		perm []int
	}
	var singles []dv
	for hi, h := range hits {
		for _, p := range permsOf(h.n) {
			singles = append(singles, dv{hi, p})
		}
	}
	seenSig := map[string]bool{}
	run := func(devs []dv) {
		m := map[int][]int{}
		var desc []string
		for _, d := range devs {
			m[d.hit] = d.perm
			desc = append(desc, fmt.Sprintf("%s#%d perm %v", hits[d.hit].site, d.hit, d.perm))
		}
		got, _ := c12runArranged(in.text, m)
		res.Cases++
		if got != base {
			what := "printed module differs"
			if strings.HasPrefix(got, "ERR") != strings.HasPrefix(base, "ERR") || strings.HasPrefix(got, "PANIC") != strings.HasPrefix(base, "PANIC") {
				what = "accept/reject verdict differs"
			}
			sig := "maporder/" + hits[devs[0].hit].site
			if !seenSig[sig] {
				seenSig[sig] = true
				res.Viols = append(res.Viols, c12moViol{sig, c12case{Part: "map-order", Input: in.name, Hits: desc, Want: fw.Trunc(base, 1500), Got: fw.Trunc(got, 1500), What: what}})
			}
		}
	}
	for _, d := range singles {
		run([]dv{d})
	}
	if maxDev >= 2 && !generated {
	pairs:
		for i := 0; i < len(singles); i++ {
			for j := i + 1; j < len(singles); j++ {
				if singles[i].hit == singles[j].hit {
					continue
				}
				if time.Now().After(deadline) {
					res.Over = true
					break pairs
				}
				run([]dv{singles[i], singles[j]})
			}
		}
	}
	for s := range sitesSeen {
		res.Sites = append(res.Sites, s)
	}
	sort.Strings(res.Sites)
	return res
}

func c12mapOrders(c *fw.Check, maxDev int) {
	sitesSeen := map[string]bool{}
	inputs := c12moInputs(maxDev)
	c.Extra["generated_batches_as_inputs"] = len(inputs) - len(c12inputs)
	results := make([]c12moResult, len(inputs))
	budget := 20 * time.Minute
	fw.ParallelFor(len(inputs), func(i int) {
		cmd := exec.Command(os.Args[0], "C12", "--tier", c.Tier, "--maporder-worker", fmt.Sprint(i), "--maxdev", fmt.Sprint(maxDev), "--budget-s", fmt.Sprint(int(budget.Seconds())))
		cmd.Env = append(os.Environ(), "GOMAXPROCS=1", "GORACE=halt_on_error=0 log_path=/dev/null atexit_sleep_ms=0")
		var so, se bytes.Buffer
		cmd.Stdout, cmd.Stderr = &so, &se
		err := cmd.Run()
		if e2 := json.Unmarshal(so.Bytes(), &results[i]); e2 != nil || err != nil {
			results[i].Error = fmt.Sprintf("worker failed: %v %v: %s", err, e2, fw.Trunc(se.String()+so.String(), 1500))
		}
	})
	for i, r := range results {
		if r.Error != "" {
			fw.Fatalf("C12 map-order worker for input %s: %s", inputs[i].name, r.Error)
		}
		c.DistinctN(r.Cases)
		c.Valid(r.Cases)
		c.Outcome("map|" + r.Input + fmt.Sprint(len(r.Viols)))
		if r.Over {
			c.Exhaustive = false
		}
		for _, s := range r.Sites {
			sitesSeen[s] = true
		}
		for _, v := range r.Viols {
			c.Violation(v.Sig, v.Detail)
		}
		if r.Input == "A" {
			c.Sample(map[string]interface{}{"input": "A", "map_range_hits_in_order": r.Hits, "deviation": "one (thorough: two) hits iterate in a non-sorted permutation"})
		}
	}
	var ss []string
	for s := range sitesSeen {
		ss = append(ss, s)
	}
	c.Extra["map_sites_exercised"] = len(ss)
	// all rewritten sites, from the overlay generator.
	if b, err := os.ReadFile(os.Getenv("VERIF_SITES")); err == nil {
		var sj struct {
			Sites []struct{ Site, Kind string }
		}
		json.Unmarshal(b, &sj)
		n := 0
		var missed []string
		for _, s := range sj.Sites {
			if s.Kind == "map-range" {
				n++
				if !sitesSeen[s.Site] {
					missed = append(missed, s.Site)
				}
			}
		}
		c.Extra["map_sites_in_tree"] = n
		c.Extra["map_sites_not_reached_with_2+_keys"] = missed
	}
}

// ---- (b) histories and entry points --------------------------------------------------------------

// slowReader yields data in the given mode: "byte" one byte per call, "eof" all data together with
// io.EOF, "zero" interspersed (0, nil) reads.
type slowReader struct {
	data []byte
	mode string
	tick int
}

func (r *slowReader) Read(p []byte) (int, error) {
	r.tick++
	switch r.mode {
	case "byte":
		if len(r.data) == 0 {
			return 0, io.EOF
		}
		p[0] = r.data[0]
		r.data = r.data[1:]
		return 1, nil
	case "eof":
		n := copy(p, r.data)
		r.data = r.data[n:]
		if len(r.data) == 0 {
			return n, io.EOF
		}
		return n, nil
	case "zero":
		if r.tick%2 == 1 {
			return 0, nil
		}
		if len(r.data) == 0 {
			return 0, io.EOF
		}
		n := 7
		if n > len(r.data) {
			n = len(r.data)
		}
		n = copy(p, r.data[:n])
		r.data = r.data[n:]
		return n, nil
	}
	n := copy(p, r.data)
	r.data = r.data[n:]
	if n == 0 {
		return 0, io.EOF
	}
	return n, nil
}

type c12op struct {
	name string
	in   int // index into c12inputs; -1 for print
	run  func(text string, last *ir.Module) (string, *ir.Module)
}

func c12ops(tmp string) []c12op {
	keep := func(parse func() (*ir.Module, error)) (string, *ir.Module) {
		var m *ir.Module
		out := c12outcome(func() (*ir.Module, error) {
			var err error
			m, err = parse()
			return m, err
		})
		return out, m
	}
	mk := func(name string, in int, f func(text string) (*ir.Module, error)) c12op {
		return c12op{name, in, func(text string, _ *ir.Module) (string, *ir.Module) {
			return keep(func() (*ir.Module, error) { return f(text) })
		}}
	}
	ops := []c12op{}
	for i, in := range c12inputs[:4] {
		ops = append(ops, mk("ParseString("+in.name+")", i, func(t string) (*ir.Module, error) { return asm.ParseString("x.ll", t) }))
	}
	ops = append(ops,
		mk("ParseBytes(A), caller's buffer overwritten afterwards", 0, func(t string) (*ir.Module, error) {
			b := []byte(t)
			m, err := asm.ParseBytes("x.ll", b)
			// the caller owns the buffer again when ParseBytes has returned (a loop reading
			// successive inputs into one buffer): the module must not depend on it.
			for i := range b {
				b[i] = 'X'
			}
			return m, err
		}),
		mk("Parse(reader,all)(A)", 0, func(t string) (*ir.Module, error) { return asm.Parse("x.ll", &slowReader{data: []byte(t)}) }),
		mk("Parse(reader,1byte)(B)", 1, func(t string) (*ir.Module, error) {
			return asm.Parse("x.ll", &slowReader{data: []byte(t), mode: "byte"})
		}),
		mk("Parse(reader,data+EOF)(A)", 0, func(t string) (*ir.Module, error) {
			return asm.Parse("x.ll", &slowReader{data: []byte(t), mode: "eof"})
		}),
		mk("Parse(reader,zero-reads)(B)", 1, func(t string) (*ir.Module, error) {
			return asm.Parse("x.ll", &slowReader{data: []byte(t), mode: "zero"})
		}),
		mk("ParseFile(A)", 0, func(t string) (*ir.Module, error) {
			p := filepath.Join(tmp, "c12a.ll")
			os.WriteFile(p, []byte(t), 0o644)
			return asm.ParseFile(p)
		}),
		c12op{"print(last)", -1, func(_ string, last *ir.Module) (string, *ir.Module) {
			if last == nil {
				return "", nil
			}
			var s string
			if p := fw.Try(func() { s = last.String() }); p != "" {
				return "PANIC " + p, last
			}
			return "PRINT\n" + s, last
		}},
	)
	return ops
}

func c12histories(c *fw.Check, depth int, ref map[string]string) {
	tmp := os.Getenv("VERIF_RUN")
	if tmp == "" {
		tmp = os.TempDir()
	}
	ops := c12ops(tmp)
	var rec func(hist []int)
	n := 0
	rec = func(hist []int) {
		if len(hist) > 0 {
			// replay the whole history in this (long-lived) process.
			var last *ir.Module
			var lastText string
			var names []string
			for _, oi := range hist {
				op := ops[oi]
				names = append(names, op.name)
				text := ""
				if op.in >= 0 {
					text = c12inputs[op.in].text
				}
				out, m := op.run(text, last)
				if m != nil && op.in >= 0 {
					last = m
					lastText = ""
					if strings.HasPrefix(out, "OK\n") {
						lastText = strings.TrimPrefix(out, "OK\n")
						if i := strings.Index(lastText, "\n; structure digest"); i >= 0 {
							lastText = lastText[:i]
						}
					}
				}
				c.Step(1)
				if op.in >= 0 {
					want := ref[c12inputs[op.in].name]
					if out != want {
						c.Violation("history/"+op.name, c12case{Part: "history", Input: c12inputs[op.in].name, History: names, Want: fw.Trunc(want, 1500), Got: fw.Trunc(out, 1500), What: "result differs from a fresh process parsing the same text"})
					}
				} else if m != nil {
					// print of the last module must equal what that parse printed.
					if strings.HasPrefix(out, "PANIC") {
						c.Violation("history/print-panic", c12case{Part: "history", History: names, Got: out, What: "printing an earlier module panics"})
					} else if lastText != "" && strings.TrimPrefix(out, "PRINT\n") != lastText {
						c.Violation("history/print-differs-later", c12case{Part: "history", History: names, Want: fw.Trunc(lastText, 1500), Got: fw.Trunc(out, 1500), What: "a module prints differently later in the process than right after it was parsed"})
					}
				}
			}
			n++
			c.Case("hist|"+fmt.Sprint(hist), fmt.Sprint(len(names)))
			c.Valid(1)
			if n == 5 {
				c.Sample(map[string]interface{}{"history": names, "oracle": "each parse equals the fresh-process result for that text"})
			}
		}
		if len(hist) == depth {
			return
		}
		for i := range ops {
			rec(append(append([]int(nil), hist...), i))
		}
	}
	rec(nil)
	c.Extra["histories"] = n
}

// c12fresh computes the reference outcomes in a fresh process (one parse per process).
func c12fresh() map[string]string {
	ref := map[string]string{}
	out := make([]string, len(c12inputs))
	fw.ParallelFor(len(c12inputs), func(i int) {
		cmd := exec.Command(os.Args[0], "C12", "--fresh", fmt.Sprint(i))
		cmd.Env = append(os.Environ(), "GORACE=halt_on_error=0 atexit_sleep_ms=0")
		var so, se bytes.Buffer
		cmd.Stdout, cmd.Stderr = &so, &se
		if err := cmd.Run(); err != nil {
			out[i] = "FRESH-PROCESS-FAILED " + err.Error() + " " + fw.Trunc(se.String(), 500)
			return
		}
		out[i] = so.String()
	})
	for i, in := range c12inputs {
		ref[in.name] = out[i]
	}
	return ref
}

// ---- (c) concurrency -----------------------------------------------------------------------------

func init() {
	schedRegistry["C12"] = func(quick bool) []schedScenario {
		type th struct {
			name string
			run  func(k2 *ir.Module) string
		}
		parse := func(i int) th {
			return th{"parse " + c12inputs[i].name, func(*ir.Module) string { return c12parseString(c12inputs[i].text) }}
		}
		printK2 := th{"print earlier module", func(k2 *ir.Module) string { return k2.String() }}
		sets := [][]th{
			{parse(0), parse(1)}, {parse(0), parse(0)}, {parse(0), printK2}, {parse(2), parse(0)}, {parse(3), parse(1)}, {parse(5), parse(6)},
			{parse(0), parse(1), printK2},
		}
		var out []schedScenario
		for _, set := range sets {
			set := set
			var ns []string
			for _, t := range set {
				ns = append(ns, t.name)
			}
			// Parsing threads share no mutex (each function has its own), so schedules differ only
			// in how independent steps are ordered and the race detector's verdict does not depend
			// on it; a preemption bound keeps the exploration small.
			b := 2
			if !quick {
				b = 3
			}
			out = append(out, schedScenario{
				Name: strings.Join(ns, " || "), Tag: "conc", Bound: b, MaxExec: 200000, Shards: map[bool]int{true: 8, false: 1}[len(set) > 2],
				Fresh: func() ([]func() string, []string) {
					k2 := c13parse(c12B)
					_ = k2.String()
					var bs []func() string
					for _, t := range set {
						t := t
						bs = append(bs, func() string { return t.run(k2) })
					}
					return bs, ns
				},
				Want: func() []string {
					var w []string
					for _, t := range set {
						k2 := c13parse(c12B)
						_ = k2.String()
						w = append(w, t.run(k2))
					}
					return w
				},
			})
		}
		return out
	}
}

func runC12(c *fw.Check) {
	if hasArg("--fresh") {
		var i int
		fmt.Sscan(argValue("--fresh"), &i)
		os.Stdout.WriteString(c12parseString(c12inputs[i].text))
		os.Exit(0)
	}
	if hasArg("--worker") {
		schedWorkerMain("C12")
	}
	if hasArg("--leak-worker") {
		c12leakWorker()
	}
	if hasArg("--maporder-worker") {
		var i, md, bs int
		fmt.Sscan(argValue("--maporder-worker"), &i)
		fmt.Sscan(argValue("--maxdev"), &md)
		fmt.Sscan(argValue("--budget-s"), &bs)
		ins := c12moInputs(md)
		var r c12moResult
		if p := fw.Try(func() { r = c12mapOrdersOne(ins[i], md, time.Now().Add(time.Duration(bs)*time.Second)) }); p != "" {
			r.Error = "panic in map-order worker: " + p
		}
		b, _ := json.Marshal(r)
		os.Stdout.Write(b)
		os.Exit(0)
	}
	c13requireFull()
	c.Rule = "three owned sources of nondeterminism, each ENUMERATED on the real translator: (a) every `for range map` loop of asm/ir (rewritten through the overlay by go/types, so new loops are included) iterates in canonical order; for each input all non-identity permutations at one hit (thorough: at every pair of hits) are executed and accept/reject + printed text compared with the default order; (b) all histories of depth<=D over {ParseString A/B/rejected C/C2, ParseBytes, Parse(reader: all-at-once, 1 byte/call, data+EOF, zero-length reads), ParseFile, print(last)} in one long-lived process against fresh-process references; A and B reuse the same names/literals/IDs with different meanings; (c) all schedules (vhook scheduler, TSan on each) of concurrent parses/prints; (d) leak matrix: every catalogue variant with <=1 (thorough <=2) deviations is the FIRST parse of a fresh process, which then parses every production in its simplest form (thorough: <=1 deviations), parses the first input again and prints all modules again: every result equals the result of the same text as first parse of a fresh process. distinct = distinct (input,permutation set) + histories + schedules."
	ref := c12fresh()
	for k, v := range ref {
		if strings.HasPrefix(v, "FRESH-PROCESS-FAILED") {
			fw.Fatalf("C12 fresh process for %s: %s", k, v)
		}
		if strings.HasPrefix(v, "PANIC") {
			c.Violation("fresh/panic/"+k, c12case{Part: "fresh", Input: k, Got: v, What: "parsing panics"})
		}
	}
	// in-process first parse must equal the fresh-process reference too.
	maxDev, depth := 1, 3
	if !c.Quick() {
		maxDev, depth = 2, 4
		c.SetBudget(25 * 60 * 1e9)
	}
	for _, k := range []string{"A", "B", "P1", "P2", "U-undefined-attrgroups"} {
		if !strings.HasPrefix(ref[k], "OK") {
			fw.Fatalf("C12 input %s is meant to be accepted but: %s", k, fw.Trunc(ref[k], 300))
		}
		if fw.HaveLLVM() {
			for _, in := range c12inputs {
				if in.name == k {
					if ok, e := fw.LLVMAccepts(in.text); !ok {
						fw.Fatalf("C12 input %s rejected by LLVM: %s", k, e)
					}
				}
			}
		}
	}
	t0 := time.Now()
	c12mapOrders(c, maxDev)
	c.Extra["wall_map_orders_s"] = time.Since(t0).Seconds()
	t0 = time.Now()
	c12histories(c, depth, ref)
	c.Extra["wall_histories_s"] = time.Since(t0).Seconds()
	t0 = time.Now()
	c12leakMatrix(c)
	c.Extra["wall_leak_matrix_s"] = time.Since(t0).Seconds()
	// (c)
	scs := schedRegistry["C12"](c.Quick())
	names := make([]string, len(scs))
	for i, sc := range scs {
		names[i] = sc.Name
	}
	results := spawnWorkers("C12", names, c.Tier)
	c13merge(c, "C12", results)
}

func replayC12(c *fw.Check, path string) {
	var d map[string]interface{}
	loadReplay(path, &d)
	b, _ := json.MarshalIndent(d, "", " ")
	fmt.Printf("replay case:\n%s\n", fw.Trunc(string(b), 3000))
	if sc, ok := d["scenario"].(string); ok {
		c13requireFull()
		sj, _ := json.Marshal(d["schedule"])
		res := spawnWorkers("C12", []string{sc}, c.Tier, "--schedule", string(sj))
		c13merge(c, "C12", res)
	} else {
		// map-order / history cases re-run the whole (cheap) quick exploration of that part.
		ref := c12fresh()
		if d["part"] == "map-order" {
			c12mapOrders(c, 1)
		} else {
			c12histories(c, 2, ref)
		}
	}
	c.Case("replay", "x")
	c.Case("replay2", "y")
}
