package props

import (
	"fmt"
	"regexp"
	"sort"
	"strings"
	"sync"

	"github.com/llir/llvm/ir"
	"github.com/llir/llvm/ir/constant"
	"github.com/llir/llvm/ir/metadata"
	"github.com/llir/llvm/ir/types"
	"github.com/llir/llvm/ir/value"

	"verif/fw"
)

func init() { Registry["C11"] = Prop{Run: runC11, Replay: replayC11} }

// refUnescape is the reference decoder of LLVM's \XX / \\ escapes (written from LLVM's lexer).
func refUnescape(s string) string {
	var b []byte
	for i := 0; i < len(s); i++ {
		if s[i] == '\\' && i+1 < len(s) {
			if s[i+1] == '\\' {
				b = append(b, '\\')
				i++
				continue
			}
			if i+2 < len(s) && ishex(s[i+1]) && ishex(s[i+2]) {
				b = append(b, hexv(s[i+1])<<4|hexv(s[i+2]))
				i += 2
				continue
			}
		}
		b = append(b, s[i])
	}
	return string(b)
}

func ishex(c byte) bool {
	return c >= '0' && c <= '9' || c >= 'a' && c <= 'f' || c >= 'A' && c <= 'F'
}

func hexv(c byte) byte {
	switch {
	case c >= '0' && c <= '9':
		return c - '0'
	case c >= 'a' && c <= 'f':
		return c - 'a' + 10
	}
	return c - 'A' + 10
}

// decodeIdent decodes an identifier token body (after the sigil): quoted or bare.
func decodeIdent(tok string) string {
	if len(tok) >= 2 && tok[0] == '"' && tok[len(tok)-1] == '"' {
		return refUnescape(tok[1 : len(tok)-1])
	}
	return refUnescape(tok)
}

// c11pos is one identifier / string position of the grammar.
type c11pos struct {
	name    string
	nul     bool // NUL bytes allowed
	build   func(m *ir.Module, i int, s string)
	extract func(m *ir.Module) []string // values read back from a parsed module, in build order
	llvm    func(out string, n int) []string
	kind    string // ident / string
}

var (
	reGlobalI   = regexp.MustCompile(`(?m)^@(.*) = global i32 (\d+)$`)
	reParam     = regexp.MustCompile(`(?m)^define void @zzl(\d+)\(i32 %(.*)\) \{$`)
	reTypeDef   = regexp.MustCompile(`(?m)^%(.*) = type \{ i32, \[(\d+) x i8\] \}$`)
	reComdatUse = regexp.MustCompile(`(?m)^@zzc(\d+) = global i32 0, comdat\(\$(.*)\)$`)
	reSection   = regexp.MustCompile(`(?m)^@zzs(\d+) = global i32 0, section "(.*)"$`)
	rePartition = regexp.MustCompile(`(?m)^@zzp(\d+) = global i32 0, partition "(.*)"$`)
	reGC        = regexp.MustCompile(`(?s)define void @zzgc(\d+)\(\) gc "(.*?)" \{\n`)
	reAsm       = regexp.MustCompile(`(?m)^  call void asm "(.*)", ""\(\)$`)
	reMDStr     = regexp.MustCompile(`(?m)^!\d+ = !\{!"(.*)", i32 (\d+)\}$`)
	reCharArr   = regexp.MustCompile(`(?m)^@zzca(\d+) = global \[\d+ x i8\] (c"(.*)"|zeroinitializer)$`)
	reNodeI     = regexp.MustCompile(`(?m)^!(\d+) = !\{i32 (\d+)\}$`)
	reNamedMD   = regexp.MustCompile(`(?m)^!(.*) = !\{!(\d+)\}$`)
	reAttrFn    = regexp.MustCompile(`(?m)^declare void @zza(\d+)\(\) #(\d+)$`)
	reAttrGrp   = regexp.MustCompile(`(?s)attributes #(\d+) = \{ "(.*?)" \}\n`)
	reGlobalRef = regexp.MustCompile(`(?m)^@zzr(\d+) = global i32\* @(.*)$`)
	reCallee    = regexp.MustCompile(`(?s)define void @zzk(\d+)\(\) \{\n  call void @(.*?)\(\)\n  ret void\n\}`)
	reInstRes   = regexp.MustCompile(`(?s)define i32 @zzi(\d+)\(i32 %zzp\) \{\n  %(.*?) = add i32 %zzp, \d+\n  ret i32 %(.*?)\n\}`)
	reParamRef  = regexp.MustCompile(`(?s)define i32 @zzq(\d+)\(i32 %(.*?)\) \{\n  ret i32 %(.*?)\n\}`)
	reInvokeRes = regexp.MustCompile(`(?s)define i32 @zzv(\d+)\(\) personality [^\n]* \{\n  %(.*?) = invoke i32 @zzcallee\(\)\n\s+to label %zzok unwind label %zzlp\n\nzzok:[^\n]*\n  ret i32 %(.*?)\n\nzzlp:`)
	reBlockAddr = regexp.MustCompile(`(?m)^@zzba(\d+) = global i8\* blockaddress\(@zzbaf, %(.*)\)$`)
	reTogether  = regexp.MustCompile(`(?m)^  %(.*) = add i32 %zzp, (\d+)$`)
	reLabel     = regexp.MustCompile(`(?m)^define void @zzb(\d+)\(\) \{\n  br label %.*\n\n(.*):\s*(?:;.*)?\n`)
)

func byIndex(n int, ms [][]string, idxGroup, valGroup int, dec func(string) string) []string {
	out := make([]string, n)
	for i := range out {
		out[i] = "\x00<missing>"
	}
	for _, m := range ms {
		var i int
		fmt.Sscan(m[idxGroup], &i)
		if i >= 0 && i < n {
			out[i] = dec(m[valGroup])
		}
	}
	return out
}

// defUse folds regexp matches (index, definition token, use token) into (index, token), marking
// matches whose use token differs from the definition token.
func defUse(ms [][]string) [][]string {
	var out [][]string
	for _, m := range ms {
		v := m[2]
		if m[3] != m[2] {
			v = m[2] + " <> " + m[3]
		}
		out = append(out, []string{m[0], m[1], v})
	}
	return out
}

func c11positions() []c11pos {
	voidFn := func(m *ir.Module, name string) *ir.Func {
		f := m.NewFunc(name, types.Void)
		return f
	}
	return []c11pos{
		{name: "global", kind: "ident",
			build: func(m *ir.Module, i int, s string) { m.NewGlobalDef(s, constant.NewInt(types.I32, int64(i))) },
			extract: func(m *ir.Module) []string {
				var o []string
				for _, g := range m.Globals {
					o = append(o, g.GlobalName)
				}
				return o
			},
			llvm: func(out string, n int) []string {
				return byIndex(n, reGlobalI.FindAllStringSubmatch(out, -1), 2, 1, decodeIdent)
			}},
		{name: "local", kind: "ident",
			build: func(m *ir.Module, i int, s string) {
				f := m.NewFunc(fmt.Sprintf("zzl%d", i), types.Void, ir.NewParam(s, types.I32))
				f.NewBlock("entry").NewRet(nil)
			},
			extract: func(m *ir.Module) []string {
				var o []string
				for _, f := range m.Funcs {
					o = append(o, f.Params[0].LocalName)
				}
				return o
			},
			llvm: func(out string, n int) []string {
				return byIndex(n, reParam.FindAllStringSubmatch(out, -1), 1, 2, decodeIdent)
			}},
		{name: "label", kind: "ident",
			build: func(m *ir.Module, i int, s string) {
				f := voidFn(m, fmt.Sprintf("zzb%d", i))
				e := f.NewBlock("")
				b := f.NewBlock(s)
				e.NewBr(b)
				b.NewRet(nil)
			},
			extract: func(m *ir.Module) []string {
				var o []string
				for _, f := range m.Funcs {
					o = append(o, f.Blocks[1].LocalName)
				}
				return o
			},
			llvm: func(out string, n int) []string {
				return byIndex(n, reLabel.FindAllStringSubmatch(out, -1), 1, 2, decodeIdent)
			}},
		{name: "type", kind: "ident",
			build: func(m *ir.Module, i int, s string) {
				t := m.NewTypeDef(s, types.NewStruct(types.I32, types.NewArray(uint64(i), types.I8)))
				m.NewGlobalDef(fmt.Sprintf("zzt%d", i), constant.NewZeroInitializer(t))
			},
			extract: func(m *ir.Module) []string {
				// TypeDefs are sorted by name: identify each by its array length.
				o := make([]string, len(m.TypeDefs))
				for _, t := range m.TypeDefs {
					if st, ok := t.(*types.StructType); ok && len(st.Fields) == 2 {
						if at, ok := st.Fields[1].(*types.ArrayType); ok && int(at.Len) < len(o) {
							o[at.Len] = t.Name()
						}
					}
				}
				return o
			},
			llvm: func(out string, n int) []string {
				return byIndex(n, reTypeDef.FindAllStringSubmatch(out, -1), 2, 1, decodeIdent)
			}},
		{name: "comdat", kind: "ident",
			build: func(m *ir.Module, i int, s string) {
				cd := &ir.ComdatDef{Name: s}
				m.ComdatDefs = append(m.ComdatDefs, cd)
				g := m.NewGlobalDef(fmt.Sprintf("zzc%d", i), constant.NewInt(types.I32, 0))
				g.Comdat = cd
			},
			extract: func(m *ir.Module) []string {
				var o []string
				for _, g := range m.Globals {
					if g.Comdat != nil {
						o = append(o, g.Comdat.Name)
					} else {
						o = append(o, "\x00<no comdat>")
					}
				}
				return o
			},
			llvm: func(out string, n int) []string {
				return byIndex(n, reComdatUse.FindAllStringSubmatch(out, -1), 1, 2, decodeIdent)
			}},
		// --- definition AND use: the reference must resolve to the definition -----------------
		{name: "global-ref", kind: "ident",
			build: func(m *ir.Module, i int, s string) {
				g := m.NewGlobalDef(s, constant.NewInt(types.I32, int64(i)))
				m.NewGlobalDef(fmt.Sprintf("zzr%d", i), g)
			},
			extract: func(m *ir.Module) []string {
				var o []string
				for _, g := range m.Globals {
					if r, ok := g.Init.(*ir.Global); ok {
						o = append(o, r.GlobalName)
					}
				}
				return o
			},
			llvm: func(out string, n int) []string {
				return byIndex(n, reGlobalRef.FindAllStringSubmatch(out, -1), 1, 2, decodeIdent)
			}},
		{name: "callee", kind: "ident",
			build: func(m *ir.Module, i int, s string) {
				callee := m.NewFunc(s, types.Void)
				f := voidFn(m, fmt.Sprintf("zzk%d", i))
				b := f.NewBlock("")
				b.NewCall(callee)
				b.NewRet(nil)
			},
			extract: func(m *ir.Module) []string {
				var o []string
				for _, f := range m.Funcs {
					if len(f.Blocks) == 1 && len(f.Blocks[0].Insts) == 1 {
						if call, ok := f.Blocks[0].Insts[0].(*ir.InstCall); ok {
							if cf, ok := call.Callee.(*ir.Func); ok {
								o = append(o, cf.GlobalName)
							} else {
								o = append(o, fmt.Sprintf("\x00<%T>", call.Callee))
							}
						}
					}
				}
				return o
			},
			llvm: func(out string, n int) []string {
				return byIndex(n, reCallee.FindAllStringSubmatch(out, -1), 1, 2, decodeIdent)
			}},
		{name: "inst-result", kind: "ident",
			build: func(m *ir.Module, i int, s string) {
				p := ir.NewParam("zzp", types.I32)
				f := m.NewFunc(fmt.Sprintf("zzi%d", i), types.I32, p)
				b := f.NewBlock("")
				r := b.NewAdd(p, constant.NewInt(types.I32, int64(i)))
				r.SetName(s)
				b.NewRet(r)
			},
			extract: func(m *ir.Module) []string {
				var o []string
				for _, f := range m.Funcs {
					v := "\x00<shape>"
					if len(f.Blocks) == 1 && len(f.Blocks[0].Insts) == 1 {
						if add, ok := f.Blocks[0].Insts[0].(*ir.InstAdd); ok {
							v = add.LocalName
							if ret, ok := f.Blocks[0].Term.(*ir.TermRet); !ok || ret.X != value.Value(add) {
								v += "\x00<use does not resolve to the definition>"
							}
						}
					}
					o = append(o, v)
				}
				return o
			},
			llvm: func(out string, n int) []string {
				return byIndex(n, defUse(reInstRes.FindAllStringSubmatch(out, -1)), 1, 2, decodeIdent)
			}},
		{name: "param-ref", kind: "ident",
			build: func(m *ir.Module, i int, s string) {
				p := ir.NewParam(s, types.I32)
				f := m.NewFunc(fmt.Sprintf("zzq%d", i), types.I32, p)
				f.NewBlock("").NewRet(p)
			},
			extract: func(m *ir.Module) []string {
				var o []string
				for _, f := range m.Funcs {
					v := f.Params[0].LocalName
					if ret, ok := f.Blocks[0].Term.(*ir.TermRet); !ok || ret.X != value.Value(f.Params[0]) {
						v += "\x00<use does not resolve to the definition>"
					}
					o = append(o, v)
				}
				return o
			},
			llvm: func(out string, n int) []string {
				return byIndex(n, defUse(reParamRef.FindAllStringSubmatch(out, -1)), 1, 2, decodeIdent)
			}},
		{name: "invoke-result", kind: "ident",
			build: func(m *ir.Module, i int, s string) {
				var pers, callee *ir.Func
				for _, f := range m.Funcs {
					switch f.GlobalName {
					case "zzpers":
						pers = f
					case "zzcallee":
						callee = f
					}
				}
				if pers == nil {
					pers = m.NewFunc("zzpers", types.I32)
					pers.Sig.Variadic = true
					callee = m.NewFunc("zzcallee", types.I32)
				}
				f := m.NewFunc(fmt.Sprintf("zzv%d", i), types.I32)
				f.Personality = pers
				e, ok, lp := f.NewBlock(""), f.NewBlock("zzok"), f.NewBlock("zzlp")
				inv := e.NewInvoke(callee, nil, ok, lp)
				inv.SetName(s)
				ok.NewRet(inv)
				l := lp.NewLandingPad(types.NewStruct(types.I8Ptr, types.I32))
				l.Cleanup = true
				lp.NewRet(constant.NewInt(types.I32, 0))
			},
			extract: func(m *ir.Module) []string {
				var o []string
				for _, f := range m.Funcs {
					if len(f.Blocks) != 3 {
						continue
					}
					v := "\x00<shape>"
					if inv, ok := f.Blocks[0].Term.(*ir.TermInvoke); ok {
						v = inv.LocalName
						if ret, ok := f.Blocks[1].Term.(*ir.TermRet); !ok || ret.X != value.Value(inv) {
							v += "\x00<use does not resolve to the definition>"
						}
					}
					o = append(o, v)
				}
				return o
			},
			llvm: func(out string, n int) []string {
				return byIndex(n, defUse(reInvokeRes.FindAllStringSubmatch(out, -1)), 1, 2, decodeIdent)
			}},
		{name: "label-blockaddress", kind: "ident",
			// ALL names of the chunk are labels of ONE function, each the target of a
			// blockaddress: a label must be found again among labels that look alike.
			build: func(m *ir.Module, i int, s string) {
				var f *ir.Func
				for _, g := range m.Funcs {
					if g.GlobalName == "zzbaf" {
						f = g
					}
				}
				if f == nil {
					f = voidFn(m, "zzbaf")
					f.NewBlock("zzentry").NewUnreachable()
				}
				b := f.NewBlock(s)
				b.NewUnreachable()
				m.NewGlobalDef(fmt.Sprintf("zzba%d", i), constant.NewBlockAddress(f, b))
			},
			extract: func(m *ir.Module) []string {
				var o []string
				for _, g := range m.Globals {
					ba, ok := g.Init.(*constant.BlockAddress)
					if !ok {
						continue
					}
					if b, ok := ba.Block.(*ir.Block); ok {
						o = append(o, b.LocalName)
					} else {
						o = append(o, fmt.Sprintf("\x00<%T>", ba.Block))
					}
				}
				return o
			},
			llvm: func(out string, n int) []string {
				return byIndex(n, reBlockAddr.FindAllStringSubmatch(out, -1), 1, 2, decodeIdent)
			}},
		{name: "locals-together", kind: "ident",
			// ALL names of the chunk are results in ONE function (an index of locals that
			// conflates look-alike names reports a duplicate or resolves the wrong value).
			build: func(m *ir.Module, i int, s string) {
				var f *ir.Func
				for _, g := range m.Funcs {
					if g.GlobalName == "zzlt" {
						f = g
					}
				}
				if f == nil {
					f = m.NewFunc("zzlt", types.Void, ir.NewParam("zzp", types.I32))
					f.NewBlock("zzentry")
				}
				b := f.Blocks[0]
				b.Term = nil
				r := b.NewAdd(f.Params[0], constant.NewInt(types.I32, int64(i)))
				r.SetName(s)
				b.NewRet(nil)
			},
			extract: func(m *ir.Module) []string {
				var o []string
				for _, f := range m.Funcs {
					if f.GlobalName != "zzlt" {
						continue
					}
					for _, in := range f.Blocks[0].Insts {
						if a, ok := in.(*ir.InstAdd); ok {
							o = append(o, a.LocalName)
						}
					}
				}
				return o
			},
			llvm: func(out string, n int) []string {
				return byIndex(n, reTogether.FindAllStringSubmatch(out, -1), 2, 1, decodeIdent)
			}},
		{name: "metadata-name", kind: "ident",
			build: func(m *ir.Module, i int, s string) {
				node := &metadata.Tuple{MetadataID: -1, Fields: []metadata.Field{constant.NewInt(types.I32, int64(i))}}
				m.MetadataDefs = append(m.MetadataDefs, node)
				m.NamedMetadataDefs[s] = &metadata.NamedDef{Name: s, Nodes: []metadata.Node{node}}
			},
			extract: func(m *ir.Module) []string {
				o := make([]string, len(m.MetadataDefs))
				for name, nm := range m.NamedMetadataDefs {
					if len(nm.Nodes) == 1 {
						if t, ok := nm.Nodes[0].(*metadata.Tuple); ok && len(t.Fields) == 1 {
							if k, ok := t.Fields[0].(*constant.Int); ok && k.X.IsInt64() && int(k.X.Int64()) < len(o) {
								o[k.X.Int64()] = name
							}
						}
					}
				}
				return o
			},
			llvm: func(out string, n int) []string {
				node := map[string]string{}
				for _, m := range reNodeI.FindAllStringSubmatch(out, -1) {
					node[m[1]] = m[2]
				}
				var ms [][]string
				for _, m := range reNamedMD.FindAllStringSubmatch(out, -1) {
					if len(m[1]) > 0 && m[1][0] >= '0' && m[1][0] <= '9' {
						continue
					}
					if i, ok := node[m[2]]; ok {
						ms = append(ms, []string{"", m[1], i})
					}
				}
				return byIndex(n, ms, 2, 1, refUnescape)
			}},
		{name: "attribute-string", kind: "string",
			build: func(m *ir.Module, i int, s string) {
				f := voidFn(m, fmt.Sprintf("zza%d", i))
				f.FuncAttrs = append(f.FuncAttrs, ir.AttrString(s))
			},
			extract: func(m *ir.Module) []string {
				var o []string
				for _, f := range m.Funcs {
					v := "\x00<none>"
					for _, a := range f.FuncAttrs {
						switch a := a.(type) {
						case ir.AttrString:
							v = string(a)
						case *ir.AttrGroupDef:
							for _, b := range a.FuncAttrs {
								if s, ok := b.(ir.AttrString); ok {
									v = string(s)
								}
							}
						}
					}
					o = append(o, v)
				}
				return o
			},
			llvm: func(out string, n int) []string {
				grp := map[string]string{}
				for _, m := range reAttrGrp.FindAllStringSubmatch(out, -1) {
					grp[m[1]] = m[2]
				}
				var ms [][]string
				for _, m := range reAttrFn.FindAllStringSubmatch(out, -1) {
					if g, ok := grp[m[2]]; ok {
						ms = append(ms, []string{"", m[1], g})
					}
				}
				// LLVM 14 prints attribute strings RAW (no escaping): compare the raw bytes.
				return byIndex(n, ms, 1, 2, func(x string) string { return x })
			}},
		{name: "attrgroup-string+pair", kind: "string",
			build: func(m *ir.Module, i int, s string) {
				f := voidFn(m, fmt.Sprintf("zzag%d", i))
				g := &ir.AttrGroupDef{ID: int64(i), FuncAttrs: []ir.FuncAttribute{ir.AttrString(s), ir.AttrPair{Key: "k" + s, Value: s}}}
				m.AttrGroupDefs = append(m.AttrGroupDefs, g)
				f.FuncAttrs = append(f.FuncAttrs, g)
			},
			extract: func(m *ir.Module) []string {
				var o []string
				for _, f := range m.Funcs {
					v := "\x00<none>"
					for _, a := range f.FuncAttrs {
						if g, ok := a.(*ir.AttrGroupDef); ok && len(g.FuncAttrs) == 2 {
							s1, ok1 := g.FuncAttrs[0].(ir.AttrString)
							p2, ok2 := g.FuncAttrs[1].(ir.AttrPair)
							if ok1 && ok2 && p2.Key == "k"+string(s1) && p2.Value == string(s1) {
								v = string(s1)
							} else if ok1 && ok2 {
								v = "\x00<inconsistent: " + string(s1) + " / " + p2.Key + "=" + p2.Value + ">"
							}
						}
					}
					o = append(o, v)
				}
				return o
			},
			llvm: func(out string, n int) []string {
				// LLVM merges/sorts attributes: only acceptance is checked here (decoding is done
				// for the inline attribute-string position).
				o := make([]string, n)
				for i := range o {
					o[i] = "\x00<skip>"
				}
				return o
			}},
		{name: "section", kind: "string",
			build: func(m *ir.Module, i int, s string) {
				m.NewGlobalDef(fmt.Sprintf("zzs%d", i), constant.NewInt(types.I32, 0)).Section = s
			},
			extract: func(m *ir.Module) []string {
				var o []string
				for _, g := range m.Globals {
					o = append(o, g.Section)
				}
				return o
			},
			llvm: func(out string, n int) []string {
				return byIndex(n, reSection.FindAllStringSubmatch(out, -1), 1, 2, refUnescape)
			}},
		{name: "partition", kind: "string",
			build: func(m *ir.Module, i int, s string) {
				m.NewGlobalDef(fmt.Sprintf("zzp%d", i), constant.NewInt(types.I32, 0)).Partition = s
			},
			extract: func(m *ir.Module) []string {
				var o []string
				for _, g := range m.Globals {
					o = append(o, g.Partition)
				}
				return o
			},
			llvm: func(out string, n int) []string {
				return byIndex(n, rePartition.FindAllStringSubmatch(out, -1), 1, 2, refUnescape)
			}},
		{name: "gc", kind: "string",
			build: func(m *ir.Module, i int, s string) {
				f := voidFn(m, fmt.Sprintf("zzgc%d", i))
				f.GC = s
				f.NewBlock("").NewRet(nil)
			},
			extract: func(m *ir.Module) []string {
				var o []string
				for _, f := range m.Funcs {
					o = append(o, f.GC)
				}
				return o
			},
			llvm: func(out string, n int) []string {
				// LLVM 14 prints gc names RAW (no escaping).
				return byIndex(n, reGC.FindAllStringSubmatch(out, -1), 1, 2, func(x string) string { return x })
			}},
		{name: "inline-asm", kind: "string",
			build: func(m *ir.Module, i int, s string) {
				f := voidFn(m, fmt.Sprintf("zzia%d", i))
				b := f.NewBlock("")
				b.NewCall(ir.NewInlineAsm(types.NewPointer(types.NewFunc(types.Void)), s, ""))
				b.NewRet(nil)
			},
			extract: func(m *ir.Module) []string {
				var o []string
				for _, f := range m.Funcs {
					v := "\x00<none>"
					if c, ok := f.Blocks[0].Insts[0].(*ir.InstCall); ok {
						if a, ok := c.Callee.(*ir.InlineAsm); ok {
							v = a.Asm
						}
					}
					o = append(o, v)
				}
				return o
			},
			llvm: func(out string, n int) []string {
				// functions are printed in order; one asm call each.
				ms := reAsm.FindAllStringSubmatch(out, -1)
				o := make([]string, n)
				for i := range o {
					o[i] = "\x00<missing>"
					if i < len(ms) && len(ms) == n {
						o[i] = refUnescape(ms[i][1])
					}
				}
				return o
			}},
		{name: "metadata-string", kind: "string", nul: true,
			build: func(m *ir.Module, i int, s string) {
				node := &metadata.Tuple{MetadataID: -1, Fields: []metadata.Field{&metadata.String{Value: s}, constant.NewInt(types.I32, int64(i))}}
				m.MetadataDefs = append(m.MetadataDefs, node)
				nm, ok := m.NamedMetadataDefs["keep"]
				if !ok {
					nm = &metadata.NamedDef{Name: "keep"}
					m.NamedMetadataDefs["keep"] = nm
				}
				nm.Nodes = append(nm.Nodes, node)
			},
			extract: func(m *ir.Module) []string {
				o := make([]string, len(m.MetadataDefs))
				for _, d := range m.MetadataDefs {
					if t, ok := d.(*metadata.Tuple); ok && len(t.Fields) == 2 {
						s, ok1 := t.Fields[0].(*metadata.String)
						k, ok2 := t.Fields[1].(*constant.Int)
						if ok1 && ok2 && int(k.X.Int64()) < len(o) {
							o[k.X.Int64()] = s.Value
						}
					}
				}
				return o
			},
			llvm: func(out string, n int) []string {
				return byIndex(n, reMDStr.FindAllStringSubmatch(out, -1), 2, 1, refUnescape)
			}},
		{name: "char-array", kind: "string", nul: true,
			build: func(m *ir.Module, i int, s string) {
				m.NewGlobalDef(fmt.Sprintf("zzca%d", i), constant.NewCharArray([]byte(s)))
			},
			extract: func(m *ir.Module) []string {
				var o []string
				for _, g := range m.Globals {
					switch c := g.Init.(type) {
					case *constant.CharArray:
						o = append(o, string(c.X))
					default:
						o = append(o, "\x00<"+fmt.Sprintf("%T", g.Init)+">")
					}
				}
				return o
			},
			llvm: func(out string, n int) []string {
				ms := reCharArr.FindAllStringSubmatch(out, -1)
				o := make([]string, n)
				for i := range o {
					o[i] = "\x00<missing>"
				}
				for _, m := range ms {
					var i int
					fmt.Sscan(m[1], &i)
					if i < n {
						if m[2] == "zeroinitializer" {
							o[i] = "\x00<zeroinitializer>"
						} else {
							o[i] = refUnescape(m[3])
						}
					}
				}
				return o
			}},
	}
}

type c11case struct {
	Position string `json:"position"`
	Bytes    string `json:"bytes_hex"`
	Quoted   string `json:"bytes_quoted"`
	Got      string `json:"got_quoted"`
	Printed  string `json:"printed_line,omitempty"`
	What     string `json:"what"`
}

// c11class names the shape of a byte string for violation signatures.
func c11class(s string) string {
	digits, hasOther := 0, false
	for i := 0; i < len(s); i++ {
		if s[i] >= '0' && s[i] <= '9' {
			digits++
		} else {
			hasOther = true
		}
	}
	switch {
	case len(s) > 2 && s[0] == '"' && s[len(s)-1] == '"' && (digits == len(s)-2 || (digits == len(s)-3 && (s[1] == '+' || s[1] == '-'))):
		return "number-between-quote-characters"
	case len(s) > 1 && (s[0] == '+' || s[0] == '-') && digits == len(s)-1:
		return "signed-number"
	case digits == len(s) && len(s) > 0:
		if len(s) >= 20 {
			return "all-digits-20+"
		}
		return "all-digits"
	case len(s) > 0 && s[0] >= '0' && s[0] <= '9' && hasOther:
		return "leading-digit"
	case strings.ContainsAny(s, "\"\\"):
		return "quote-or-backslash"
	case strings.IndexFunc(s, func(r rune) bool { return r < 0x20 || r >= 0x7f }) >= 0:
		return "non-printable"
	case strings.Contains(s, " "):
		return "space"
	case strings.HasPrefix(s, "-"):
		return "leading-minus"
	}
	return "plain"
}

func c11names(quick bool) (idents []string, withNul []string) {
	seen := map[string]bool{}
	add := func(s string) {
		if !seen[s] {
			seen[s] = true
			idents = append(idents, s)
		}
	}
	for a := 1; a < 256; a++ {
		add(string([]byte{byte(a)}))
	}
	for a := 1; a < 256; a++ {
		for b := 1; b < 256; b++ {
			add(string([]byte{byte(a), byte(b)}))
		}
	}
	alpha := []byte{'0', '9', 'a', '-', '.', '$', '_', ' ', '"', '\\', '5', 'C', 0x01, 0x7F, 0x80, 0xFF}
	maxLen := 4
	if !quick {
		maxLen = 5
	}
	prev := []string{""}
	for l := 1; l <= maxLen; l++ {
		var cur []string
		for _, p := range prev {
			for _, a := range alpha {
				cur = append(cur, p+string([]byte{a}))
			}
		}
		if l >= 3 {
			for _, s := range cur {
				add(s)
			}
		}
		prev = cur
	}
	// escape-like sequences and long digit runs.
	for _, s := range []string{`\5C`, `\\`, `\22`, `a\5Cb`, `\0`, `\g1`, `x\`, "18446744073709551615", "18446744073709551616", "99999999999999999999", "0123456789012345678901234", "1abc", "1e5", "0x10", "-1", "4294967296", "true", "void", "i32", "c", "x86_fp80", "null"} {
		add(s)
	}
	// with NUL bytes (character arrays, metadata strings).
	withNul = append(withNul, "\x00", "\x00\x00", "a\x00", "\x00a", "a\x00b", "\x00\"", "\\\x00", "0\x000")
	return
}

func runC11(c *fw.Check) {
	idents, withNul := c11names(c.Quick())
	poss := c11positions()
	c.Rule = fmt.Sprintf("ALL byte strings of length 1-2 over 0x01..0xFF (65280), ALL strings of length 3..%d over a 16-class alphabet {0 9 a - . $ _ space \" \\ 5 C 0x01 0x7F 0x80 0xFF}, escape-like sequences, 20+-digit names and keywords, in EACH of 21 positions (labels also as blockaddress targets and instruction results with all names of a chunk in ONE function) (global, local, label, type, comdat and metadata names; referenced globals, callees, instruction results, invoke results and parameters together with a use that must resolve to them; attribute, section, partition, gc, inline-asm and metadata strings; character arrays, the last two also with NUL bytes): built through the API, printed, re-parsed by the library (bytes must come back identically; an ID must not come back as a name or vice versa) and read by llvm-as|llvm-dis whose tokens are decoded by an independent un-escaper; printed tokens of distinct names must be distinct. PLUS all modules of <=3 globals/functions, unnamed or numerically named, in comdats with numeric names (a comdat named like the ID or the name of its user or of a neighbour): re-parsed and read by LLVM as built. distinct = (position, byte string).", map[bool]int{true: 4, false: 5}[c.Quick()])
	c.Extra["byte_strings"] = len(idents)
	c.Extra["positions"] = len(poss)
	const chunk = 4000
	type job struct {
		pos   int
		names []string
	}
	var jobs []job
	for pi, p := range poss {
		all := idents
		if p.nul {
			all = append(append([]string(nil), idents...), withNul...)
		}
		for i := 0; i < len(all); i += chunk {
			j := i + chunk
			if j > len(all) {
				j = len(all)
			}
			jobs = append(jobs, job{pi, all[i:j]})
		}
	}
	var mu sync.Mutex
	llvmSkipped := 0
	fw.ParallelFor(len(jobs), func(ji int) {
		j := jobs[ji]
		p := poss[j.pos]
		c11run(c, p, j.names, &mu, &llvmSkipped)
		c.DistinctN(int64(len(j.names)))
	})
	c.Extra["names_llvm_could_not_read_individually_skipped"] = llvmSkipped
	c.Sample(map[string]interface{}{"position": "global", "bytes": []string{"1abc", "a b", "\\22", "\x01\xff"}, "printed": "@\"1abc\" = global i32 0 ..."})
	c.Sample(map[string]interface{}{"position": "char-array", "bytes_hex": "00 22 5c ff", "oracle": "llir re-parse and llvm-dis decoding give the same bytes"})
	c11unnamed(c)
	c11walk(c)
}

func c11run(c *fw.Check, p c11pos, names []string, mu *sync.Mutex, llvmSkipped *int) {
	report := func(oracle, s, got, line, what string) {
		c.Violation(fmt.Sprintf("%s/%s/%s", oracle, p.name, c11class(s)), c11case{Position: p.name, Bytes: fmt.Sprintf("% x", s), Quoted: fmt.Sprintf("%q", s), Got: fmt.Sprintf("%q", got), Printed: fw.Trunc(line, 300), What: what})
	}
	m := ir.NewModule()
	var built []string
	for _, s := range names {
		i := len(built)
		if pan := fw.Try(func() { p.build(m, i, s) }); pan != "" {
			report("build-panics", s, "", "", pan)
			continue
		}
		built = append(built, s)
	}
	var text string
	if pan := fw.Try(func() { text = m.String() }); pan != "" {
		// find the culprit name.
		for _, s := range built {
			m1 := ir.NewModule()
			p.build(m1, 0, s)
			if p1 := fw.Try(func() { _ = m1.String() }); p1 != "" {
				report("print-panics", s, "", "", p1)
			}
		}
		return
	}
	c.Valid(int64(len(built)))
	// library re-parse.
	m2, errs, pan := parseTry(text)
	if errs != "" || pan != "" {
		// per name (at most 300 failing names are examined per chunk).
		nbad := 0
		for _, s := range built {
			if nbad > 300 {
				break
			}
			m1 := ir.NewModule()
			p.build(m1, 0, s)
			t1 := m1.String()
			m3, e1, p1 := parseTry(t1)
			switch {
			case p1 != "":
				nbad++
				report("reparse-panics", s, "", t1, p1)
			case e1 != "":
				nbad++
				report("reparse-rejected", s, "", t1, "the library's parser rejects the printed token: "+fw.Trunc(e1, 200))
			default:
				if got := p.extract(m3); len(got) < 1 || got[0] != s {
					g := ""
					if len(got) > 0 {
						g = got[0]
					}
					report("reparse-differs", s, g, t1, "re-parsed bytes differ")
				}
			}
		}
	} else {
		got := p.extract(m2)
		for i, s := range built {
			g := "\x00<missing>"
			if i < len(got) {
				g = got[i]
			}
			if g != s {
				report("reparse-differs", s, g, "", "the library's parser reads the printed token as different bytes (or as an unnamed ID)")
			}
		}
	}
	// LLVM.
	if !fw.HaveLLVM() {
		return
	}
	out, e, ok, _ := fw.AsDis(text)
	if !ok {
		if fw.IsToolCrash(e) {
			return
		}
		// per name (binary split would be faster; names are few per failing chunk in practice).
		c11llvmEach(c, p, built, report, mu, llvmSkipped)
		return
	}
	got := p.llvm(out, len(built))
	for i, s := range built {
		g := got[i]
		if g == "\x00<zeroinitializer>" && strings.Trim(s, "\x00") == "" || g == "\x00<skip>" {
			continue
		}
		if g != s {
			report("llvm-reads-differently", s, g, "", "LLVM decodes the printed token to different bytes")
		}
	}
}

func c11llvmEach(c *fw.Check, p c11pos, built []string, report func(oracle, s, got, line, what string), mu *sync.Mutex, llvmSkipped *int) {
	calls := 0
	var rec func(names []string)
	rec = func(names []string) {
		if len(names) == 0 {
			return
		}
		calls++
		if calls > 400 {
			mu.Lock()
			*llvmSkipped += len(names)
			mu.Unlock()
			return // budget for attributing LLVM rejections inside one chunk
		}
		m := ir.NewModule()
		for i, s := range names {
			p.build(m, i, s)
		}
		text := m.String()
		out, e, ok, _ := fw.AsDis(text)
		if ok {
			got := p.llvm(out, len(names))
			for i, s := range names {
				if got[i] != s && got[i] != "\x00<skip>" && !(got[i] == "\x00<zeroinitializer>" && strings.Trim(s, "\x00") == "") {
					report("llvm-reads-differently", s, got[i], "", "LLVM decodes the printed token to different bytes")
				}
			}
			return
		}
		if len(names) == 1 {
			if fw.IsToolCrash(e) {
				return
			}
			report("llvm-rejects", names[0], "", text, "LLVM rejects the printed token: "+fw.Trunc(strings.TrimSpace(e), 200))
			return
		}
		h := len(names) / 2
		rec(names[:h])
		rec(names[h:])
	}
	rec(built)
}

func replayC11(c *fw.Check, path string) {
	var wc c11walkCase
	loadReplay(path, &wc)
	if wc.Slot != "" {
		var ws string
		fmt.Sscanf(wc.Bytes, "%q", &ws)
		c11walkOne(c, wc.Slot, ws)
		c.Case("a", "a")
		c.Case("b", "b")
		return
	}
	var cs c11case
	loadReplay(path, &cs)
	var s string
	fmt.Sscanf(cs.Quoted, "%q", &s)
	for _, p := range c11positions() {
		if p.name == cs.Position {
			var mu sync.Mutex
			n := 0
			c11run(c, p, []string{s}, &mu, &n)
			m := ir.NewModule()
			p.build(m, 0, s)
			fmt.Printf("replay %s %q prints:\n%s\n", p.name, s, m.String())
		}
	}
	c.Case("a", "a")
	c.Case("b", "b")
}

var _ = sort.Strings
