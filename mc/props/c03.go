package props

import (
	"fmt"
	"math/big"
	"reflect"
	"sort"
	"strings"
	"sync"

	"github.com/llir/llvm/ir"
	"github.com/llir/llvm/ir/constant"
	"github.com/llir/llvm/ir/enum"
	"github.com/llir/llvm/ir/metadata"
	"github.com/llir/llvm/ir/types"
	"github.com/llir/llvm/ir/value"

	"verif/fw"
	"verif/gen"
	"verif/irwalk"
)

func init() { Registry["C03"] = Prop{Run: runC03, Replay: replayC03} }

// ---- part A: every generated module is re-constructed through the public constructors ------------

// cloner rebuilds a parsed module through m.NewGlobal*/NewFunc/NewBlock, Block.NewXxx and the
// constant.NewXxx constructors (a "construction program" derived from the module).
type cloner struct {
	old, new *ir.Module
	vmap     map[value.Value]value.Value
	used     map[string]bool // constructors exercised
	pending  []func()        // fix-ups that need all values (phi incomings)
}

func (cl *cloner) use(name string) { cl.used[name] = true }

func (cl *cloner) mapConst(c constant.Constant) constant.Constant {
	if c == nil {
		return nil
	}
	if v, ok := cl.vmap[c]; ok {
		return v.(constant.Constant)
	}
	mc := func(x constant.Constant) constant.Constant { return cl.mapConst(x) }
	mcs := func(xs []constant.Constant) []constant.Constant {
		var o []constant.Constant
		for _, x := range xs {
			o = append(o, mc(x))
		}
		return o
	}
	switch c := c.(type) {
	case *constant.Int:
		cl.use("constant.NewIntFromString")
		n, err := constant.NewIntFromString(c.Typ, c.Ident())
		if err != nil {
			panic(err)
		}
		return n
	case *constant.Float:
		cl.use("constant.NewFloatFromString")
		n, err := constant.NewFloatFromString(c.Typ, c.Ident())
		if err != nil {
			panic(err)
		}
		return n
	case *constant.Null:
		cl.use("constant.NewNull")
		return constant.NewNull(c.Typ)
	case *constant.NoneToken:
		return constant.None
	case *constant.Undef:
		cl.use("constant.NewUndef")
		return constant.NewUndef(c.Typ)
	case *constant.Poison:
		cl.use("constant.NewPoison")
		return constant.NewPoison(c.Typ)
	case *constant.ZeroInitializer:
		cl.use("constant.NewZeroInitializer")
		return constant.NewZeroInitializer(c.Typ)
	case *constant.Struct:
		cl.use("constant.NewStruct")
		return constant.NewStruct(c.Typ, mcs(c.Fields)...)
	case *constant.Array:
		cl.use("constant.NewArray")
		return constant.NewArray(c.Typ, mcs(c.Elems)...)
	case *constant.CharArray:
		cl.use("constant.NewCharArray")
		n := constant.NewCharArray(c.X)
		n.Typ = c.Typ
		return n
	case *constant.Vector:
		cl.use("constant.NewVector")
		return constant.NewVector(c.Typ, mcs(c.Elems)...)
	case *constant.BlockAddress:
		cl.use("constant.NewBlockAddress")
		return constant.NewBlockAddress(mc(c.Func.(constant.Constant)), cl.vmap[c.Block].(value.Named))
	case *constant.DSOLocalEquivalent:
		cl.use("constant.NewDSOLocalEquivalent")
		return constant.NewDSOLocalEquivalent(mc(c.Func))
	case *constant.NoCFI:
		cl.use("constant.NewNoCFI")
		return constant.NewNoCFI(mc(c.Func))
	case *constant.Index:
		cl.use("constant.NewIndex")
		n := constant.NewIndex(mc(c.Constant))
		n.InRange = c.InRange
		return n
	case *constant.ExprGetElementPtr:
		cl.use("constant.NewGetElementPtr")
		var idx []constant.Constant
		for _, ix := range c.Indices {
			idx = append(idx, mc(ix))
		}
		n := constant.NewGetElementPtr(c.ElemType, mc(c.Src), idx...)
		n.InBounds = c.InBounds
		return n
	case constant.Expression:
		// all other expressions: rebuild through the constructor table of C06 with mapped operands.
		cp := reflect.New(reflect.TypeOf(c).Elem())
		cp.Elem().Set(reflect.ValueOf(c).Elem())
		for i := 0; i < cp.Elem().NumField(); i++ {
			f := cp.Elem().Field(i)
			if f.Type() == reflect.TypeOf((*constant.Constant)(nil)).Elem() && !f.IsNil() {
				f.Set(reflect.ValueOf(mc(f.Interface().(constant.Constant))))
			}
		}
		rebuilt, ok := c06rebuild(cp.Interface())
		if !ok {
			panic(fmt.Sprintf("no constructor known for %T", c))
		}
		cl.use("constant.New" + strings.TrimPrefix(reflect.TypeOf(c).Elem().Name(), "Expr"))
		// flags (nuw/nsw/exact/inbounds) are plain fields: copy them.
		copyPlainFields(reflect.ValueOf(rebuilt).Elem(), reflect.ValueOf(c).Elem())
		return rebuilt.(constant.Constant)
	}
	panic(fmt.Sprintf("unmapped constant %T", c))
}

func (cl *cloner) mapVal(v value.Value) value.Value {
	if v == nil {
		return nil
	}
	if n, ok := cl.vmap[v]; ok {
		return n
	}
	switch x := v.(type) {
	case *ir.Arg:
		return ir.NewArg(cl.mapVal(x.Value), x.Attrs...)
	case *ir.InlineAsm:
		cl.use("ir.NewInlineAsm")
		n := ir.NewInlineAsm(x.Typ, x.Asm, x.Constraint)
		n.SideEffect, n.AlignStack, n.IntelDialect = x.SideEffect, x.AlignStack, x.IntelDialect
		return n
	case constant.Constant:
		return cl.mapConst(x)
	case *metadata.Value:
		return &metadata.Value{Value: x.Value}
	}
	panic(fmt.Sprintf("operand %T (%v) not yet defined: use before definition is resolved by the pending list", v, v))
}

var valueT = reflect.TypeOf((*value.Value)(nil)).Elem()

// copyPlainFields copies every exported field that is not an operand, an identifier or a cache.
func copyPlainFields(dst, src reflect.Value) {
	t := src.Type()
	for i := 0; i < t.NumField(); i++ {
		f := t.Field(i)
		if f.PkgPath != "" || f.Anonymous && f.Name == "LocalIdent" {
			continue
		}
		ft := f.Type
		switch {
		case f.Name == "Typ" || f.Name == "Successors" || f.Name == "Parent":
			continue
		case ft == valueT, ft.Kind() == reflect.Slice && ft.Elem() == valueT:
			continue
		case ft.Kind() == reflect.Slice && ft.Elem().Kind() == reflect.Ptr && strings.HasSuffix(ft.Elem().Elem().PkgPath(), "llvm/ir") && ft.Elem().Elem().Name() != "OperandBundle":
			continue // Incs, Cases, Clauses: built by the constructor
		case ft.Implements(reflect.TypeOf((*constant.Constant)(nil)).Elem()) || ft == reflect.TypeOf((*constant.Constant)(nil)).Elem():
			continue
		case ft.Kind() == reflect.Interface && ft.Name() == "Type":
			continue // ElemType / To / ArgType are constructor arguments
		}
		if dst.Field(i).CanSet() {
			dst.Field(i).Set(src.Field(i))
		}
	}
}

// emit constructs the instruction in blk through the Block.NewXxx method.
func (cl *cloner) emit(blk *ir.Block, old interface{}) value.Value {
	mv := cl.mapVal
	mvs := func(vs []value.Value) []value.Value {
		var o []value.Value
		for _, v := range vs {
			o = append(o, mv(v))
		}
		return o
	}
	blkOf := func(v value.Value) *ir.Block {
		if v == nil {
			return nil
		}
		return cl.vmap[v].(*ir.Block)
	}
	var n value.Value
	name := strings.TrimPrefix(strings.TrimPrefix(reflect.TypeOf(old).Elem().Name(), "Inst"), "Term")
	cl.use("Block.New" + name)
	switch i := old.(type) {
	case *ir.InstFNeg:
		n = blk.NewFNeg(mv(i.X))
	case *ir.InstAdd:
		n = blk.NewAdd(mv(i.X), mv(i.Y))
	case *ir.InstFAdd:
		n = blk.NewFAdd(mv(i.X), mv(i.Y))
	case *ir.InstSub:
		n = blk.NewSub(mv(i.X), mv(i.Y))
	case *ir.InstFSub:
		n = blk.NewFSub(mv(i.X), mv(i.Y))
	case *ir.InstMul:
		n = blk.NewMul(mv(i.X), mv(i.Y))
	case *ir.InstFMul:
		n = blk.NewFMul(mv(i.X), mv(i.Y))
	case *ir.InstUDiv:
		n = blk.NewUDiv(mv(i.X), mv(i.Y))
	case *ir.InstSDiv:
		n = blk.NewSDiv(mv(i.X), mv(i.Y))
	case *ir.InstFDiv:
		n = blk.NewFDiv(mv(i.X), mv(i.Y))
	case *ir.InstURem:
		n = blk.NewURem(mv(i.X), mv(i.Y))
	case *ir.InstSRem:
		n = blk.NewSRem(mv(i.X), mv(i.Y))
	case *ir.InstFRem:
		n = blk.NewFRem(mv(i.X), mv(i.Y))
	case *ir.InstShl:
		n = blk.NewShl(mv(i.X), mv(i.Y))
	case *ir.InstLShr:
		n = blk.NewLShr(mv(i.X), mv(i.Y))
	case *ir.InstAShr:
		n = blk.NewAShr(mv(i.X), mv(i.Y))
	case *ir.InstAnd:
		n = blk.NewAnd(mv(i.X), mv(i.Y))
	case *ir.InstOr:
		n = blk.NewOr(mv(i.X), mv(i.Y))
	case *ir.InstXor:
		n = blk.NewXor(mv(i.X), mv(i.Y))
	case *ir.InstExtractElement:
		n = blk.NewExtractElement(mv(i.X), mv(i.Index))
	case *ir.InstInsertElement:
		n = blk.NewInsertElement(mv(i.X), mv(i.Elem), mv(i.Index))
	case *ir.InstShuffleVector:
		n = blk.NewShuffleVector(mv(i.X), mv(i.Y), mv(i.Mask))
	case *ir.InstExtractValue:
		n = blk.NewExtractValue(mv(i.X), i.Indices...)
	case *ir.InstInsertValue:
		n = blk.NewInsertValue(mv(i.X), mv(i.Elem), i.Indices...)
	case *ir.InstAlloca:
		a := blk.NewAlloca(i.ElemType)
		if i.NElems != nil {
			a.NElems = mv(i.NElems)
		}
		n = a
	case *ir.InstLoad:
		n = blk.NewLoad(i.ElemType, mv(i.Src))
	case *ir.InstStore:
		blk.NewStore(mv(i.Src), mv(i.Dst))
	case *ir.InstFence:
		blk.NewFence(i.Ordering)
	case *ir.InstCmpXchg:
		n = blk.NewCmpXchg(mv(i.Ptr), mv(i.Cmp), mv(i.New), i.SuccessOrdering, i.FailureOrdering)
	case *ir.InstAtomicRMW:
		n = blk.NewAtomicRMW(i.Op, mv(i.Dst), mv(i.X), i.Ordering)
	case *ir.InstGetElementPtr:
		n = blk.NewGetElementPtr(i.ElemType, mv(i.Src), mvs(i.Indices)...)
	case *ir.InstTrunc:
		n = blk.NewTrunc(mv(i.From), i.To)
	case *ir.InstZExt:
		n = blk.NewZExt(mv(i.From), i.To)
	case *ir.InstSExt:
		n = blk.NewSExt(mv(i.From), i.To)
	case *ir.InstFPTrunc:
		n = blk.NewFPTrunc(mv(i.From), i.To)
	case *ir.InstFPExt:
		n = blk.NewFPExt(mv(i.From), i.To)
	case *ir.InstFPToUI:
		n = blk.NewFPToUI(mv(i.From), i.To)
	case *ir.InstFPToSI:
		n = blk.NewFPToSI(mv(i.From), i.To)
	case *ir.InstUIToFP:
		n = blk.NewUIToFP(mv(i.From), i.To)
	case *ir.InstSIToFP:
		n = blk.NewSIToFP(mv(i.From), i.To)
	case *ir.InstPtrToInt:
		n = blk.NewPtrToInt(mv(i.From), i.To)
	case *ir.InstIntToPtr:
		n = blk.NewIntToPtr(mv(i.From), i.To)
	case *ir.InstBitCast:
		n = blk.NewBitCast(mv(i.From), i.To)
	case *ir.InstAddrSpaceCast:
		n = blk.NewAddrSpaceCast(mv(i.From), i.To)
	case *ir.InstICmp:
		n = blk.NewICmp(i.Pred, mv(i.X), mv(i.Y))
	case *ir.InstFCmp:
		n = blk.NewFCmp(i.Pred, mv(i.X), mv(i.Y))
	case *ir.InstPhi:
		// incoming values may be defined later: construct with placeholders of the right type
		// and fill the values in once everything exists.
		var incs []*ir.Incoming
		for _, inc := range i.Incs {
			incs = append(incs, ir.NewIncoming(constant.NewUndef(i.Typ), blkOf(inc.Pred)))
		}
		p := blk.NewPhi(incs...)
		oldPhi := i
		cl.pending = append(cl.pending, func() {
			for k, inc := range oldPhi.Incs {
				p.Incs[k].X = cl.mapVal(inc.X)
			}
		})
		n = p
	case *ir.InstSelect:
		n = blk.NewSelect(mv(i.Cond), mv(i.ValueTrue), mv(i.ValueFalse))
	case *ir.InstFreeze:
		cl.use("ir.NewInstFreeze")
		f := ir.NewInstFreeze(mv(i.X))
		blk.Insts = append(blk.Insts, f)
		n = f
	case *ir.InstCall:
		n = blk.NewCall(mv(i.Callee), mvs(i.Args)...)
	case *ir.InstVAArg:
		n = blk.NewVAArg(mv(i.ArgList), i.ArgType)
	case *ir.InstLandingPad:
		var cs []*ir.Clause
		for _, c := range i.Clauses {
			cs = append(cs, ir.NewClause(c.Type, mv(c.X)))
		}
		n = blk.NewLandingPad(i.ResultType, cs...)
	case *ir.InstCatchPad:
		n = blk.NewCatchPad(cl.vmap[i.CatchSwitch].(*ir.TermCatchSwitch), mvs(i.Args)...)
	case *ir.InstCleanupPad:
		n = blk.NewCleanupPad(mv(i.ParentPad).(ir.ExceptionPad), mvs(i.Args)...)
	case *ir.TermRet:
		blk.NewRet(mv(i.X))
	case *ir.TermBr:
		blk.NewBr(blkOf(i.Target))
	case *ir.TermCondBr:
		blk.NewCondBr(mv(i.Cond), blkOf(i.TargetTrue), blkOf(i.TargetFalse))
	case *ir.TermSwitch:
		var cs []*ir.Case
		for _, c := range i.Cases {
			cs = append(cs, ir.NewCase(cl.mapConst(c.X.(constant.Constant)), blkOf(c.Target)))
		}
		blk.NewSwitch(mv(i.X), blkOf(i.TargetDefault), cs...)
	case *ir.TermIndirectBr:
		var ts []*ir.Block
		for _, t := range i.ValidTargets {
			ts = append(ts, blkOf(t))
		}
		blk.NewIndirectBr(mv(i.Addr), ts...)
	case *ir.TermInvoke:
		n = blk.NewInvoke(mv(i.Invokee), mvs(i.Args), blkOf(i.NormalRetTarget), blkOf(i.ExceptionRetTarget))
	case *ir.TermCallBr:
		var ts []*ir.Block
		for _, t := range i.OtherRetTargets {
			ts = append(ts, blkOf(t))
		}
		n = blk.NewCallBr(mv(i.Callee), mvs(i.Args), blkOf(i.NormalRetTarget), ts...)
	case *ir.TermResume:
		blk.NewResume(mv(i.X))
	case *ir.TermCatchSwitch:
		var hs []*ir.Block
		for _, h := range i.Handlers {
			hs = append(hs, blkOf(h))
		}
		n = blk.NewCatchSwitch(mv(i.ParentPad).(ir.ExceptionPad), hs, blkOf(i.DefaultUnwindTarget))
	case *ir.TermCatchRet:
		blk.NewCatchRet(cl.vmap[i.CatchPad].(*ir.InstCatchPad), blkOf(i.Target))
	case *ir.TermCleanupRet:
		blk.NewCleanupRet(cl.vmap[i.CleanupPad].(*ir.InstCleanupPad), blkOf(i.UnwindTarget))
	case *ir.TermUnreachable:
		blk.NewUnreachable()
	default:
		panic(fmt.Sprintf("no Block constructor known for %T", old))
	}
	// result object (instruction or terminator just appended).
	var made interface{}
	if _, isTerm := old.(ir.Terminator); isTerm {
		made = blk.Term
	} else {
		made = blk.Insts[len(blk.Insts)-1]
	}
	copyPlainFields(reflect.ValueOf(made).Elem(), reflect.ValueOf(old).Elem())
	// operand bundles hold values: rebuild them.
	if ob := reflect.ValueOf(made).Elem().FieldByName("OperandBundles"); ob.IsValid() {
		oldB := reflect.ValueOf(old).Elem().FieldByName("OperandBundles").Interface().([]*ir.OperandBundle)
		var nb []*ir.OperandBundle
		for _, b := range oldB {
			nb = append(nb, ir.NewOperandBundle(b.Tag, mvs(b.Inputs)...))
		}
		ob.Set(reflect.ValueOf(nb))
	}
	if nm, ok := old.(value.Named); ok {
		if nn, ok := made.(value.Named); ok && !isUnnamed(old) {
			nn.SetName(c03rawName(nm))
		}
	}
	if ov, ok := old.(value.Value); ok {
		if nv, ok := made.(value.Value); ok {
			cl.vmap[ov] = nv
			n = nv
		}
	}
	return n
}

func isUnnamed(x interface{}) bool {
	if u, ok := x.(interface{ IsUnnamed() bool }); ok {
		return u.IsUnnamed()
	}
	return false
}

// c03clone re-constructs m through the constructors.
func c03clone(m *ir.Module, used map[string]bool) *ir.Module {
	cl := &cloner{old: m, new: ir.NewModule(), vmap: map[value.Value]value.Value{}, used: used}
	n := cl.new
	n.SourceFilename, n.DataLayout, n.TargetTriple, n.ModuleAsms = m.SourceFilename, m.DataLayout, m.TargetTriple, m.ModuleAsms
	n.TypeDefs = m.TypeDefs // types are shared (immutable here)
	n.ComdatDefs, n.AttrGroupDefs = m.ComdatDefs, m.AttrGroupDefs
	n.NamedMetadataDefs, n.MetadataDefs = m.NamedMetadataDefs, m.MetadataDefs
	name := func(x interface {
		IsUnnamed() bool
		Name() string
	}) string {
		if x.IsUnnamed() {
			return ""
		}
		return c03rawName(x)
	}
	// pass 1: shells of all global-like values.
	for _, g := range m.Globals {
		cl.use("Module.NewGlobal")
		ng := n.NewGlobal(name(g), g.ContentType)
		ng.Typ = nil
		cl.vmap[g] = ng
	}
	for _, f := range m.Funcs {
		cl.use("Module.NewFunc")
		var ps []*ir.Param
		for _, p := range f.Params {
			cl.use("ir.NewParam")
			np := ir.NewParam(name(p), p.Typ)
			np.Attrs = p.Attrs
			cl.vmap[p] = np
			ps = append(ps, np)
		}
		nf := n.NewFunc(name(f), f.Sig.RetType, ps...)
		nf.Sig.Variadic = f.Sig.Variadic
		cl.vmap[f] = nf
		for _, b := range f.Blocks {
			cl.use("Func.NewBlock")
			cl.vmap[b] = nf.NewBlock(name(b))
		}
	}
	for _, a := range m.Aliases {
		cl.vmap[a] = &ir.Alias{}
	}
	for _, a := range m.IFuncs {
		cl.vmap[a] = &ir.IFunc{}
	}
	// pass 2: bodies.
	for _, g := range m.Globals {
		ng := cl.vmap[g].(*ir.Global)
		copyPlainFields(reflect.ValueOf(ng).Elem(), reflect.ValueOf(g).Elem())
		ng.ContentType = g.ContentType
		if g.Init != nil {
			ng.Init = cl.mapConst(g.Init)
		}
		ng.Typ = nil
		ng.Type()
	}
	// aliases may refer to other aliases: build them once their aliasee is complete.
	done := map[*ir.Alias]bool{}
	for round := 0; round <= len(m.Aliases); round++ {
		for _, a := range m.Aliases {
			if done[a] {
				continue
			}
			ok := fw.Try(func() {
				cl.use("ir.NewAlias")
				na := ir.NewAlias(name(a), cl.mapConst(a.Aliasee))
				copyPlainFields(reflect.ValueOf(na).Elem(), reflect.ValueOf(a).Elem())
				*(cl.vmap[a].(*ir.Alias)) = *na
			}) == ""
			if ok {
				done[a] = true
			} else if round == len(m.Aliases) {
				panic("alias cannot be constructed: " + a.Ident())
			}
		}
	}
	for _, a := range m.Aliases {
		n.Aliases = append(n.Aliases, cl.vmap[a].(*ir.Alias))
	}
	for _, a := range m.IFuncs {
		cl.use("ir.NewIFunc")
		na := ir.NewIFunc(name(a), cl.mapConst(a.Resolver))
		copyPlainFields(reflect.ValueOf(na).Elem(), reflect.ValueOf(a).Elem())
		*(cl.vmap[a].(*ir.IFunc)) = *na
		n.IFuncs = append(n.IFuncs, cl.vmap[a].(*ir.IFunc))
	}
	for _, f := range m.Funcs {
		nf := cl.vmap[f].(*ir.Func)
		copyPlainFields(reflect.ValueOf(nf).Elem(), reflect.ValueOf(f).Elem())
		nf.Sig, nf.Typ = f.Sig, nil
		nf.Type()
		if f.Prefix != nil {
			nf.Prefix = cl.mapConst(f.Prefix)
		}
		if f.Prologue != nil {
			nf.Prologue = cl.mapConst(f.Prologue)
		}
		if f.Personality != nil {
			nf.Personality = cl.mapConst(f.Personality)
		}
		// blocks in an order that defines values before their (non-phi) uses: the generator's
		// functions are in dominance-compatible layout except for the use-before-def form,
		// which is handled by deferring instructions whose operands are not ready.
		type todo struct {
			blk *ir.Block
			old interface{}
		}
		var later []todo
		for _, b := range f.Blocks {
			nb := cl.vmap[b].(*ir.Block)
			for _, inst := range b.Insts {
				later = append(later, todo{nb, inst})
			}
			later = append(later, todo{nb, b.Term})
		}
		// Several sweeps: an instruction is emitted when its operands exist. Emission order per
		// block must be kept, so a block stalls at its first not-ready instruction.
		stalled := map[*ir.Block]bool{}
		for sweep := 0; len(later) > 0 && sweep < 50; sweep++ {
			var rest []todo
			stalled = map[*ir.Block]bool{}
			for _, td := range later {
				if stalled[td.blk] {
					rest = append(rest, td)
					continue
				}
				ok := true
				func() {
					defer func() {
						if r := recover(); r != nil {
							if s, isStr := r.(string); isStr && strings.Contains(s, "not yet defined") {
								ok = false
								// undo a partially appended instruction: none is appended before operands are mapped.
								return
							}
							panic(r)
						}
					}()
					cl.emit(td.blk, td.old)
				}()
				if !ok {
					stalled[td.blk] = true
					rest = append(rest, td)
				}
			}
			if len(rest) == len(later) {
				panic("construction order cannot be resolved")
			}
			later = rest
		}
		for _, p := range cl.pending {
			p()
		}
		cl.pending = nil
		for _, u := range f.UseListOrders {
			nf.UseListOrders = append(nf.UseListOrders, &ir.UseListOrder{Value: cl.mapVal(u.Value), Indices: u.Indices})
		}
	}
	for _, u := range m.UseListOrders {
		n.UseListOrders = append(n.UseListOrders, &ir.UseListOrder{Value: cl.mapVal(u.Value), Indices: u.Indices})
	}
	for _, u := range m.UseListOrderBBs {
		n.UseListOrderBBs = append(n.UseListOrderBBs, &ir.UseListOrderBB{Func: cl.vmap[u.Func].(*ir.Func), Block: cl.vmap[u.Block].(*ir.Block), Indices: u.Indices})
	}
	// the original order of functions/globals is kept by construction order.
	return n
}

func c03test(used map[string]bool, mu *sync.Mutex) func(vs []gen.Variant) (string, string, string, string) {
	return func(vs []gen.Variant) (kind, what, detail, printed string) {
		x := gen.Module(vs)
		m, errs, pan := parseTry(x)
		if errs != "" || pan != "" {
			if len(vs) > 1 {
				return "split", "", "", ""
			}
			return "", "", "", ""
		}
		var want string
		wantOK := true
		if p := fw.Try(func() { want = m.String() }); p != "" {
			if len(vs) > 1 {
				return "split", "", "", ""
			}
			// the parsed module cannot be printed (C01/C08 report that); the module constructed
			// from it through the API is still checked on its own below.
			wantOK = false
		}
		local := map[string]bool{}
		var m2 *ir.Module
		if p := fw.Try(func() { m2 = c03clone(m, local) }); p != "" {
			if strings.Contains(p, "construction order cannot be resolved") || strings.Contains(p, "no Block constructor") || strings.Contains(p, "unmapped constant") {
				fw.Fatalf("C03 cloner cannot handle a generated module: %s\n%s", p, fw.Trunc(x, 1500))
			}
			return "constructor-panics@" + fw.PanicSiteOf(p), "a constructor panics on well-typed operands", p, ""
		}
		mu.Lock()
		for k := range local {
			used[k] = true
		}
		mu.Unlock()
		var got string
		if p := fw.Try(func() { got = m2.String() }); p != "" {
			return "print-panics@" + fw.PanicSiteOf(p), "String() panics on a constructed module", p, ""
		}
		if !wantOK {
			if _, e3, p3 := parseTry(got); e3 != "" || p3 != "" {
				return "reparse-fails", "the library cannot re-parse the text of a constructed module", e3 + p3, got
			}
			noLLVM := false
			for _, v := range vs {
				noLLVM = noLLVM || v.NoLLVM
			}
			if !noLLVM && fw.HaveLLVM() {
				if okx, _ := fw.LLVMAccepts(x); okx {
					if oky, ey := fw.LLVMAccepts(got); !oky {
						return "llvm-rejects-constructed", "LLVM rejects the text of a module constructed through the API (from a module LLVM accepts)", ey, got
					}
				}
			}
			return "", "", "", ""
		}
		if got != want {
			return "constructed-differs", "the module re-constructed through the public constructors prints differently from the module it was derived from", firstDiff(want, got), got
		}
		// the library re-parses its print of the constructed module to a structurally identical module.
		m3, e3, p3 := parseTry(got)
		if e3 != "" || p3 != "" {
			return "reparse-fails", "the library cannot re-parse the text of a constructed module", e3 + p3, got
		}
		m4, _, _ := parseTry(want)
		if m4 != nil && irwalk.Digest(m3) != irwalk.Digest(m4) {
			return "reparse-structure-differs", "re-parsed constructed module is not structurally identical", "", got
		}
		// every STRING the constructed module holds (names, sections, partitions, asm, attribute
		// strings, debug-info strings: every exported string field, by reflection) must come back
		// from the text: the comparison above goes through the same printer on both sides.
		if a, b := c03strings(m2), c03strings(m3); a != b {
			return "reparse-strings-differ", "the strings held by the constructed module differ from those of the module re-parsed from its text", firstDiff(a, b), got
		}
		// the same construction program over types built the way API users build them: predeclared
		// leaves (types.I8, ...) and types.New* constructors.
		if m5, e5, p5 := parseTry(x); e5 == "" && p5 == "" {
			var got5 string
			if p := fw.Try(func() {
				c03retype(m5)
				got5 = c03clone(m5, map[string]bool{}).String()
			}); p != "" {
				return "constructor-panics/predeclared-types@" + fw.PanicSiteOf(p), "constructing the module over predeclared types panics", p, ""
			}
			if bad := c03predeclaredIntact(); bad != "" {
				return "predeclared-type-modified", "constructing a module modified a predeclared type of package types: " + bad, bad, got5
			}
			if got5 != want {
				return "constructed-differs/predeclared-types", "the module re-constructed over the predeclared types of package types (types.I8, types.NewPointer(...), ...) prints differently from the module it was derived from", firstDiff(want, got5), got5
			}
		}
		return "", "", "", ""
	}
}

// c03strings lists "slot=value" for every string slot of the object graph, sorted.
func c03strings(m *ir.Module) string {
	// (a SET: the construction program shares metadata with the module it was derived from, so
	// some objects are reachable twice)
	var out []string
	seen := map[string]bool{}
	for _, sl := range c11walkSlots(m) {
		l := fmt.Sprintf("%s=%q", sl.key, sl.v.String())
		if !seen[l] {
			seen[l] = true
			out = append(out, l)
		}
	}
	sort.Strings(out)
	return strings.Join(out, "\n")
}

// ---- part B: execution oracle -------------------------------------------------------------------

type c03op struct {
	name  string
	arity int
	build func(b *ir.Block, a, c value.Value) value.Value
	eval  func(a, c int64) (int64, bool) // on i32 two's complement; false = undefined behaviour/poison
}

func i32(x int64) int64 { return int64(int32(x)) }

func c03ops() []c03op {
	bin := func(name string, mk func(b *ir.Block, x, y value.Value) value.Value, ev func(a, c int64) (int64, bool)) c03op {
		return c03op{name, 2, mk, ev}
	}
	u := func(x int64) uint32 { return uint32(x) }
	ops := []c03op{
		bin("add", func(b *ir.Block, x, y value.Value) value.Value { return b.NewAdd(x, y) }, func(a, c int64) (int64, bool) { return i32(a + c), true }),
		bin("sub", func(b *ir.Block, x, y value.Value) value.Value { return b.NewSub(x, y) }, func(a, c int64) (int64, bool) { return i32(a - c), true }),
		bin("mul", func(b *ir.Block, x, y value.Value) value.Value { return b.NewMul(x, y) }, func(a, c int64) (int64, bool) { return i32(a * c), true }),
		bin("udiv", func(b *ir.Block, x, y value.Value) value.Value { return b.NewUDiv(x, y) }, func(a, c int64) (int64, bool) {
			if u(c) == 0 {
				return 0, false
			}
			return i32(int64(u(a) / u(c))), true
		}),
		bin("sdiv", func(b *ir.Block, x, y value.Value) value.Value { return b.NewSDiv(x, y) }, func(a, c int64) (int64, bool) {
			if i32(c) == 0 || (i32(a) == -2147483648 && i32(c) == -1) {
				return 0, false
			}
			return i32(i32(a) / i32(c)), true
		}),
		bin("urem", func(b *ir.Block, x, y value.Value) value.Value { return b.NewURem(x, y) }, func(a, c int64) (int64, bool) {
			if u(c) == 0 {
				return 0, false
			}
			return i32(int64(u(a) % u(c))), true
		}),
		bin("srem", func(b *ir.Block, x, y value.Value) value.Value { return b.NewSRem(x, y) }, func(a, c int64) (int64, bool) {
			if i32(c) == 0 || (i32(a) == -2147483648 && i32(c) == -1) {
				return 0, false
			}
			return i32(i32(a) % i32(c)), true
		}),
		bin("shl", func(b *ir.Block, x, y value.Value) value.Value { return b.NewShl(x, y) }, func(a, c int64) (int64, bool) {
			if u(c) >= 32 {
				return 0, false
			}
			return i32(int64(u(a) << u(c))), true
		}),
		bin("lshr", func(b *ir.Block, x, y value.Value) value.Value { return b.NewLShr(x, y) }, func(a, c int64) (int64, bool) {
			if u(c) >= 32 {
				return 0, false
			}
			return i32(int64(u(a) >> u(c))), true
		}),
		bin("ashr", func(b *ir.Block, x, y value.Value) value.Value { return b.NewAShr(x, y) }, func(a, c int64) (int64, bool) {
			if u(c) >= 32 {
				return 0, false
			}
			return i32(int64(int32(a) >> u(c))), true
		}),
		bin("and", func(b *ir.Block, x, y value.Value) value.Value { return b.NewAnd(x, y) }, func(a, c int64) (int64, bool) { return i32(a & c), true }),
		bin("or", func(b *ir.Block, x, y value.Value) value.Value { return b.NewOr(x, y) }, func(a, c int64) (int64, bool) { return i32(a | c), true }),
		bin("xor", func(b *ir.Block, x, y value.Value) value.Value { return b.NewXor(x, y) }, func(a, c int64) (int64, bool) { return i32(a ^ c), true }),
	}
	preds := []struct {
		p enum.IPred
		f func(a, c int64) bool
	}{
		{enum.IPredEQ, func(a, c int64) bool { return i32(a) == i32(c) }}, {enum.IPredNE, func(a, c int64) bool { return i32(a) != i32(c) }},
		{enum.IPredSLT, func(a, c int64) bool { return i32(a) < i32(c) }}, {enum.IPredSLE, func(a, c int64) bool { return i32(a) <= i32(c) }},
		{enum.IPredSGT, func(a, c int64) bool { return i32(a) > i32(c) }}, {enum.IPredSGE, func(a, c int64) bool { return i32(a) >= i32(c) }},
		{enum.IPredULT, func(a, c int64) bool { return u(a) < u(c) }}, {enum.IPredULE, func(a, c int64) bool { return u(a) <= u(c) }},
		{enum.IPredUGT, func(a, c int64) bool { return u(a) > u(c) }}, {enum.IPredUGE, func(a, c int64) bool { return u(a) >= u(c) }},
	}
	for _, p := range preds {
		p := p
		// icmp + select: picks the first operand if the predicate holds, else the second; and
		// icmp + zext.
		ops = append(ops, bin("icmp-"+p.p.String()+"+select", func(b *ir.Block, x, y value.Value) value.Value {
			return b.NewSelect(b.NewICmp(p.p, x, y), x, y)
		}, func(a, c int64) (int64, bool) {
			if p.f(a, c) {
				return i32(a), true
			}
			return i32(c), true
		}))
		ops = append(ops, bin("icmp-"+p.p.String()+"+zext", func(b *ir.Block, x, y value.Value) value.Value {
			return b.NewZExt(b.NewICmp(p.p, x, y), types.I32)
		}, func(a, c int64) (int64, bool) {
			if p.f(a, c) {
				return 1, true
			}
			return 0, true
		}))
	}
	ops = append(ops,
		bin("trunc8+sext", func(b *ir.Block, x, y value.Value) value.Value {
			return b.NewAdd(b.NewSExt(b.NewTrunc(x, types.I8), types.I32), y)
		}, func(a, c int64) (int64, bool) { return i32(int64(int8(a)) + c), true }),
		bin("trunc8+zext", func(b *ir.Block, x, y value.Value) value.Value {
			return b.NewAdd(b.NewZExt(b.NewTrunc(x, types.I8), types.I32), y)
		}, func(a, c int64) (int64, bool) { return i32(int64(uint8(a)) + c), true }),
		bin("sext64+mul+trunc", func(b *ir.Block, x, y value.Value) value.Value {
			return b.NewTrunc(b.NewLShr(b.NewMul(b.NewSExt(x, types.I64), b.NewSExt(y, types.I64)), constant.NewInt(types.I64, 8)), types.I32)
		}, func(a, c int64) (int64, bool) { return i32(int64(uint64(i32(a)*i32(c)) >> 8)), true }),
		bin("alloca+store+load", func(b *ir.Block, x, y value.Value) value.Value {
			p := b.NewAlloca(types.I32)
			b.NewStore(x, p)
			l := b.NewLoad(types.I32, p)
			b.NewStore(y, p)
			return b.NewSub(l, b.NewLoad(types.I32, p))
		}, func(a, c int64) (int64, bool) { return i32(a - c), true }),
		bin("array-gep", func(b *ir.Block, x, y value.Value) value.Value {
			at := types.NewArray(4, types.I32)
			p := b.NewAlloca(at)
			b.NewStore(x, b.NewGetElementPtr(at, p, constant.NewInt(types.I32, 0), constant.NewInt(types.I32, 1)))
			b.NewStore(y, b.NewGetElementPtr(at, p, constant.NewInt(types.I32, 0), constant.NewInt(types.I32, 3)))
			return b.NewXor(b.NewLoad(types.I32, b.NewGetElementPtr(at, p, constant.NewInt(types.I32, 0), constant.NewInt(types.I32, 3))), b.NewLoad(types.I32, b.NewGetElementPtr(at, p, constant.NewInt(types.I64, 0), constant.NewInt(types.I64, 1))))
		}, func(a, c int64) (int64, bool) { return i32(a ^ c), true }),
		bin("struct-insert-extract", func(b *ir.Block, x, y value.Value) value.Value {
			st := types.NewStruct(types.I32, types.NewStruct(types.I8, types.I32))
			v := b.NewInsertValue(constant.NewUndef(st), x, 0)
			v2 := b.NewInsertValue(v, y, 1, 1)
			return b.NewSub(b.NewExtractValue(v2, 1, 1), b.NewExtractValue(v2, 0))
		}, func(a, c int64) (int64, bool) { return i32(c - a), true }),
		bin("vector-insert-extract", func(b *ir.Block, x, y value.Value) value.Value {
			vt := types.NewVector(2, types.I32)
			v := b.NewInsertElement(constant.NewUndef(vt), x, constant.NewInt(types.I32, 0))
			v2 := b.NewInsertElement(v, y, constant.NewInt(types.I32, 1))
			s := b.NewShuffleVector(v2, constant.NewUndef(vt), constant.NewVector(vt, constant.NewInt(types.I32, 1), constant.NewInt(types.I32, 0)))
			return b.NewSub(b.NewExtractElement(s, constant.NewInt(types.I32, 0)), b.NewExtractElement(v2, constant.NewInt(types.I32, 0)))
		}, func(a, c int64) (int64, bool) { return i32(c - a), true }),
	)
	return ops
}

// c03controlFlow builds diamond / loop / switch shaped functions computing a known value.
func c03controlFlow(m *ir.Module, name string, kind int, a, c int64) (f *ir.Func, want int64) {
	f = m.NewFunc(name, types.I32)
	A, C := constant.NewInt(types.I32, a), constant.NewInt(types.I32, c)
	entry := f.NewBlock("")
	switch kind {
	case 0: // diamond with phi: max(a, c) signed
		l, r, j := f.NewBlock(""), f.NewBlock("right"), f.NewBlock("")
		entry.NewCondBr(entry.NewICmp(enum.IPredSGT, A, C), l, r)
		l.NewBr(j)
		r.NewBr(j)
		j.NewRet(j.NewPhi(ir.NewIncoming(A, l), ir.NewIncoming(C, r)))
		want = a
		if i32(c) > i32(a) {
			want = c
		}
	case 1: // counted loop: sum_{i=0}^{(a&7)} (i + c)
		loop, exit := f.NewBlock("loop"), f.NewBlock("")
		n := entry.NewAnd(A, constant.NewInt(types.I32, 7))
		entry.NewBr(loop)
		i := loop.NewPhi(ir.NewIncoming(constant.NewInt(types.I32, 0), entry))
		s := loop.NewPhi(ir.NewIncoming(constant.NewInt(types.I32, 0), entry))
		s2 := loop.NewAdd(s, loop.NewAdd(i, C))
		i2 := loop.NewAdd(i, constant.NewInt(types.I32, 1))
		i.Incs = append(i.Incs, ir.NewIncoming(i2, loop))
		s.Incs = append(s.Incs, ir.NewIncoming(s2, loop))
		loop.NewCondBr(loop.NewICmp(enum.IPredULE, i2, n), loop, exit)
		exit.NewRet(s2)
		var sum int64
		for k := int64(0); k <= a&7; k++ {
			sum += k + c
		}
		want = i32(sum)
	case 2: // switch on a & 3
		d, c0, c1, c2 := f.NewBlock("default"), f.NewBlock(""), f.NewBlock("one"), f.NewBlock("")
		x := entry.NewAnd(A, constant.NewInt(types.I32, 3))
		entry.NewSwitch(x, d, ir.NewCase(constant.NewInt(types.I32, 0), c0), ir.NewCase(constant.NewInt(types.I32, 1), c1), ir.NewCase(constant.NewInt(types.I32, 2), c2))
		d.NewRet(C)
		c0.NewRet(constant.NewInt(types.I32, 10))
		c1.NewRet(c1.NewAdd(C, constant.NewInt(types.I32, 1)))
		c2.NewRet(c2.NewMul(C, constant.NewInt(types.I32, 2)))
		switch a & 3 {
		case 0:
			want = 10
		case 1:
			want = i32(c + 1)
		case 2:
			want = i32(c * 2)
		default:
			want = c
		}
	case 3: // call of a helper with arguments in order: helper(x, y) = x - 2*y
		h := m.NewFunc(name+"_h", types.I32, ir.NewParam("", types.I32), ir.NewParam("", types.I32))
		hb := h.NewBlock("")
		hb.NewRet(hb.NewSub(h.Params[0], hb.NewMul(h.Params[1], constant.NewInt(types.I32, 2))))
		entry.NewRet(entry.NewCall(h, A, C))
		want = i32(a - 2*c)
	}
	return f, i32(want)
}

type c03prog struct {
	Tests []string `json:"tests"`
	Text  string   `json:"module,omitempty"`
	Exit  int      `json:"lli_exit_code"`
	What  string   `json:"what"`
}

func c03exec(c *fw.Check) {
	ops := c03ops()
	inputs := [][2]int64{{7, 3}, {-5, 2}, {255, 9}, {-2147483648, -1}, {0, 0}, {1, 31}, {123456789, 1000}, {-1, -1}}
	type test struct {
		name string
		mk   func(m *ir.Module, fn string) int64
	}
	var tests []test
	for _, o := range ops {
		for _, in := range inputs {
			o, in := o, in
			want, ok := o.eval(in[0], in[1])
			if !ok {
				continue
			}
			tests = append(tests, test{fmt.Sprintf("%s(%d,%d)", o.name, in[0], in[1]), func(m *ir.Module, fn string) int64 {
				f := m.NewFunc(fn, types.I32, ir.NewParam("", types.I32), ir.NewParam("y", types.I32))
				b := f.NewBlock("")
				b.NewRet(o.build(b, f.Params[0], f.Params[1]))
				// wrapper passes the constants, so operand ORDER at the call matters too.
				w := m.NewFunc(fn+"_w", types.I32)
				wb := w.NewBlock("")
				wb.NewRet(wb.NewCall(f, constant.NewInt(types.I32, in[0]), constant.NewInt(types.I32, in[1])))
				return want
			}})
		}
	}
	// two-operation chains: op2(op1(a,c), c).
	for i, o1 := range ops {
		for j, o2 := range ops {
			if (i+j)%3 != 0 && c.Quick() {
				continue
			}
			o1, o2 := o1, o2
			in := inputs[(i+2*j)%len(inputs)]
			r1, ok1 := o1.eval(in[0], in[1])
			if !ok1 {
				continue
			}
			want, ok2 := o2.eval(r1, in[1])
			if !ok2 {
				continue
			}
			tests = append(tests, test{fmt.Sprintf("%s(%s(%d,%d),%d)", o2.name, o1.name, in[0], in[1], in[1]), func(m *ir.Module, fn string) int64 {
				f := m.NewFunc(fn, types.I32, ir.NewParam("x", types.I32), ir.NewParam("", types.I32))
				b := f.NewBlock("entry")
				b.NewRet(o2.build(b, o1.build(b, f.Params[0], f.Params[1]), f.Params[1]))
				w := m.NewFunc(fn+"_w", types.I32)
				wb := w.NewBlock("")
				wb.NewRet(wb.NewCall(f, constant.NewInt(types.I32, in[0]), constant.NewInt(types.I32, in[1])))
				return want
			}})
		}
	}
	for kind := 0; kind < 4; kind++ {
		for _, in := range inputs {
			kind, in := kind, in
			tests = append(tests, test{fmt.Sprintf("control-flow-%d(%d,%d)", kind, in[0], in[1]), func(m *ir.Module, fn string) int64 {
				_, want := c03controlFlow(m, fn+"_w", kind, in[0], in[1])
				return want
			}})
		}
	}
	c.Extra["execution_tests"] = len(tests)
	const per = 100
	nb := (len(tests) + per - 1) / per
	fw.ParallelFor(nb, func(bi int) {
		lo, hi := bi*per, (bi+1)*per
		if hi > len(tests) {
			hi = len(tests)
		}
		m := ir.NewModule()
		mainF := m.NewFunc("main", types.I32)
		cur := mainF.NewBlock("")
		var names []string
		for k := lo; k < hi; k++ {
			fn := fmt.Sprintf("t%d", k-lo)
			var want int64
			if p := fw.Try(func() { want = tests[k].mk(m, fn) }); p != "" {
				c.Violation("exec/constructor-panics@"+fw.PanicSiteOf(p), c03prog{Tests: []string{tests[k].name}, What: p})
				return
			}
			var callee *ir.Func
			for _, f := range m.Funcs {
				if f.Name() == fn+"_w" {
					callee = f
				}
			}
			r := cur.NewCall(callee)
			ok := cur.NewICmp(enum.IPredEQ, r, constant.NewInt(types.I32, want))
			next, fail := mainF.NewBlock(""), mainF.NewBlock("")
			cur.NewCondBr(ok, next, fail)
			fail.NewRet(constant.NewInt(types.I32, int64(k-lo+1)))
			cur = next
			names = append(names, tests[k].name)
		}
		cur.NewRet(constant.NewInt(types.I32, 0))
		var text string
		if p := fw.Try(func() { text = m.String() }); p != "" {
			c.Violation("exec/print-panics", c03prog{Tests: names, What: p})
			return
		}
		if okL, e := fw.LLVMAccepts(text); !okL {
			c.Violation("exec/llvm-rejects-constructed", c03prog{Tests: names, Text: fw.Trunc(text, 3000), What: fw.Trunc(e, 400)})
			return
		}
		code, se := fw.Lli(text)
		c.Valid(int64(hi - lo))
		c.DistinctN(int64(hi - lo))
		if code != 0 {
			failing := "?"
			if code >= 1 && code <= len(names) {
				failing = names[code-1]
			}
			sig := strings.SplitN(failing, "(", 2)[0]
			c.Violation("exec/wrong-result/"+sig, c03prog{Tests: []string{failing}, Text: fw.Trunc(text, 4000), Exit: code, What: "lli: the constructed program computes a value different from the reference evaluation of the construction calls; first failing test: " + failing + " " + fw.Trunc(se, 200)})
		}
	})
	c.Sample(map[string]interface{}{"execution_test": tests[len(tests)/2].name, "oracle": "main returns 0 iff every constructed function returns the value the reference evaluator computes (lli-14)"})
}

// c03apiConstants: constants built from Go values (NewFloat, NewInt, NewBool, NewCharArrayFromString)
// must denote those values: LLVM folds `fpext/fptrunc (double v to T)` to the reference literal.
func c03apiConstants(c *fw.Check) {
	kinds := []*types.FloatType{types.Half, types.Float, types.Double, types.X86_FP80, types.FP128, types.PPC_FP128}
	vals := []float64{0, 1, -1.5, 0.5, 1024, 65504, -2, 0.25, 33554432, 3}
	m := ir.NewModule()
	var ref strings.Builder
	n := 0
	for _, k := range kinds {
		for _, v := range vals {
			if k.Kind == types.FloatKindHalf && v > 65504 {
				continue
			}
			m.NewGlobalDef(fmt.Sprintf("f%d", n), constant.NewFloat(k, v))
			switch k.Kind {
			case types.FloatKindDouble:
				fmt.Fprintf(&ref, "@f%d = global double %s\n", n, c10decimal(v))
			case types.FloatKindHalf, types.FloatKindFloat:
				fmt.Fprintf(&ref, "@f%d = global %s fptrunc (double %s to %s)\n", n, k, c10decimal(v), k)
			default:
				fmt.Fprintf(&ref, "@f%d = global %s fpext (double %s to %s)\n", n, k, c10decimal(v), k)
			}
			n++
		}
	}
	for i, v := range []int64{0, 1, -1, 255, -128, 4096, 1 << 40, -(1 << 62)} {
		m.NewGlobalDef(fmt.Sprintf("i%d", i), constant.NewInt(types.I64, v))
		fmt.Fprintf(&ref, "@i%d = global i64 %d\n", i, v)
	}
	// integers of every width class, also beyond 64 bits (NewIntFromString and struct literals are
	// the only constructors for those): +-2^k, 2^k+-1 around the 63/64/127/128-bit boundaries,
	// all-ones and alternating patterns; the reference text is the plain decimal.
	{
		wi := 0
		for _, w := range []uint64{8, 16, 32, 64, 65, 96, 128, 129, 256} {
			seen := map[string]bool{}
			add := func(v *big.Int, how int) {
				lo := new(big.Int).Neg(new(big.Int).Lsh(big.NewInt(1), uint(w-1)))
				hi := new(big.Int).Sub(new(big.Int).Lsh(big.NewInt(1), uint(w)), big.NewInt(1))
				if v.Cmp(lo) < 0 || v.Cmp(hi) > 0 || seen[v.String()] {
					return
				}
				seen[v.String()] = true
				typ := types.NewInt(w)
				var k constant.Constant
				if how == 0 {
					kk, err := constant.NewIntFromString(typ, v.String())
					if err != nil {
						c.Violation("api-constants/NewIntFromString-fails", c03prog{What: fmt.Sprintf("i%d %s: %v", w, v, err)})
						return
					}
					k = kk
				} else {
					k = &constant.Int{Typ: typ, X: new(big.Int).Set(v)}
				}
				m.NewGlobalDef(fmt.Sprintf("w%d", wi), k)
				fmt.Fprintf(&ref, "@w%d = global i%d %s\n", wi, w, v.String())
				wi++
			}
			for _, k := range []uint{0, 1, 7, 12, 31, 32, 62, 63, 64, 65, 66, 95, 96, 126, 127, 128, 129, 255} {
				p2 := new(big.Int).Lsh(big.NewInt(1), k)
				for _, d := range []int64{-1, 0, 1} {
					v := new(big.Int).Add(p2, big.NewInt(d))
					add(v, 0)
					add(new(big.Int).Neg(v), 0)
				}
			}
			alt := new(big.Int)
			for i := uint(0); i < uint(w); i += 2 {
				alt.SetBit(alt, int(i), 1)
			}
			add(alt, 1)
			add(new(big.Int).Lsh(alt, 1), 1)
			if w >= 16 {
				add(new(big.Int).Lsh(big.NewInt(0xFFF), uint(w)-12), 1)
			}
			add(new(big.Int).Lsh(big.NewInt(1), uint(w)-5), 1)
		}
		n += wi
	}
	m.NewGlobalDef("bt", constant.NewBool(true))
	m.NewGlobalDef("bf", constant.NewBool(false))
	ref.WriteString("@bt = global i1 true\n@bf = global i1 false\n")
	m.NewGlobalDef("s", constant.NewCharArrayFromString("a\"b\\\x00\xff"))
	ref.WriteString("@s = global [6 x i8] c\"a\\22b\\5C\\00\\FF\"\n")
	var text string
	if p := fw.Try(func() { text = m.String() }); p != "" {
		c.Violation("api-constants/print-panics", c03prog{What: p})
		return
	}
	got, e1, ok1, _ := fw.AsDis(text)
	want, e2, ok2, _ := fw.AsDis(ref.String())
	if !ok2 {
		fw.Fatalf("C03 reference constants rejected by LLVM: %s", e2)
	}
	if !ok1 {
		c.Violation("api-constants/llvm-rejects", c03prog{Text: text, What: fw.Trunc(e1, 300)})
		return
	}
	gl, wl := strings.Split(got, "\n"), strings.Split(want, "\n")
	for i := range wl {
		if strings.HasPrefix(wl[i], "@") && (i >= len(gl) || gl[i] != wl[i]) {
			g := ""
			if i < len(gl) {
				g = gl[i]
			}
			name := strings.Fields(wl[i])[0]
			kind := strings.Fields(wl[i])[3]
			c.Violation("api-constants/value-differs/"+kind, c03prog{Tests: []string{name}, Text: text, What: "constant built from a Go value prints to `" + g + "`, LLVM's reference is `" + wl[i] + "`"})
		}
	}
	c.DistinctN(int64(n + 11))
	c.Valid(int64(n + 11))
}

// c03orders: construction steps whose relative order is free must give the same module: all
// dependency-respecting orders of {name the struct type, global of the type, function using a
// pointer to it (store/gep/load), alias to the global, a second function} are executed.
func c03orders(c *fw.Check) {
	type world struct {
		m  *ir.Module
		st *types.StructType
		g  *ir.Global
		f  *ir.Func
	}
	steps := []struct {
		name string
		need []int
		do   func(w *world)
	}{
		{"name-type", nil, func(w *world) { w.m.NewTypeDef("pair", w.st) }},
		{"global", nil, func(w *world) { w.g = w.m.NewGlobalDef("origin", constant.NewZeroInitializer(w.st)) }},
		{"func-store-gep-load", []int{1}, func(w *world) {
			w.f = w.m.NewFunc("f", types.I32, ir.NewParam("p", types.NewPointer(w.st)), ir.NewParam("v", w.st))
			b := w.f.NewBlock("entry")
			b.NewStore(w.f.Params[1], w.f.Params[0])
			// a pointer-typed store: its type check compares pointer types.
			slot := b.NewAlloca(types.NewPointer(w.st))
			b.NewStore(w.f.Params[0], slot)
			_ = b.NewICmp(enum.IPredEQ, w.f.Params[0], b.NewLoad(types.NewPointer(w.st), slot))
			q := b.NewGetElementPtr(w.st, w.g, constant.NewInt(types.I32, 0), constant.NewInt(types.I32, 0))
			b.NewRet(b.NewLoad(types.I32, q))
		}},
		{"alias", []int{1}, func(w *world) { w.m.NewAlias("al", w.g) }},
		{"func2-call", []int{2}, func(w *world) {
			h := w.m.NewFunc("h", types.I32, ir.NewParam("p", types.NewPointer(w.st)))
			b := h.NewBlock("entry")
			b.NewRet(b.NewCall(w.f, h.Params[0], constant.NewUndef(w.st)))
		}},
	}
	perm := []int{0, 1, 2, 3, 4}
	var ref, refOrder string
	n := 0
	permute(perm, 0, func(p []int) {
		pos := map[int]int{}
		for i, x := range p {
			pos[x] = i
		}
		for si, st := range steps {
			for _, d := range st.need {
				if pos[d] > pos[si] {
					return
				}
			}
		}
		w := &world{m: ir.NewModule(), st: types.NewStruct(types.I32, types.I64)}
		var names []string
		var text string
		pan := fw.Try(func() {
			for _, si := range p {
				steps[si].do(w)
				names = append(names, steps[si].name)
			}
			// canonical order of the lists (construction order differs by design).
			text = w.m.String()
		})
		n++
		order := strings.Join(names, " ; ")
		if pan != "" {
			c.Violation("orders/panic@"+fw.PanicSiteOf(pan), c03prog{Tests: []string{order}, What: pan})
			return
		}
		// functions are printed in construction order: compare as sorted sets of top-level entities.
		key := sortedEntities(text)
		if ref == "" {
			ref, refOrder = key, order
			if ok, e := fw.LLVMAccepts(text); !ok {
				c.Violation("orders/llvm-rejects", c03prog{Tests: []string{order}, Text: text, What: fw.Trunc(e, 300)})
			}
		} else if key != ref {
			c.Violation("orders/text-depends-on-construction-order", c03prog{Tests: []string{order, refOrder}, Text: text, What: "the same construction steps in another dependency-respecting order print a different module:\n" + firstDiff(ref, key)})
		}
	})
	c.DistinctN(int64(n))
	c.Valid(int64(n))
	c.Extra["construction_orders"] = n
}

func sortedEntities(text string) string {
	ents := strings.Split(text, "\n\n")
	var out []string
	for _, e := range ents {
		if strings.HasPrefix(e, "define") || strings.HasPrefix(e, "declare") {
			out = append(out, e)
		} else {
			out = append(out, e)
		}
	}
	sortStrings(out)
	return strings.Join(out, "\n\n")
}

func runC03(c *fw.Check) {
	gen.SetWide()
	bound := 1
	if !c.Quick() {
		bound = 2
		c.SetBudget(45 * 60 * 1e9)
	}
	if c.Deep() {
		bound = 3
	}
	entries := gen.Catalogue()
	all, batches := genBatches(entries, bound, 40)
	c.Rule = fmt.Sprintf("(A) construction programs derived from EVERY variant with <=%d deviations of the generator catalogue over the widened type universe: the parsed module is re-built from scratch through Module.NewGlobal/NewFunc, Func.NewBlock, every Block.NewXxx instruction/terminator constructor and every constant.NewXxx constructor (operands mapped, flags copied by reflection); no constructor may panic on these well-typed operands, the constructed module must print byte-identically to the module it was derived from, and the library must re-parse that text to a structurally identical module; the set of constructors exercised is compared with the list go/types reads from the source. (B) execution: %d-operation integer/compare/select/cast/memory/aggregate/vector alphabet, single operations on 8 input vectors and two-operation chains, plus diamond/loop/switch/call shapes, built through the API, printed, accepted by llvm-as and RUN by lli-14; a reference evaluator written here gives the expected value. distinct = variants + execution tests.", bound, len(c03ops()))
	c.Extra["variants"] = len(all)
	fs := &failSet{}
	used := map[string]bool{}
	var mu sync.Mutex
	fw.ParallelFor(len(batches), func(i int) {
		if c.OverBudget() {
			return
		}
		bisect(fs, batches[i], c03test(used, &mu))
		c.DistinctN(int64(len(batches[i])))
		c.Valid(int64(len(batches[i])))
	})
	fs.report(c)
	// constructor coverage against the source.
	var missing []string
	for _, n := range BlockConstructors {
		if !used["Block."+n] {
			missing = append(missing, "Block."+n)
		}
	}
	for _, n := range ConstConstructors {
		if !used["constant."+n] {
			missing = append(missing, "constant."+n)
		}
	}
	c.Extra["constructors_exercised"] = len(used)
	c.Extra["constructors_in_source_not_exercised_by_part_A"] = missing
	if fw.HaveLLVM() {
		c03exec(c)
		c08ehAPI(c, "C03") // exception-handling funclets with every subset of values left unnamed
		c03apiConstants(c)
		c03orders(c)
	}
	if len(all) > 3 {
		v := all[len(all)/4]
		c.Sample(map[string]interface{}{"derived_from": v.Entry, "deviations": v.Devs, "module": gen.Module([]gen.Variant{v})})
	}
}

func replayC03(c *fw.Check, path string) {
	gen.SetWide()
	var cs genCase
	loadReplay(path, &cs)
	var mu sync.Mutex
	if vs := variantsOfCase(cs); len(vs) > 0 {
		fmt.Printf("replay %s:\n%s\n", cs.Entry, gen.Module(vs))
		fs := &failSet{}
		bisect(fs, vs, c03test(map[string]bool{}, &mu))
		fs.report(c)
	}
	c.Case("a", "a")
	c.Case("b", "b")
}

// c03rawName reads the name of a named value from its LocalName / GlobalName field: Name() returns
// numeric names in quoted form, which is not what SetName or the New* constructors take.
func c03rawName(x interface{}) string {
	v := reflect.ValueOf(x)
	if v.Kind() == reflect.Ptr {
		v = v.Elem()
	}
	for _, fn := range []string{"LocalName", "GlobalName"} {
		if f := v.FieldByName(fn); f.IsValid() && f.Kind() == reflect.String {
			return f.String()
		}
	}
	panic(fmt.Sprintf("c03rawName: %T has no name field", x))
}
