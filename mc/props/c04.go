package props

import (
	"fmt"
	"reflect"
	"strings"

	"github.com/llir/llvm/ir"
	"github.com/llir/llvm/ir/constant"
	"github.com/llir/llvm/ir/metadata"
	"github.com/llir/llvm/ir/types"

	"verif/fw"
	"verif/gen"
)

func init() { Registry["C04"] = Prop{Run: runC04, Replay: replayC04} }

// idCheck verifies the identity constraints of C04 on one parsed module.
type idCheck struct {
	m        *ir.Module
	globals  map[interface{}]bool // *Global *Func *Alias *IFunc
	typeDefs map[string]types.Type
	comdats  map[*ir.ComdatDef]bool
	attrs    map[*ir.AttrGroupDef]bool
	mdDefs   map[interface{}]bool
	locals   map[*ir.Func]map[interface{}]bool // params, blocks, instructions, terminators
	cur      *ir.Func
	seen     map[uintptr]bool
	seenT    map[types.Type]bool
	errs     []string
}

func (k *idCheck) fail(format string, a ...interface{}) {
	if len(k.errs) < 8 {
		k.errs = append(k.errs, fmt.Sprintf(format, a...))
	}
}

// c04bindingOf builds the tables of the identity check and runs the binding oracle.
func c04bindingOf(text string, m *ir.Module) []string {
	k := &idCheck{m: m, globals: map[interface{}]bool{}, locals: map[*ir.Func]map[interface{}]bool{}}
	for _, g := range m.Globals {
		k.globals[g] = true
	}
	for _, g := range m.Aliases {
		k.globals[g] = true
	}
	for _, g := range m.IFuncs {
		k.globals[g] = true
	}
	for _, g := range m.Funcs {
		k.globals[g] = true
		l := map[interface{}]bool{}
		for _, p := range g.Params {
			l[p] = true
		}
		for _, b := range g.Blocks {
			l[b] = true
			for _, i := range b.Insts {
				l[i] = true
			}
			if b.Term != nil {
				l[b.Term] = true
			}
		}
		k.locals[g] = l
	}
	return c04binding(text, m, k)
}

func c04check(m *ir.Module) []string {
	k := &idCheck{m: m, globals: map[interface{}]bool{}, typeDefs: map[string]types.Type{}, comdats: map[*ir.ComdatDef]bool{}, attrs: map[*ir.AttrGroupDef]bool{}, mdDefs: map[interface{}]bool{}, locals: map[*ir.Func]map[interface{}]bool{}, seen: map[uintptr]bool{}, seenT: map[types.Type]bool{}}
	for _, g := range m.Globals {
		k.globals[g] = true
	}
	for _, g := range m.Aliases {
		k.globals[g] = true
	}
	for _, g := range m.IFuncs {
		k.globals[g] = true
	}
	for _, g := range m.Funcs {
		k.globals[g] = true
		if g.Parent != m {
			k.fail("function %s: Parent is not the module", g.Ident())
		}
		l := map[interface{}]bool{}
		for _, p := range g.Params {
			l[p] = true
		}
		for _, b := range g.Blocks {
			l[b] = true
			if b.Parent != g {
				k.fail("block %s of %s: Parent link disagrees with containment", b.Ident(), g.Ident())
			}
			if b.Term == nil {
				k.fail("block %s of %s has no terminator", b.Ident(), g.Ident())
			}
			for _, i := range b.Insts {
				l[i] = true
			}
			if b.Term != nil {
				l[b.Term] = true
			}
		}
		k.locals[g] = l
	}
	for _, t := range m.TypeDefs {
		if t.Name() == "" {
			k.fail("type definition without a name: %s", t.LLString())
		}
		k.typeDefs[t.Name()] = t
	}
	for _, c := range m.ComdatDefs {
		k.comdats[c] = true
	}
	for _, a := range m.AttrGroupDefs {
		k.attrs[a] = true
	}
	for _, d := range m.MetadataDefs {
		k.mdDefs[d] = true
	}
	// walk everything.
	for _, t := range m.TypeDefs {
		k.typ(t, true)
	}
	for _, g := range m.Globals {
		k.fields(reflect.ValueOf(g).Elem(), "global "+g.Ident())
	}
	for _, g := range m.Aliases {
		k.fields(reflect.ValueOf(g).Elem(), "alias "+g.Ident())
	}
	for _, g := range m.IFuncs {
		k.fields(reflect.ValueOf(g).Elem(), "ifunc "+g.Ident())
	}
	for _, a := range m.AttrGroupDefs {
		k.fields(reflect.ValueOf(a).Elem(), "attrgroup")
	}
	for name, nm := range m.NamedMetadataDefs {
		k.fields(reflect.ValueOf(nm).Elem(), "named metadata "+name)
	}
	for _, d := range m.MetadataDefs {
		k.fields(reflect.ValueOf(d).Elem(), "metadata "+d.Ident())
	}
	for _, u := range m.UseListOrders {
		k.fields(reflect.ValueOf(u).Elem(), "uselistorder")
	}
	for _, u := range m.UseListOrderBBs {
		if !k.globals[u.Func] {
			k.fail("uselistorder_bb: function is not the module's definition")
		} else if !k.locals[u.Func][u.Block] {
			k.fail("uselistorder_bb: block is not a block of the function")
		}
	}
	for _, f := range m.Funcs {
		k.cur = f
		where := "function " + f.Ident()
		k.fields(reflect.ValueOf(f).Elem(), where)
		for _, p := range f.Params {
			k.fields(reflect.ValueOf(p).Elem(), where+" param")
		}
		for _, b := range f.Blocks {
			for _, i := range b.Insts {
				k.fields(reflect.ValueOf(i).Elem(), where+" inst "+fw.Trunc(i.LLString(), 60))
			}
			if b.Term != nil {
				k.fields(reflect.ValueOf(b.Term).Elem(), where+" term "+fw.Trunc(b.Term.LLString(), 60))
			}
		}
		k.cur = nil
	}
	return k.errs
}

var (
	typeIface  = reflect.TypeOf((*types.Type)(nil)).Elem()
	mdDefIface = reflect.TypeOf((*metadata.Definition)(nil)).Elem()
)

// typ checks a type: every named type reachable must be THE object listed in m.TypeDefs.
func (k *idCheck) typ(t types.Type, isDef bool) {
	if t == nil || k.seenT[t] {
		return
	}
	k.seenT[t] = true
	if n := t.Name(); n != "" {
		if def, ok := k.typeDefs[n]; !ok {
			k.fail("named type %%%s is used but not defined by the module", n)
		} else if def != t {
			k.fail("a use of named type %%%s is a different object than the module's definition", n)
		}
	}
	switch t := t.(type) {
	case *types.PointerType:
		k.typ(t.ElemType, false)
	case *types.VectorType:
		k.typ(t.ElemType, false)
	case *types.ArrayType:
		k.typ(t.ElemType, false)
	case *types.StructType:
		for _, f := range t.Fields {
			k.typ(f, false)
		}
	case *types.FuncType:
		k.typ(t.RetType, false)
		for _, p := range t.Params {
			k.typ(p, false)
		}
	}
}

// fields walks the fields of a definition; every entity pointer met is a USE and is checked.
func (k *idCheck) fields(v reflect.Value, where string) {
	t := v.Type()
	switch t.Kind() {
	case reflect.Struct:
		if skipPkg(t) {
			return
		}
		for i := 0; i < v.NumField(); i++ {
			f := t.Field(i)
			if f.Name == "Parent" {
				continue // checked explicitly
			}
			k.fields(v.Field(i), where+"."+f.Name)
		}
	case reflect.Slice, reflect.Array:
		for i := 0; i < v.Len(); i++ {
			k.fields(v.Index(i), where)
		}
	case reflect.Map:
		for _, key := range v.MapKeys() {
			k.fields(v.MapIndex(key), where)
		}
	case reflect.Interface:
		if !v.IsNil() {
			k.fields(v.Elem(), where)
		}
	case reflect.Ptr:
		if v.IsNil() {
			return
		}
		x := v.Interface()
		switch o := x.(type) {
		case *ir.Global, *ir.Func, *ir.Alias, *ir.IFunc:
			if !k.globals[x] {
				k.fail("%s: refers to %s %v which is not the object the module lists as its definition", where, t.Elem().Name(), identOf(x))
			}
			return
		case *ir.Block, *ir.Param:
			k.local(x, where)
			return
		case *ir.ComdatDef:
			if !k.comdats[o] {
				k.fail("%s: comdat $%s is not the module's definition", where, o.Name)
			}
			return
		case *ir.AttrGroupDef:
			if !k.attrs[o] {
				k.fail("%s: attribute group #%d is not listed in the module", where, o.ID)
			}
			return
		case *constant.BlockAddress:
			fn, okf := o.Func.(*ir.Func)
			if !okf || !k.globals[fn] {
				k.fail("%s: blockaddress function is not a function of the module", where)
				return
			}
			blk, okb := o.Block.(*ir.Block)
			if !okb || !k.locals[fn][blk] {
				k.fail("%s: blockaddress(%s, %s): the block is not a block of that function (placeholder or foreign block)", where, fn.Ident(), identOf(o.Block))
			}
			return
		}
		if tt, ok := x.(types.Type); ok {
			k.typ(tt, false)
			return
		}
		if _, ok := x.(ir.Instruction); ok && strings.HasPrefix(t.Elem().Name(), "Inst") {
			k.local(x, where)
			return
		}
		if _, ok := x.(ir.Terminator); ok && strings.HasPrefix(t.Elem().Name(), "Term") {
			k.local(x, where)
			return
		}
		if d, ok := x.(metadata.Definition); ok && d.ID() != -1 {
			if !k.mdDefs[x] {
				k.fail("%s: reference to metadata !%d is a different object than definition !%d of the module", where, d.ID(), d.ID())
			}
			return
		}
		p := v.Pointer()
		if k.seen[p] {
			return
		}
		k.seen[p] = true
		k.fields(v.Elem(), where)
	}
}

func (k *idCheck) local(x interface{}, where string) {
	if k.cur == nil {
		k.fail("%s: local value %v referenced from outside any function", where, identOf(x))
		return
	}
	if !k.locals[k.cur][x] {
		// which function owns it, if any?
		owner := "no function (placeholder)"
		for f, l := range k.locals {
			if l[x] {
				owner = "function " + f.Ident()
			}
		}
		k.fail("%s: local %v is not a parameter/block/instruction of the enclosing function; it belongs to %s", where, identOf(x), owner)
	}
}

func identOf(x interface{}) string {
	if i, ok := x.(interface{ Ident() string }); ok {
		var s string
		fw.Try(func() { s = i.Ident() })
		return s
	}
	return fmt.Sprintf("%T", x)
}

func skipPkg(t reflect.Type) bool {
	p := t.PkgPath()
	return p == "sync" || strings.HasSuffix(p, "/vhook") || p == "math/big"
}

func c04test(vs []gen.Variant) (kind, what, detail, printed string) {
	x := gen.Module(vs)
	m, errs, pan := parseTry(x)
	if errs != "" || pan != "" {
		if len(vs) > 1 {
			return "split", "", "", "" // isolate the variant the parser does not accept
		}
		return "", "", "", "" // not accepted: outside C04's quantifier
	}
	var bad []string
	if p := fw.Try(func() { bad = c04check(m) }); p != "" {
		return "walker-panics", "identity walk panics on the parsed module", p, ""
	}
	if len(bad) == 0 {
		var wrong []string
		if p := fw.Try(func() { wrong = c04bindingOf(x, m) }); p != "" {
			return "walker-panics", "binding walk panics on the parsed module", p, ""
		}
		if len(wrong) > 0 {
			return "binding", "a reference is bound to another entity than the one whose name is written", strings.Join(wrong, "\n"), ""
		}
	}
	if len(bad) == 0 {
		// the same text parsed once more in this process: every reference must resolve inside
		// the SECOND module too (nothing may be remembered from the earlier parse).
		m2, errs2, pan2 := parseTry(x)
		if errs2 != "" || pan2 != "" {
			return "second-parse-differs", "the same text is not accepted when parsed a second time", errs2 + pan2, ""
		}
		if p := fw.Try(func() { bad = c04check(m2) }); p != "" {
			return "walker-panics", "identity walk panics on the module parsed second", p, ""
		}
		for i := range bad {
			bad[i] = "[second parse of the same text] " + bad[i]
		}
	}
	if len(bad) > 0 {
		k := "identity"
		switch {
		case strings.Contains(bad[0], "blockaddress"):
			k = "blockaddress"
		case strings.Contains(bad[0], "named type"):
			k = "named-type"
		case strings.Contains(bad[0], "metadata"):
			k = "metadata"
		case strings.Contains(bad[0], "Parent") || strings.Contains(bad[0], "terminator"):
			k = "parent-or-placeholder"
		case strings.Contains(bad[0], "local"):
			k = "local"
		case strings.Contains(bad[0], "attribute group"):
			k = "attrgroup"
		}
		return k, "a reference in the parsed module is not the defining object", strings.Join(bad, "\n"), ""
	}
	return "", "", "", ""
}

func runC04(c *fw.Check) {
	bound := 2
	if !c.Quick() {
		bound = 3
		c.SetBudget(45 * 60 * 1e9)
	}
	if c.Deep() {
		bound = 4
	}
	entries := gen.Catalogue()
	all, batches := genBatches(entries, bound, 40)
	c.Rule = fmt.Sprintf("all variants with <=%d deviations of the %d-production catalogue (incl. 14 reference topologies: mutually referring globals, recursive calls, phi/branch cycles, use before definition, blockaddress into other functions and of equally named labels, recursive and mutually recursive types, metadata cycles and forward references, aliases of aliases, shared comdats and attribute groups, use-list orders) are parsed in batches (so equally named locals of many functions coexist) and the object graph is walked by reflection: every global-like operand must be pointer-identical to an element of the module's lists, every block/param/instruction operand to an element of the ENCLOSING function, blockaddress blocks to blocks of the named function, every named type to the TypeDefs object, comdats/attribute groups/numbered metadata likewise; Parent links agree with containment; no block without terminator. Each text is parsed a second time in the same process and the second module must satisfy the same constraints (a reference resolving into the module of an EARLIER parse is caught); PLUS all two-variant modules (every ordered pair of productions in their simplest form, every ordered pair of <=1-deviation variants of one production, each variant next to a twin of itself); a failure that needs several variants in one module is narrowed to a smallest failing combination. distinct = variants.", bound, len(entries))
	c.Extra["variants"] = len(all)
	fs := &failSet{}
	fw.ParallelFor(len(batches), func(i int) {
		if c.OverBudget() {
			return
		}
		bisect(fs, batches[i], c04test)
		c.DistinctN(int64(len(batches[i])))
		c.Valid(int64(len(batches[i])))
	})
	pairs := genPairs(entries, true)
	c.Extra["pair_modules"] = len(pairs)
	fw.ParallelFor(len(pairs), func(i int) {
		if c.OverBudget() {
			return
		}
		bisect(fs, pairs[i], c04test)
		c.DistinctN(1)
		c.Valid(1)
	})
	fs.report(c)
	for _, v := range all {
		if v.Entry == "ref-patterns" && len(v.Devs) == 1 && c.NSamples() < 4 {
			c.Sample(map[string]interface{}{"entry": v.Entry, "deviations": v.Devs, "module": gen.Module([]gen.Variant{v})})
		}
	}
}

func replayC04(c *fw.Check, path string) {
	var cs genCase
	loadReplay(path, &cs)
	if vs := variantsOfCase(cs); len(vs) > 0 {
		fmt.Printf("replay %s:\n%s\n", cs.Entry, gen.Module(vs))
		fs := &failSet{}
		bisect(fs, vs, c04test)
		fs.report(c)
	}
	c.Case("a", "a")
	c.Case("b", "b")
}
