package props

import (
	"bytes"
	"crypto/sha256"
	"encoding/hex"
	"encoding/json"
	"fmt"
	"os"
	"os/exec"
	"strings"

	"github.com/llir/llvm/asm"
	"github.com/llir/llvm/ir"

	"verif/fw"
	"verif/gen"
)

// (d) Leak matrix: "whatever else was parsed or printed earlier in the process". The histories of
// part (b) run over two hand-written inputs; a translator that remembers something from an earlier
// parse (a recycled generator whose index is not emptied, a shared singleton that is written to, a
// memo keyed by a spelling) only shows when the EARLIER input contains the one construct that is
// remembered. Every variant of the generator catalogue with <=D deviations is therefore used as the
// first parse of a fresh process (the POLLUTER); that process then parses and prints every VICTIM
// (every catalogue production in its simplest form, or with <=1 deviations in the thorough tier),
// parses the polluter again, and prints all victim modules a second time. Oracles:
//   - the outcome of every victim equals the outcome of the same text as FIRST parse of a fresh
//     process (the victim's own row of the matrix);
//   - the polluter parsed a second time gives the outcome of its first parse;
//   - a victim module printed again later gives the text it gave right after its parse.
// A mismatch is re-run in a fresh process with that one pair alone and reported as a pair when it
// reproduces, as a history otherwise.

type c12leakReq struct {
	Polluter string   `json:"polluter"`
	Victims  []string `json:"victims"`
}

type c12leakRes struct {
	First    string   `json:"first"`  // hash of the polluter's first outcome
	Second   string   `json:"second"` // hash of the polluter's outcome when parsed again at the end
	Victims  []string `json:"victims"`
	Reprint  []int    `json:"reprint_differs"` // victims whose module printed differently later
	FirstOut string   `json:"first_out,omitempty"`
	Outs     []string `json:"outs,omitempty"` // full outcomes (only with VERIF_LEAK_FULL)
}

func c12hash(s string) string {
	h := sha256.Sum256([]byte(s))
	return hex.EncodeToString(h[:10])
}

func c12leakWorker() {
	var req c12leakReq
	if err := json.NewDecoder(os.Stdin).Decode(&req); err != nil {
		fmt.Fprintln(os.Stderr, "leak worker:", err)
		os.Exit(3)
	}
	full := os.Getenv("VERIF_LEAK_FULL") != ""
	// quick tier: accept/reject verdict and printed text; thorough: also the structure digest.
	outcomeOf := c12outcome
	if os.Getenv("VERIF_LEAK_TEXT_ONLY") != "" {
		outcomeOf = func(parse func() (*ir.Module, error)) string {
			var out string
			if p := fw.Try(func() {
				m, err := parse()
				if err != nil {
					out = "ERR"
					return
				}
				out = "OK\n" + m.String() + "\n; structure digest not computed"
			}); p != "" {
				return "PANIC " + p
			}
			return out
		}
	}
	parseOut := func(text string) string {
		return outcomeOf(func() (*ir.Module, error) { return parseNoTry(text) })
	}
	var res c12leakRes
	o := parseOut(req.Polluter)
	res.First = c12hash(o)
	if full {
		res.FirstOut = o
	}
	mods := make([]*ir.Module, len(req.Victims))
	texts := make([]string, len(req.Victims))
	for i, v := range req.Victims {
		var m *ir.Module
		out := outcomeOf(func() (*ir.Module, error) {
			mm, err := parseNoTry(v)
			m = mm
			return mm, err
		})
		res.Victims = append(res.Victims, c12hash(out))
		if full {
			res.Outs = append(res.Outs, out)
		}
		if strings.HasPrefix(out, "OK\n") {
			mods[i] = m
			texts[i] = out
		}
	}
	res.Second = c12hash(parseOut(req.Polluter))
	for i, m := range mods {
		if m == nil {
			continue
		}
		var again string
		p := fw.Try(func() { again = m.String() })
		if p != "" || !strings.HasPrefix(texts[i], "OK\n"+again+"\n; structure digest") {
			res.Reprint = append(res.Reprint, i)
		}
	}
	b, _ := json.Marshal(res)
	os.Stdout.Write(b)
	os.Exit(0)
}

var c12leakTextOnly bool

func c12leakRun(req c12leakReq, full bool) (c12leakRes, error) {
	var res c12leakRes
	cmd := exec.Command(os.Args[0], "C12", "--leak-worker")
	cmd.Env = append(os.Environ(), "GOMAXPROCS=1", "GORACE=halt_on_error=0 log_path=/dev/null atexit_sleep_ms=0")
	if c12leakTextOnly {
		cmd.Env = append(cmd.Env, "VERIF_LEAK_TEXT_ONLY=1")
	}
	if full {
		cmd.Env = append(cmd.Env, "VERIF_LEAK_FULL=1")
	}
	in, _ := json.Marshal(req)
	cmd.Stdin = bytes.NewReader(in)
	var so, se bytes.Buffer
	cmd.Stdout, cmd.Stderr = &so, &se
	if err := cmd.Run(); err != nil {
		return res, fmt.Errorf("%v: %s", err, fw.Trunc(se.String(), 800))
	}
	if err := json.Unmarshal(so.Bytes(), &res); err != nil {
		return res, fmt.Errorf("%v: %s", err, fw.Trunc(so.String(), 300))
	}
	return res, nil
}

func c12leakMatrix(c *fw.Check) {
	polBound, vicBound := 1, 0
	c12leakTextOnly = false // (the digest costs little once the workers exit without TSan's exit sleep)
	if !c.Quick() {
		polBound, vicBound = 2, 1
	}
	var pol, vic []gen.Variant
	for i, e := range gen.Catalogue() {
		pol = append(pol, gen.Variants(e, i, polBound)...)
		vic = append(vic, gen.Variants(e, i, vicBound)...)
	}
	vtexts := make([]string, len(vic))
	for i, v := range vic {
		vtexts[i] = gen.Module([]gen.Variant{v})
	}
	// the victims' own rows first: reference outcome of each victim = first parse of a fresh process.
	ref := make([]string, len(vic))
	errs := make([]error, len(vic))
	fw.ParallelFor(len(vic), func(i int) {
		r, err := c12leakRun(c12leakReq{Polluter: vtexts[i]}, false)
		ref[i], errs[i] = r.First, err
	})
	for i, e := range errs {
		if e != nil {
			fw.Fatalf("C12 leak worker (victim %s %v): %v", vic[i].Entry, vic[i].Devs, e)
		}
	}
	type viol struct {
		sig string
		cs  c12case
	}
	viols := make([][]viol, len(pol))
	fw.ParallelFor(len(pol), func(pi int) {
		if c.OverBudget() {
			return
		}
		ptext := gen.Module([]gen.Variant{pol[pi]})
		r, err := c12leakRun(c12leakReq{Polluter: ptext, Victims: vtexts}, false)
		if err != nil {
			viols[pi] = append(viols[pi], viol{"leak/worker-died/" + pol[pi].Entry, c12case{Part: "leak-matrix", Input: fw.Trunc(ptext, 1200), What: "the process that parsed this input first and the victims afterwards died: " + err.Error()}})
			return
		}
		pname := fmt.Sprintf("%s%v", pol[pi].Entry, pol[pi].Devs)
		if r.Second != r.First {
			viols[pi] = append(viols[pi], viol{"leak/second-parse-of-the-same-text-differs/" + pol[pi].Entry, c12case{Part: "leak-matrix", Input: fw.Trunc(ptext, 1500), History: []string{"parse " + pname, fmt.Sprintf("parse %d other inputs", len(vtexts)), "parse " + pname + " again"}, What: "the same text gives a different result when parsed again later in the process"}})
		}
		for _, vi := range r.Reprint {
			viols[pi] = append(viols[pi], viol{"leak/earlier-module-prints-differently/" + vic[vi].Entry, c12case{Part: "leak-matrix", Input: fw.Trunc(vtexts[vi], 1200), History: []string{"parse " + pname, "parse victims, print each", "parse " + pname + " again", "print victim module again"}, What: "a module prints differently after other inputs were parsed"}})
			break
		}
		for vi := range vtexts {
			if vi >= len(r.Victims) || r.Victims[vi] == ref[vi] {
				continue
			}
			// narrow: this pair alone in a fresh process, with full outcomes.
			vname := fmt.Sprintf("%s%v", vic[vi].Entry, vic[vi].Devs)
			r2, err2 := c12leakRun(c12leakReq{Polluter: ptext, Victims: []string{vtexts[vi]}}, true)
			fresh, _ := c12leakRun(c12leakReq{Polluter: vtexts[vi]}, true)
			if err2 == nil && len(r2.Victims) == 1 && r2.Victims[0] != ref[vi] {
				viols[pi] = append(viols[pi], viol{"leak/" + pol[pi].Entry + "->" + vic[vi].Entry, c12case{Part: "leak-matrix", Input: fw.Trunc(ptext, 1000) + "\n---- then ----\n" + fw.Trunc(vtexts[vi], 1000), History: []string{"parse " + pname, "parse " + vname}, Want: fw.Trunc(fresh.FirstOut, 1200), Got: fw.Trunc(strings.Join(r2.Outs, ""), 1200), What: "the second input gives a different result than in a fresh process"}})
			} else {
				viols[pi] = append(viols[pi], viol{"leak/history->" + vic[vi].Entry, c12case{Part: "leak-matrix", Input: fw.Trunc(vtexts[vi], 1200), History: []string{"parse " + pname, fmt.Sprintf("parse victims 0..%d", vi-1), "parse " + vname}, Want: fw.Trunc(fresh.FirstOut, 1200), What: "the input gives a different result than in a fresh process (not reproduced by the first and the last input alone)"}})
			}
			break // one report per polluter
		}
		c.DistinctN(int64(len(vtexts)) + 1)
		c.Valid(int64(len(vtexts)) + 1)
		c.Step(int64(2*len(vtexts)) + 2)
	})
	n := 0
	for _, vs := range viols {
		for _, v := range vs {
			c.Violation(v.sig, v.cs)
			n++
		}
	}
	c.Extra["leak_matrix_polluters"] = len(pol)
	c.Extra["leak_matrix_victims"] = len(vic)
	c.Extra["leak_matrix_mismatches"] = n
}

func parseNoTry(text string) (*ir.Module, error) { return asm.ParseString("x.ll", text) }
