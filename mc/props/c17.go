package props

import (
	"fmt"
	"regexp"
	"sort"
	"strings"

	"github.com/llir/llvm/ir"
	"github.com/llir/llvm/ir/constant"
	"github.com/llir/llvm/ir/enum"
	"github.com/llir/llvm/ir/metadata"
	"github.com/llir/llvm/ir/types"

	"verif/fw"
	"verif/llcanon"
)

func init() { Registry["C17"] = Prop{Run: runC17, Replay: replayC17} }

// c17node describes one metadata node of a graph.
type c17node struct {
	Kind     int   `json:"kind"`     // 4 numbered !DIExpression (refers to nothing), 0 tuple, 1 DIDerivedType (refs = baseType, scope), 2 tuple with an inline child holding the refs, 3 bare distinct tuple of the refs only (`distinct !{}` when empty)
	Distinct bool  `json:"distinct"` //
	IDMode   int   `json:"id_mode"`  // 0 unassigned (-1), 1 explicit dense, 2 explicit sparse
	Refs     []int `json:"refs"`     // indices of referenced nodes
}

type c17graph struct {
	Nodes []c17node `json:"nodes"`
}

func (g c17graph) String() string {
	var s []string
	for i, n := range g.Nodes {
		s = append(s, fmt.Sprintf("n%d{kind:%d distinct:%v id:%s refs:%v}", i, n.Kind, n.Distinct, []string{"unassigned", "dense", "sparse"}[n.IDMode], n.Refs))
	}
	return strings.Join(s, " ")
}

// explicitID is the ID written on node i in the modes with explicit numbers.
func c17explicitID(g c17graph, i int) int64 {
	switch g.Nodes[i].IDMode {
	case 1:
		return int64(i)
	case 2:
		return int64(10 + 7*i)
	}
	return -1
}

// c17expectedIDs is the reference model: explicit IDs are kept, unassigned nodes receive the
// smallest unused numbers in module order.
func c17expectedIDs(g c17graph) []int64 {
	used := map[int64]bool{}
	out := make([]int64, len(g.Nodes))
	for i := range g.Nodes {
		out[i] = c17explicitID(g, i)
		if out[i] >= 0 {
			used[out[i]] = true
		}
	}
	next := int64(0)
	for i := range g.Nodes {
		if out[i] < 0 {
			for used[next] {
				next++
			}
			out[i] = next
			used[next] = true
		}
	}
	return out
}

// c17build constructs the graph through the API.
func c17build(g c17graph) (*ir.Module, []metadata.Definition) {
	m := ir.NewModule()
	defs := make([]metadata.Definition, len(g.Nodes))
	tuples := make([]*metadata.Tuple, len(g.Nodes))
	derived := make([]*metadata.DIDerivedType, len(g.Nodes))
	for i, n := range g.Nodes {
		id := metadata.MetadataID(c17explicitID(g, i))
		switch n.Kind {
		case 4:
			defs[i] = &metadata.DIExpression{MetadataID: id, Fields: []metadata.DIExpressionField{enum.DwarfOpPlusUconst, metadata.UintLit(uint64(i))}}
		case 1:
			derived[i] = &metadata.DIDerivedType{MetadataID: id, Distinct: n.Distinct, Tag: 0x0f, Name: fmt.Sprintf("d%d", i), BaseType: metadata.Null}
			defs[i] = derived[i]
		default:
			tuples[i] = &metadata.Tuple{MetadataID: id, Distinct: n.Distinct}
			defs[i] = tuples[i]
		}
	}
	for i, n := range g.Nodes {
		switch n.Kind {
		case 0:
			tuples[i].Fields = append(tuples[i].Fields, &metadata.String{Value: fmt.Sprintf("n%d", i)})
			for _, r := range n.Refs {
				tuples[i].Fields = append(tuples[i].Fields, defs[r].(metadata.Field))
			}
		case 3:
			for _, r := range n.Refs {
				tuples[i].Fields = append(tuples[i].Fields, defs[r].(metadata.Field))
			}
		case 2:
			tuples[i].Fields = append(tuples[i].Fields, &metadata.String{Value: fmt.Sprintf("n%d", i)})
			child := &metadata.Tuple{MetadataID: -1, Fields: []metadata.Field{constant.NewInt(types.I32, int64(i))}}
			for _, r := range n.Refs {
				child.Fields = append(child.Fields, defs[r].(metadata.Field))
			}
			tuples[i].Fields = append(tuples[i].Fields, child)
		case 1:
			if len(n.Refs) > 0 {
				derived[i].BaseType = defs[n.Refs[0]].(metadata.Field)
			}
			if len(n.Refs) > 1 {
				derived[i].Scope = defs[n.Refs[1]].(metadata.Field)
			}
		}
	}
	m.MetadataDefs = append(m.MetadataDefs, defs...)
	nm := &metadata.NamedDef{Name: "all"}
	for _, d := range defs {
		nm.Nodes = append(nm.Nodes, d.(metadata.Node))
	}
	m.NamedMetadataDefs["all"] = nm
	// references from OUTSIDE the metadata sections, printed before them: attachments of a
	// global, of a function and of a terminator.
	// (a numbered !DIExpression is not attached: the first / last node of another kind is)
	zg := m.NewGlobalDef("zzg", constant.NewInt(types.I32, 0))
	zf := m.NewFunc("zzf", types.Void)
	ret := zf.NewBlock("").NewRet(nil)
	if a, b := c17attached(g); a >= 0 {
		first, last := defs[a].(metadata.MDNode), defs[b].(metadata.MDNode)
		zg.Metadata = append(zg.Metadata, &metadata.Attachment{Name: "ref", Node: first})
		zf.Metadata = append(zf.Metadata, &metadata.Attachment{Name: "ref", Node: last})
		ret.Metadata = append(ret.Metadata, &metadata.Attachment{Name: "ref", Node: first})
	}
	return m, defs
}

// c17attached gives the nodes the attachments of @zzg / @zzf / ret point to: the first and the
// last node that is not a !DIExpression (-1: none).
func c17attached(g c17graph) (first, last int) {
	first, last = -1, -1
	for i, n := range g.Nodes {
		if n.Kind != 4 {
			if first < 0 {
				first = i
			}
			last = i
		}
	}
	return
}

// c17expectedLine is the text the property prescribes for node i.
func c17expectedLine(g c17graph, ids []int64, i int) string {
	n := g.Nodes[i]
	var b strings.Builder
	fmt.Fprintf(&b, "!%d = ", ids[i])
	if n.Distinct {
		b.WriteString("distinct ")
	}
	ref := func(r int) string { return fmt.Sprintf("!%d", ids[r]) }
	switch n.Kind {
	case 4:
		fmt.Fprintf(&b, "!DIExpression(DW_OP_plus_uconst, %d)", i)
	case 0:
		fmt.Fprintf(&b, "!{!\"n%d\"", i)
		for _, r := range n.Refs {
			b.WriteString(", " + ref(r))
		}
		b.WriteString("}")
	case 3:
		b.WriteString("!{")
		for k, r := range n.Refs {
			if k > 0 {
				b.WriteString(", ")
			}
			b.WriteString(ref(r))
		}
		b.WriteString("}")
	case 2:
		fmt.Fprintf(&b, "!{!\"n%d\", !{i32 %d", i, i)
		for _, r := range n.Refs {
			b.WriteString(", " + ref(r))
		}
		b.WriteString("}}")
	case 1:
		fmt.Fprintf(&b, "!DIDerivedType(tag: DW_TAG_pointer_type, name: \"d%d\"", i)
		if len(n.Refs) > 1 {
			b.WriteString(", scope: " + ref(n.Refs[1]))
		}
		if len(n.Refs) > 0 {
			b.WriteString(", baseType: " + ref(n.Refs[0]))
		} else {
			b.WriteString(", baseType: null")
		}
		b.WriteString(")")
	}
	return b.String()
}

type c17case struct {
	Graph   *c17graph `json:"graph,omitempty"`
	Desc    string    `json:"graph_text"`
	Form    string    `json:"form"`
	Input   string    `json:"input,omitempty"`
	Printed string    `json:"printed,omitempty"`
	What    string    `json:"what"`
}

var reMDDefLine = regexp.MustCompile(`(?m)^!(\d+) = (.*)$`)

func c17sig(g c17graph) string {
	modes := map[int]bool{}
	kinds := map[int]bool{}
	cyc := false
	for i, n := range g.Nodes {
		modes[n.IDMode] = true
		kinds[n.Kind] = true
		for _, r := range n.Refs {
			if r >= i {
				cyc = true
			}
		}
	}
	var s []string
	for _, k := range []int{0, 1, 2} {
		if modes[k] {
			s = append(s, []string{"unassigned", "dense", "sparse"}[k])
		}
	}
	t := strings.Join(s, "+")
	if kinds[1] {
		t += "/DIDerivedType"
	}
	if kinds[2] {
		t += "/inline-child"
	}
	if cyc {
		t += "/forward-or-cyclic"
	}
	return t
}

// c17checkParsed verifies identity, distinctness and placement in a module parsed from text whose
// node i has ID ids[i].
func c17checkParsed(m *ir.Module, g c17graph, ids []int64, named []int) string {
	byID := map[int64]metadata.Definition{}
	for _, d := range m.MetadataDefs {
		if _, dup := byID[d.ID()]; dup {
			return fmt.Sprintf("two definitions with ID !%d in the parsed module", d.ID())
		}
		byID[d.ID()] = d
	}
	if len(m.MetadataDefs) != len(g.Nodes) {
		return fmt.Sprintf("parsed module has %d metadata definitions, expected %d (an inline node was promoted or a definition lost)", len(m.MetadataDefs), len(g.Nodes))
	}
	for i := 1; i < len(m.MetadataDefs); i++ {
		if m.MetadataDefs[i-1].ID() >= m.MetadataDefs[i].ID() {
			return "metadata definitions of the parsed module are not in ascending ID order"
		}
	}
	for i, n := range g.Nodes {
		d, ok := byID[ids[i]]
		if !ok {
			return fmt.Sprintf("definition !%d missing from the parsed module", ids[i])
		}
		var refs []metadata.Field
		distinct := false
		switch x := d.(type) {
		case *metadata.Tuple:
			distinct = x.Distinct
			if n.Kind == 1 {
				return fmt.Sprintf("!%d parsed as a tuple", ids[i])
			}
			var fs []metadata.Field
			if n.Kind == 3 {
				fs = x.Fields
			} else {
				fs = x.Fields[1:]
			}
			if n.Kind == 2 {
				child, ok := x.Fields[1].(*metadata.Tuple)
				if !ok || child.ID() != -1 {
					return fmt.Sprintf("inline child of !%d is not an inline tuple after parsing (placement changed)", ids[i])
				}
				fs = child.Fields[1:]
			}
			refs = fs
		case *metadata.DIDerivedType:
			distinct = x.Distinct
			if n.Kind != 1 {
				return fmt.Sprintf("!%d parsed as DIDerivedType", ids[i])
			}
			if len(n.Refs) > 0 {
				refs = append(refs, x.BaseType)
			}
			if len(n.Refs) > 1 {
				refs = append(refs, x.Scope)
			}
		case *metadata.DIExpression:
			distinct = x.Distinct
			if n.Kind != 4 {
				return fmt.Sprintf("!%d parsed as DIExpression", ids[i])
			}
		default:
			return fmt.Sprintf("!%d parsed as %T", ids[i], d)
		}
		if distinct != n.Distinct {
			return fmt.Sprintf("distinctness of !%d changed", ids[i])
		}
		if len(refs) != len(n.Refs) {
			return fmt.Sprintf("!%d has %d references after parsing, expected %d", ids[i], len(refs), len(n.Refs))
		}
		for j, r := range n.Refs {
			want := byID[ids[r]]
			if interface{}(refs[j]) != interface{}(want) {
				return fmt.Sprintf("reference %d of !%d is not the same object as definition !%d", j, ids[i], ids[r])
			}
		}
	}
	// named metadata refers to the definition objects, in order.
	nm, ok := m.NamedMetadataDefs["all"]
	if !ok || len(nm.Nodes) != len(named) {
		return fmt.Sprintf("named metadata !all lost or has the wrong number of operands (want %d)", len(named))
	}
	for k, i := range named {
		if interface{}(nm.Nodes[k]) != interface{}(byID[ids[i]]) {
			return fmt.Sprintf("operand %d of !all is not definition !%d (repeated definitions must be merged in textual order, repeated operands kept)", k, ids[i])
		}
	}
	return ""
}

func c17one(c *fw.Check, g c17graph, llvm bool) {
	ids := c17expectedIDs(g)
	rep := func(sig, form, what, input, printed string) {
		gg := g
		c.Violation(sig+"/"+c17sig(g), c17case{Graph: &gg, Desc: g.String(), Form: form, Input: fw.Trunc(input, 1500), Printed: fw.Trunc(printed, 1500), What: what})
	}
	// (1) API-built: IDs assigned at print time.
	m, _ := c17build(g)
	var text string
	if p := fw.Try(func() { text = m.String() }); p != "" {
		rep("api/print-panics", "api", p, "", "")
		return
	}
	lines := map[int64]string{}
	for _, mm := range reMDDefLine.FindAllStringSubmatch(text, -1) {
		var id int64
		fmt.Sscan(mm[1], &id)
		if _, dup := lines[id]; dup {
			rep("api/duplicate-id", "api", fmt.Sprintf("two printed definitions carry !%d", id), "", text)
			return
		}
		lines[id] = mm[0]
	}
	for i := range g.Nodes {
		want := c17expectedLine(g, ids, i)
		if lines[ids[i]] != want {
			rep("api/wrong-id-or-reference", "api", fmt.Sprintf("node %d should print as `%s`, got `%s`", i, want, lines[ids[i]]), "", text)
			return
		}
	}
	var wantNamed []string
	for i := range g.Nodes {
		wantNamed = append(wantNamed, fmt.Sprintf("!%d", ids[i]))
	}
	if !strings.Contains(text, "!all = !{"+strings.Join(wantNamed, ", ")+"}\n") {
		rep("api/named-metadata", "api", "named metadata does not list the nodes by their IDs", "", text)
		return
	}
	var attWant []string
	if a, b := c17attached(g); a >= 0 {
		attWant = []string{
			fmt.Sprintf("@zzg = global i32 0, !ref !%d\n", ids[a]),
			fmt.Sprintf("define void @zzf() !ref !%d {\n", ids[b]),
			fmt.Sprintf("\tret void, !ref !%d\n", ids[a]),
		}
	}
	for _, w := range attWant {
		if !strings.Contains(text, w) {
			rep("api/attachment-reference", "api", "an attachment of a global / function / terminator does not print the ID of the node it points to; expected `"+strings.TrimSpace(w)+"`", "", text)
			return
		}
	}
	// second print is identical (IDs now assigned).
	if t2 := m.String(); t2 != text {
		rep("api/print-twice-differs", "api", "printing again changes metadata numbering", text, t2)
	}
	// (2) parse the printed text.
	m2, errs, pan := parseTry(text)
	if errs != "" || pan != "" {
		rep("reparse-fails", "api", errs+pan, text, "")
		return
	}
	allNodes := make([]int, len(g.Nodes))
	for i := range allNodes {
		allNodes[i] = i
	}
	if bad := c17checkParsed(m2, g, ids, allNodes); bad != "" {
		rep("parsed/identity-or-placement", "api-text", bad, text, "")
		return
	}
	// (3) textual variants: definitions in every order, named metadata split into several
	// definitions (merged in textual order).
	var defLines []string
	for i := range g.Nodes {
		defLines = append(defLines, c17expectedLine(g, ids, i))
	}
	perm := make([]int, len(g.Nodes))
	for i := range perm {
		perm[i] = i
	}
	permute(perm, 0, func(p []int) {
		var b strings.Builder
		for _, x := range wantNamed { // one named-metadata definition per operand
			fmt.Fprintf(&b, "!all = !{%s}\n", x)
		}
		// ... and one more definition repeating the first operand.
		fmt.Fprintf(&b, "!all = !{%s}\n", wantNamed[0])
		for _, i := range p {
			b.WriteString(defLines[i] + "\n")
		}
		in := b.String()
		m3, e3, p3 := parseTry(in)
		if e3 != "" || p3 != "" {
			rep("text/parse-fails", "permuted-text", e3+p3, in, "")
			return
		}
		if bad := c17checkParsed(m3, g, ids, append(append([]int(nil), allNodes...), 0)); bad != "" {
			rep("text/identity-or-merge-order", "permuted-text", bad, in, "")
			return
		}
		var out string
		if pp := fw.Try(func() { out = m3.String() }); pp != "" {
			rep("text/print-panics", "permuted-text", pp, in, "")
			return
		}
		// printed: named metadata merged, definitions by ascending ID.
		order := append([]int(nil), perm...)
		sort.Slice(order, func(a, b int) bool { return ids[order[a]] < ids[order[b]] })
		var want strings.Builder
		fmt.Fprintf(&want, "!all = !{%s, %s}\n\n", strings.Join(wantNamed, ", "), wantNamed[0])
		for _, i := range order {
			want.WriteString(defLines[i] + "\n")
		}
		if out != want.String() {
			rep("text/printed-differs", "permuted-text", "printed module is not the prescribed text:\n"+want.String(), in, out)
		}
		c.Step(1)
	})
	// (4) LLVM on a covering subset: canonical forms of model text and API-printed text agree.
	if llvm && fw.HaveLLVM() {
		var b strings.Builder
		if a, bb := c17attached(g); a >= 0 {
			fmt.Fprintf(&b, "@zzg = global i32 0, !ref !%d\ndefine void @zzf() !ref !%d {\n  ret void, !ref !%d\n}\n", ids[a], ids[bb], ids[a])
		} else {
			b.WriteString("@zzg = global i32 0\ndefine void @zzf() {\n  ret void\n}\n")
		}
		fmt.Fprintf(&b, "!all = !{%s}\n", strings.Join(wantNamed, ", "))
		for _, l := range defLines {
			b.WriteString(l + "\n")
		}
		ref, _, ok1, _ := fw.AsDis(b.String())
		got, e2, ok2, _ := fw.AsDis(text)
		if ok1 {
			if !ok2 {
				if !fw.IsToolCrash(e2) {
					rep("llvm/rejects-printed", "api", fw.Trunc(e2, 300), "", text)
				}
			} else if a, bb := llcanon.Diff(llcanon.Canon(ref), llcanon.Canon(got)); len(a)+len(bb) > 0 {
				rep("llvm/reads-differently", "api", "LLVM reads the printed metadata differently from the model text", b.String(), text)
			}
			c.Valid(1)
		}
	}
}

func c17graphs(n int, thorough bool) []c17graph {
	// per-node alternatives.
	var alts []c17node
	var subsets [][]int
	for mask := 0; mask < 1<<n; mask++ {
		var s []int
		for i := 0; i < n; i++ {
			if mask>>i&1 == 1 {
				s = append(s, i)
			}
		}
		subsets = append(subsets, s)
	}
	for _, kind := range []int{0, 1, 2, 3, 4} {
		for _, distinct := range []bool{false, true} {
			for idm := 0; idm < 3; idm++ {
				for _, s := range subsets {
					if kind == 4 && (distinct || len(s) > 0) {
						continue // a numbered !DIExpression refers to nothing
					}
					if kind == 1 && len(s) > 2 {
						continue
					}
					if kind == 3 && !distinct {
						continue // bare tuples (`!{}` when nothing is referenced): distinct only, LLVM merges equal uniqued nodes
					}
					alts = append(alts, c17node{kind, distinct, idm, s})
				}
			}
		}
	}
	var out []c17graph
	var rec func(cur []c17node)
	rec = func(cur []c17node) {
		if len(cur) == n {
			out = append(out, c17graph{append([]c17node(nil), cur...)})
			return
		}
		for _, a := range alts {
			// a self reference is only possible for distinct nodes (uniqued nodes cannot be cyclic
			// by themselves in the API graph we print).
			self := false
			for _, r := range a.Refs {
				if r == len(cur) {
					self = true
				}
			}
			if self && !a.Distinct && a.Kind == 3 {
				continue
			}
			_ = self // uniqued self references (`!0 = !{!0}`, the old-style loop ID) are valid text and are included
			if !thorough && n >= 3 {
				// n=3 quick: restrict kinds of later nodes to tuples (first node varies over all kinds).
				if len(cur) > 0 && a.Kind != 0 && a.Kind != 4 {
					continue
				}
			}
			rec(append(cur, a))
		}
	}
	rec(nil)
	return out
}

func runC17(c *fw.Check) {
	maxN := 3
	if !c.Quick() {
		c.SetBudget(45 * 60 * 1e9)
	}
	c.Rule = "ALL metadata graphs of <=3 numbered nodes: each node a tuple, a numbered !DIExpression, a tuple with an inline child, a bare distinct tuple (`distinct !{}` when it refers to nothing) or a DIDerivedType, plain or distinct, with unassigned (-1), dense explicit or sparse explicit ID, referencing EVERY subset of the nodes (forward references, cycles, self references through distinct nodes), all listed in a named metadata node; (quick restricts the 2nd/3rd node of 3-node graphs to tuples). Each graph is built through the API and printed (IDs unique, explicit kept, unassigned = smallest unused in module order, every reference printed as its target's ID, against text built from a reference model), re-parsed (reference and definition are the same object, distinctness and inline-vs-numbered placement preserved), written as text in EVERY definition order with the named metadata split into one definition per operand (merged in textual order, printed in ascending ID order), and on a covering subset compared through llvm-as|llvm-dis. PLUS every reference POSITION (attachments of globals, declarations, definitions, instructions, terminators; metadata call arguments; named metadata; tuple fields; inline tuples in attachments; DI fields): all 2^10 assignments of the positions to two nodes x ID sets x distinctness x definitions before/after uses, each text parsed twice and once more with the two definitions exchanged in the same process: every reference must be the object in Module.MetadataDefs. PLUS the metadata productions of the generator catalogue (all 28 specialised kinds x field subsets x distinct x numbered/inline placement): unique IDs, no dangling printed reference, nodes without definition have no ID, inline placement preserved. distinct = graphs + reference-position modules (x text permutations as transitions)."
	var total int
	for n := 1; n <= maxN; n++ {
		gs := c17graphs(n, !c.Quick())
		total += len(gs)
		c.Extra[fmt.Sprintf("graphs_%d_nodes", n)] = len(gs)
		fw.ParallelFor(len(gs), func(i int) {
			if c.OverBudget() {
				return
			}
			c17one(c, gs[i], i%97 == 0)
		})
		c.DistinctN(int64(len(gs)))
		if n == 2 && len(gs) > 100 {
			g := gs[len(gs)/2]
			m, _ := c17build(g)
			c.Sample(map[string]interface{}{"graph": g.String(), "printed": m.String()})
		}
	}
	c.Extra["graphs"] = total
	c17refs(c)
	c17generated(c)
	c17names(c)
	c17replace(c)
}

func replayC17(c *fw.Check, path string) {
	var cs c17case
	loadReplay(path, &cs)
	var any map[string]interface{}
	loadReplay(path, &any)
	if _, ok := any["entry"]; ok {
		fmt.Printf("replay generated metadata case %v %v:\n%v\n", any["entry"], any["deviations"], any["input"])
		c17generated(c) // the whole (cheap) part; the failing variant is among them
	}
	if _, ok := any["position_refers_to"]; ok {
		c17refs(c)
	}
	if cs.Graph != nil {
		fmt.Printf("replay graph: %s\n", cs.Graph.String())
		m, _ := c17build(*cs.Graph)
		fw.Try(func() { fmt.Println(m.String()) })
		c17one(c, *cs.Graph, true)
	}
	c.Case("a", "a")
	c.Case("b", "b")
}
