package props

import (
	"fmt"
	"regexp"
	"sort"
	"strings"
	"sync"

	"verif/fw"
	"verif/gen"
)

func init() { Registry["C05"] = Prop{Run: runC05, Replay: replayC05} }

var c05tok = regexp.MustCompile(`[@%$][-a-zA-Z$._][-a-zA-Z$._0-9]*|[@%][0-9]+|[@%$]"[^"]*"|![0-9]+|![a-zA-Z_.][-a-zA-Z$._0-9]*`)

type c05site struct {
	kind  string // global local-or-type comdat metadata-id
	tok   string
	start int
	end   int
	def   bool
}

// c05sites tokenises a module text into definition and use sites.
func c05sites(text string) []c05site {
	var out []c05site
	off := 0
	for _, line := range strings.SplitAfter(text, "\n") {
		trim := strings.TrimLeft(line, " \t")
		lead := len(line) - len(trim)
		locs := c05tok.FindAllStringIndex(line, -1)
		// strip matches inside string literals.
		inq := make([]bool, len(line)+1)
		q := false
		for i := 0; i < len(line); i++ {
			if line[i] == '"' {
				q = !q
			}
			inq[i] = q
		}
		isHeader := strings.HasPrefix(trim, "define") || strings.HasPrefix(trim, "declare")
		seenAt := false
		for li, loc := range locs {
			tok := line[loc[0]:loc[1]]
			if inq[loc[0]] && !strings.Contains(tok, `"`) {
				continue
			}
			s := c05site{tok: tok, start: off + loc[0], end: off + loc[1]}
			switch tok[0] {
			case '@':
				s.kind = "global"
			case '%':
				s.kind = "local-or-type"
			case '$':
				s.kind = "comdat"
			case '!':
				if tok[1] >= '0' && tok[1] <= '9' {
					s.kind = "metadata-id"
				} else {
					continue // metadata names (!foo, !DIFile, !llvm.dbg.cu): attachment kinds / node kinds
				}
			}
			rest := strings.TrimLeft(line[loc[1]:], " \t")
			// definitions.
			if li == 0 && loc[0] == lead && strings.HasPrefix(rest, "=") && !strings.HasPrefix(rest, "==") {
				s.def = true
			}
			if isHeader {
				if tok[0] == '@' && !seenAt && strings.HasPrefix(rest, "(") {
					s.def, seenAt = true, true
				} else if tok[0] == '%' && seenAt && loc[0] > 0 && line[loc[0]-1] == ' ' && (strings.HasPrefix(rest, ",") || strings.HasPrefix(rest, ")")) && !strings.Contains(line[:loc[0]], ") ") {
					s.def = true // parameter name
				}
			}
			out = append(out, s)
		}
		// label definition.
		if m := regexp.MustCompile(`^([-a-zA-Z$._0-9]+|"[^"]*"):\s*$`).FindStringSubmatch(strings.TrimRight(line, "\n")); m != nil {
			out = append(out, c05site{kind: "label", tok: "%" + m[1], start: off, end: off + len(m[1]) + 1, def: true})
		}
		off += len(line)
	}
	return out
}

type c05fault struct {
	v     gen.Variant
	kind  string // undefined / duplicate
	site  string
	token string
	text  string
}

var c05fresh = map[byte]string{'@': "@zz_undefined", '%': "%zz_undefined", '$': "$zz_undefined", '!': "!4111222333"}

// c05nearMaxDevs: near-miss names are tried on bases with at most this many deviations.
var c05nearMaxDevs = 1

// c05nearMisses returns look-alikes of a plain (unquoted, non-numeric) identifier token.
func c05nearMisses(tok string) []string {
	if len(tok) < 2 {
		return nil
	}
	sig, body := tok[:1], tok[1:]
	allDigits := true
	for i := 0; i < len(body); i++ {
		c := body[i]
		if !(c >= 'a' && c <= 'z' || c >= 'A' && c <= 'Z' || c >= '0' && c <= '9' || c == '.' || c == '_' || c == '$' || c == '-') {
			return nil // quoted or escaped spellings: left alone
		}
		if c < '0' || c > '9' {
			allDigits = false
		}
	}
	if allDigits {
		return nil
	}
	out := []string{sig + "$" + body, sig + "." + body, sig + body + ".", sig + body + "$", sig + "\"" + body + " \"", sig + "\" " + body + "\""}
	sw := []byte(body)
	for i, c := range sw {
		if c >= 'a' && c <= 'z' {
			sw[i] = c - 32
			break
		} else if c >= 'A' && c <= 'Z' {
			sw[i] = c + 32
			break
		}
	}
	if string(sw) != body {
		out = append(out, sig+string(sw))
	}
	if len(body) > 1 {
		out = append(out, sig+body[:len(body)-1])
	}
	return out
}

// c05faults derives all single naming faults of a base module.
func c05faults(v gen.Variant) []c05fault {
	text := gen.Module([]gen.Variant{v})
	sites := c05sites(text)
	defined := map[string]bool{}
	for _, s := range sites {
		if s.def {
			defined[s.tok] = true
		}
	}
	hasUnnamedGlobal := false
	for t := range defined {
		if len(t) > 1 && t[0] == '@' && t[1] >= '0' && t[1] <= '9' {
			hasUnnamedGlobal = true
		}
	}
	var out []c05fault
	for _, s := range sites {
		if s.def {
			continue
		}
		if !defined[s.tok] {
			continue // %0-style implicit names, intrinsic-free externals: not a tagged reference
		}
		out = append(out, c05fault{v: v, kind: "undefined", site: s.kind, token: s.tok, text: text[:s.start] + c05fresh[s.tok[0]] + text[s.end:]})
		// near misses: undefined names that a sloppy lookup (trimmed sigils, trimmed dots or spaces,
		// case folding, prefix matching) would conflate with the defined one.
		if len(v.Devs) <= c05nearMaxDevs {
			for _, nt := range c05nearMisses(s.tok) {
				if !defined[nt] {
					out = append(out, c05fault{v: v, kind: "undefined", site: s.kind + "-near-miss", token: s.tok + "->" + nt, text: text[:s.start] + nt + text[s.end:]})
				}
			}
		}
		// in modules with unnamed globals also every small NUMBER that names no global (the
		// numbers of other definition kinds -- !3, #5 -- must not make @3 or @5 resolvable).
		if s.tok[0] == '@' && hasUnnamedGlobal {
			for k := 0; k < 9; k++ {
				nt := fmt.Sprintf("@%d", k)
				if !defined[nt] {
					out = append(out, c05fault{v: v, kind: "undefined", site: s.kind + "-number", token: s.tok + "->" + nt, text: text[:s.start] + nt + text[s.end:]})
				}
			}
		}
	}
	// scope faults: a local use redirected to a name that exists only in ANOTHER function, and
	// cross-kind duplicates (a block named like a value, a value named like a block).
	type fn struct {
		name       string
		start, end int               // byte range of the definition
		bodyStart  int               // offset just after the header line (and entry label, if any)
		locals     map[string]string // token -> kind (label / value)
	}
	var fns []*fn
	{
		off := 0
		var cur *fn
		for _, line := range strings.SplitAfter(text, "\n") {
			tl := strings.TrimSpace(line)
			if strings.HasPrefix(tl, "define") && strings.HasSuffix(tl, "{") {
				nm := ""
				for _, st := range sites {
					if st.def && st.kind == "global" && st.start >= off && st.end <= off+len(line) {
						nm = st.tok
					}
				}
				cur = &fn{name: nm, start: off, bodyStart: off + len(line), locals: map[string]string{}}
			} else if cur != nil && tl == "}" {
				cur.end = off
				fns = append(fns, cur)
				cur = nil
			}
			off += len(line)
		}
		for _, f := range fns {
			for _, st := range sites {
				if st.def && st.start >= f.start && st.start < f.end {
					if st.kind == "label" {
						f.locals[st.tok] = "label"
						if st.start == f.bodyStart {
							f.bodyStart = st.end + 1
						}
					} else if st.kind == "local-or-type" {
						f.locals[st.tok] = "value"
					}
				}
			}
		}
	}
	inFn := func(pos int) *fn {
		for _, f := range fns {
			if pos >= f.start && pos < f.end {
				return f
			}
		}
		return nil
	}
	for _, st := range sites {
		if st.def || st.kind != "local-or-type" {
			continue
		}
		home := inFn(st.start)
		// blockaddress(@F, %L) names its function explicitly.
		if i := strings.LastIndex(text[:st.start], "blockaddress("); i >= 0 && !strings.Contains(text[i:st.start], ")") {
			fnTok := c05tok.FindString(text[i:st.start])
			for _, f := range fns {
				if f.name == fnTok {
					home = f
				}
			}
		}
		if home == nil || home.locals[st.tok] == "" {
			continue
		}
		for _, g := range fns {
			if g == home {
				continue
			}
			done := false
			var names []string
			for n := range g.locals {
				names = append(names, n)
			}
			sort.Strings(names)
			for _, n := range names {
				if home.locals[n] == "" && g.locals[n] == home.locals[st.tok] {
					out = append(out, c05fault{v: v, kind: "foreign-scope", site: home.locals[st.tok], token: st.tok + "->" + n, text: text[:st.start] + n + text[st.end:]})
					done = true
					break
				}
			}
			if done {
				break
			}
		}
	}
	// twin functions: a copy of a whole function under another name, placed right after it, in which
	// ONE parameter is renamed in the header only: the body of the twin then refers to a local that
	// is defined in the original function but not in the twin -- with byte-identical use sites (a
	// cache keyed by source text or by name across functions resolves it all the same).
	for _, f := range fns {
		if len(f.name) < 2 || f.name[0] != '@' || strings.ContainsAny(f.name, "\"\\") || (f.name[1] >= '0' && f.name[1] <= '9') {
			continue
		}
		end := f.end + 2
		if end > len(text) || text[f.end:end] != "}\n" {
			continue
		}
		ft := text[f.start:end]
		hdrEnd := strings.Index(ft, "\n")
		if hdrEnd < 0 {
			continue
		}
		hdr, body := ft[:hdrEnd], ft[hdrEnd:]
		if strings.Count(hdr, f.name+"(") != 1 || strings.Contains(body, f.name) {
			continue // (self references keep pointing at the original: leave such functions alone)
		}
		var ps []string
		for n, k := range f.locals {
			if k == "value" && len(n) > 1 && !(n[1] >= '0' && n[1] <= '9') && !strings.ContainsAny(n, "\"\\") {
				ps = append(ps, n)
			}
		}
		sort.Strings(ps)
		for _, pn := range ps {
			re := regexp.MustCompile(regexp.QuoteMeta(pn) + `([^-a-zA-Z$._0-9]|$)`)
			if len(re.FindAllString(hdr, -1)) != 1 || !re.MatchString(body) {
				continue // not a parameter of this header, or never used in the body
			}
			if defLine := regexp.MustCompile(`(?m)^\s*` + regexp.QuoteMeta(pn) + ` = `); defLine.MatchString(body) {
				continue
			}
			nh := re.ReplaceAllString(hdr, pn+"_gone$1")
			nh = strings.Replace(nh, f.name+"(", f.name+"_twin(", 1)
			out = append(out, c05fault{v: v, kind: "undefined", site: "twin-function-local", token: pn, text: text[:end] + nh + body + text[end:]})
		}
	}
	for _, f := range fns {
		var names []string
		for n := range f.locals {
			names = append(names, n)
		}
		sort.Strings(names)
		for _, n := range names {
			if f.locals[n] == "value" {
				// a new block named like an existing value.
				out = append(out, c05fault{v: v, kind: "duplicate", site: "label-vs-value", token: n, text: text[:f.end] + strings.TrimPrefix(n, "%") + ":\n  unreachable\n" + text[f.end:]})
			} else {
				// a new instruction named like an existing label.
				out = append(out, c05fault{v: v, kind: "duplicate", site: "value-vs-label", token: n, text: text[:f.bodyStart] + "  " + n + " = add i32 0, 0\n" + text[f.bodyStart:]})
			}
		}
	}
	// duplicated definitions: repeat each own top-level entity, and each defining line of a body.
	own := append(append([]string(nil), v.Frag.Top...), v.Frag.Tail...)
	for _, ent := range own {
		first := strings.SplitN(ent, "\n", 2)[0]
		if strings.HasPrefix(first, "attributes #") || strings.HasPrefix(first, "uselistorder") {
			continue // repeating an attribute group is legal (merged)
		}
		if strings.HasPrefix(first, "!") && !(len(first) > 1 && first[1] >= '0' && first[1] <= '9') {
			continue // repeating named metadata is legal (merged)
		}
		i := strings.Index(text, ent+"\n")
		if i < 0 {
			continue
		}
		dup := text[:i] + ent + "\n" + ent + "\n" + text[i+len(ent)+1:]
		tk := c05tok.FindString(first)
		kind := "top-level"
		if strings.HasPrefix(first, "define") {
			kind = "function"
		}
		out = append(out, c05fault{v: v, kind: "duplicate", site: kind, token: tk, text: dup})
	}
	for _, s := range sites {
		if !s.def || (s.kind != "local-or-type" && s.kind != "label") {
			continue
		}
		ls := strings.LastIndex(text[:s.start], "\n") + 1
		le := strings.Index(text[s.start:], "\n")
		if le < 0 {
			continue
		}
		le += s.start
		line := text[ls:le]
		tl := strings.TrimLeft(line, " \t")
		if s.kind == "label" {
			out = append(out, c05fault{v: v, kind: "duplicate", site: "label", token: s.tok, text: text[:le+1] + "  br label " + s.tok + "\n" + line + "\n" + text[le+1:]})
		} else if strings.HasPrefix(tl, "%") && line != tl {
			// instruction defining a local: repeat the line.
			out = append(out, c05fault{v: v, kind: "duplicate", site: "local", token: s.tok, text: text[:le+1] + line + "\n" + text[le+1:]})
		}
	}
	return out
}

// c05entities splits a module text into its top-level entities (byte ranges): a function
// definition extends to its closing brace, every other entity is one line.
func c05entities(text string) [][2]int {
	var out [][2]int
	off, start := 0, -1
	for _, line := range strings.SplitAfter(text, "\n") {
		switch {
		case start >= 0:
			if strings.HasPrefix(line, "}") {
				out = append(out, [2]int{start, off + len(line)})
				start = -1
			}
		case strings.HasPrefix(line, "define") && strings.HasSuffix(strings.TrimSpace(line), "{"):
			start = off
		case strings.TrimSpace(line) != "" && line[0] != ' ' && line[0] != '\t' && line[0] != ';':
			out = append(out, [2]int{off, off + len(line)})
		}
		off += len(line)
	}
	return out
}

// c05removed derives the "definition removed" faults of a base module: every top-level entity that
// defines a name which is used outside of it is deleted (its uses stay). These faults are executed
// right AFTER the unmodified base module has been parsed in the same goroutine, one at a time: a
// definition remembered from the earlier parse (a recycled translator, an index that is not
// emptied, a process-wide cache keyed by name) must not make the reference resolvable.
func c05removed(v gen.Variant) []c05fault {
	text := gen.Module([]gen.Variant{v})
	sites := c05sites(text)
	var out []c05fault
	for _, e := range c05entities(text) {
		var def *c05site
		for i := range sites {
			s := &sites[i]
			if s.def && s.kind != "label" && s.start >= e[0] && s.end <= e[1] {
				// the entity's own name is its first definition site (parameters come later).
				def = s
				break
			}
		}
		if def == nil {
			continue
		}
		if def.kind == "local-or-type" && !strings.HasPrefix(text[e[0]:], "%") {
			continue // a parameter of a declaration
		}
		if len(def.tok) > 1 && def.tok[1] >= '0' && def.tok[1] <= '9' && def.kind != "metadata-id" {
			continue // removing a NUMBERED entity misnumbers the rest: not an "otherwise valid" input (C08's subject)
		}
		used := false
		for _, s := range sites {
			if !s.def && s.tok == def.tok && (s.start < e[0] || s.start >= e[1]) {
				used = true
			}
		}
		if !used {
			continue
		}
		out = append(out, c05fault{v: v, kind: "removed-after-defined", site: def.kind, token: def.tok, text: text[:e[0]] + text[e[1]:]})
	}
	return out
}

type c05case struct {
	Entry  string   `json:"entry"`
	Devs   []string `json:"deviations"`
	Fault  string   `json:"fault"`
	Site   string   `json:"site_kind"`
	Token  string   `json:"token"`
	Text   string   `json:"faulted_text"`
	Base   string   `json:"base_text_parsed_first,omitempty"`
	What   string   `json:"what"`
	Detail string   `json:"detail,omitempty"`
}

func runC05(c *fw.Check) {
	c.Level = "fault_enumeration"
	bound := 2
	if !c.Quick() {
		bound = 3
		c.SetBudget(45 * 60 * 1e9)
	}
	entries := gen.Catalogue()
	var bases []gen.Variant
	for i, e := range entries {
		bases = append(bases, gen.Variants(e, i, bound)...)
	}
	c.Rule = fmt.Sprintf("base modules = all variants with <=%d deviations of the %d-production generator catalogue (every kind of reference site occurs: operands, callees, branch targets, phi predecessors, type uses, comdat uses, metadata uses in attachments/tuples/DI fields/named metadata, blockaddress function and block, use-list orders); EVERY tagged use site is redirected to a fresh undefined name and EVERY definition (top-level entity, function, instruction result, label) is duplicated, one fault at a time; oracle: asm.ParseString returns an error and no module and does not panic; a fault the library accepts or crashes on is checked with llvm-as and counts only if LLVM rejects it (binding the fault model); every 16th fault is sent to llvm-as regardless. PLUS misnumbered locals: every explicitly numbered function shape with <=2 parameters, <=2 blocks, <=1 instruction per block (incl. value-producing invoke/callbr terminators), every written number replaced by every other number in 0..max+1. PLUS, sequentially in one goroutine, for every base with <=1 deviations: parse the unmodified base, then the base with ONE top-level definition that is used elsewhere removed (state remembered from the earlier parse must not resolve the name). Undefined attribute-group IDs are the documented exception and are not faulted. distinct = (base module, fault).", bound, len(entries))
	c.Extra["base_modules"] = len(bases)
	var mu sync.Mutex
	type vrec struct {
		sig string
		cs  c05case
		nd  int
	}
	var viols []vrec
	nfaults, benign, sampled, sampledOK := 0, 0, 0, 0
	if !c.Quick() {
		c05nearMaxDevs = 2
	}
	fw.ParallelFor(len(bases), func(bi int) {
		if c.OverBudget() {
			return
		}
		v := bases[bi]
		// the base itself must be valid (else it is not "otherwise valid"): accepted by the
		// library, or -- when the library rejects it, which is C01's business -- by LLVM.
		if _, errs, pan := parseTry(gen.Module([]gen.Variant{v})); errs != "" || pan != "" {
			if v.NoLLVM || !fw.HaveLLVM() {
				return
			}
			if ok, _ := fw.LLVMAccepts(gen.Module([]gen.Variant{v})); !ok {
				return
			}
		}
		fl := c05faults(v)
		for fi, f := range fl {
			// The translator iterates over Go maps: a change that makes the verdict depend on
			// that order is only visible in some runs, so every fault is parsed up to 10 times and any
			// acceptance or panic counts (C12 explores the orders systematically).
			m, errs, pan := parseTry(f.text)
			for rep := 0; rep < 9 && m == nil && errs != "" && pan == ""; rep++ {
				m, errs, pan = parseTry(f.text)
			}
			ok := m == nil && errs != "" && pan == ""
			what := ""
			switch {
			case pan != "":
				what = "panic"
			case errs == "":
				what = "accepted"
			case m != nil:
				what = "module-and-error"
			}
			mu.Lock()
			nfaults++
			doSample := (nfaults%16 == 0) && fw.HaveLLVM()
			mu.Unlock()
			if ok && !doSample {
				continue
			}
			if !fw.HaveLLVM() {
				continue
			}
			lok, lmsg := fw.LLVMAccepts(f.text)
			mu.Lock()
			if doSample {
				sampled++
				if !lok {
					sampledOK++
				}
			}
			mu.Unlock()
			if ok {
				continue
			}
			if lok || (f.site == "twin-function-local" && !strings.Contains(lmsg, "undefined value")) {
				mu.Lock()
				benign++ // LLVM accepts the "faulted" text (or rejects a twin for another reason): not a naming fault
				mu.Unlock()
				continue
			}
			detail := errs
			if pan != "" {
				detail = pan
			}
			sig := fmt.Sprintf("%s-%s/%s/%s", what, f.kind, f.site, v.Entry)
			if pan != "" {
				sig = fmt.Sprintf("%s-%s/%s@%s", what, f.kind, f.site, fw.PanicSiteOf(pan))
			}
			mu.Lock()
			viols = append(viols, vrec{sig, c05case{Entry: v.Entry, Devs: v.Devs, Fault: f.kind, Site: f.site, Token: f.token, Text: fw.Trunc(f.text, 2500), What: what + " (LLVM: " + fw.Trunc(strings.TrimSpace(lmsg), 160) + ")", Detail: fw.Trunc(detail, 800)}, len(v.Devs)})
			mu.Unlock()
			_ = fi
		}
		c.DistinctN(int64(len(fl)))
		c.Valid(int64(len(fl)))
	})
	// Sequential phase: [parse(base); parse(base minus one definition)] in ONE goroutine, nothing
	// else running, for every base with <=1 deviations.
	nremoved := 0
	for _, v := range bases {
		if len(v.Devs) > 1 || c.OverBudget() {
			continue
		}
		fl := c05removed(v)
		if len(fl) == 0 {
			continue
		}
		base := gen.Module([]gen.Variant{v})
		for _, f := range fl {
			if _, errs, pan := parseTry(base); errs != "" || pan != "" {
				break
			}
			m, errs, pan := parseTry(f.text)
			nremoved++
			nfaults++
			if m == nil && errs != "" && pan == "" {
				continue
			}
			if !fw.HaveLLVM() {
				continue
			}
			lok, lmsg := fw.LLVMAccepts(f.text)
			if lok {
				benign++
				continue
			}
			what := "accepted"
			if pan != "" {
				what = "panic"
			} else if errs != "" {
				what = "module-and-error"
			}
			sig := fmt.Sprintf("%s-%s/%s/%s", what, f.kind, f.site, v.Entry)
			viols = append(viols, vrec{sig, c05case{Entry: v.Entry, Devs: v.Devs, Fault: f.kind, Site: f.site, Token: f.token, Text: fw.Trunc(f.text, 2500), Base: base, What: what + " right after the unmodified module had been parsed in the same process (LLVM: " + fw.Trunc(strings.TrimSpace(lmsg), 160) + ")", Detail: fw.Trunc(errs+pan, 800)}, len(v.Devs)})
		}
		c.DistinctN(int64(len(fl)))
		c.Valid(int64(len(fl)))
	}
	c.Extra["faults_definition_removed_after_base_parse"] = nremoved
	sort.SliceStable(viols, func(i, j int) bool {
		if viols[i].nd != viols[j].nd {
			return viols[i].nd < viols[j].nd
		}
		return viols[i].sig < viols[j].sig
	})
	for _, v := range viols {
		c.Violation(v.sig, v.cs)
	}
	c05misnumbered(c)
	c.Extra["faults"] = nfaults
	c.Extra["faults_llvm_accepts_skipped"] = benign
	c.Extra["faults_sampled_through_llvm"] = sampled
	c.Extra["sampled_faults_llvm_rejects"] = sampledOK
	if len(bases) > 10 {
		fl := c05faults(bases[len(bases)/2])
		if len(fl) > 0 {
			c.Sample(map[string]interface{}{"entry": fl[0].v.Entry, "fault": fl[0].kind, "site": fl[0].site, "token": fl[0].token, "text": fl[0].text})
			c.Sample(map[string]interface{}{"entry": fl[len(fl)-1].v.Entry, "fault": fl[len(fl)-1].kind, "site": fl[len(fl)-1].site, "token": fl[len(fl)-1].token, "text": fl[len(fl)-1].text})
		}
	}
}

func replayC05(c *fw.Check, path string) {
	var cs c05case
	loadReplay(path, &cs)
	if cs.Base != "" {
		parseTry(cs.Base)
	}
	m, errs, pan := parseTry(cs.Text)
	fmt.Printf("replay faulted text:\n%s\nmodule=%v err=%q panic=%q\n", cs.Text, m != nil, fw.Trunc(errs, 300), pan)
	if m != nil || errs == "" || pan != "" {
		c.Violation("replay/"+cs.Fault+"/"+cs.Site, cs)
	}
	c.Case("a", "a")
	c.Case("b", "b")
}
