package props

import (
	"fmt"
	"reflect"
	"regexp"
	"strings"

	"github.com/llir/llvm/ir"
	"github.com/llir/llvm/ir/metadata"

	"verif/fw"
	"verif/gen"
)

// c17refs: every POSITION from which a numbered metadata node can be referenced. Two nodes !A and
// !B are defined (IDs, distinctness and textual position of the definitions vary); each of the
// positions refers to !A or to !B (all assignments). The module is parsed twice in a row and then
// once more with the contents of the two definitions exchanged (same reference texts, other
// definitions: state kept from an earlier parse shows), and on every parsed module each reference
// must be the very object listed in Module.MetadataDefs under that ID.

var c17refPositions = []string{"global-attachment", "declaration-attachment", "definition-attachment", "instruction-attachment", "call-argument", "terminator-attachment", "named-metadata", "tuple-field", "inline-tuple-in-attachment", "DI-field"}

type c17refCase struct {
	Assign    []int   `json:"position_refers_to"` // per position: 0 = !A, 1 = !B
	IDs       [2]int  `json:"ids"`
	Distinct  [2]bool `json:"distinct"`
	DefsFirst bool    `json:"definitions_first"`
	Spell     int     `json:"number_spelling,omitempty"`
	Parse     string  `json:"parse"`
	Position  string  `json:"position,omitempty"`
	Input     string  `json:"input"`
	What      string  `json:"what"`
}

// c17spell: how the numbers are written. 0 = plain decimal; 1 = one leading zero everywhere
// (`!010` is node 10 for LLVM, never octal); 2 = leading zero in references only; 3 = two leading
// zeros in definitions only.
func c17refText(assign []int, ids [2]int, distinct [2]bool, defsFirst bool, swap bool, spell ...int) string {
	sp := 0
	if len(spell) > 0 {
		sp = spell[0]
	}
	rz, dz := "", ""
	switch sp {
	case 1:
		rz, dz = "0", "0"
	case 2:
		rz = "0"
	case 3:
		dz = "00"
	}
	r := func(p int) string { return fmt.Sprintf("!%s%d", rz, ids[assign[p]]) }
	var defs, body strings.Builder
	for k := 0; k < 2; k++ {
		d := ""
		if distinct[k] {
			d = "distinct "
		}
		content := k
		if swap {
			content = 1 - k
		}
		fmt.Fprintf(&defs, "!%s%d = %s!{!\"r%d\"}\n", dz, ids[k], d, 100+content)
	}
	tid, did := 50, 51
	fmt.Fprintf(&body, "@g = global i32 0, !foo %s\n", r(0))
	fmt.Fprintf(&body, "declare !foo %s void @d()\n", r(1))
	fmt.Fprintf(&body, "declare i32 @llvm.read_register.i32(metadata)\n")
	fmt.Fprintf(&body, "define void @f() !foo %s {\n", r(2))
	fmt.Fprintf(&body, "  %%x = add i32 0, 0, !foo %s\n", r(3))
	fmt.Fprintf(&body, "  %%r = call i32 @llvm.read_register.i32(metadata %s)\n", r(4))
	fmt.Fprintf(&body, "  %%y = add i32 0, 0, !bar !{%s}\n", r(8))
	fmt.Fprintf(&body, "  ret void, !foo %s\n}\n", r(5))
	fmt.Fprintf(&body, "!nm = !{%s}\n", r(6))
	fmt.Fprintf(&body, "!%d = !{%s}\n", tid, r(7))
	fmt.Fprintf(&body, "!%d = !DIDerivedType(tag: DW_TAG_member, baseType: %s)\n", did, r(9))
	if defsFirst {
		return defs.String() + body.String()
	}
	return body.String() + defs.String()
}

// c17refObjs returns, per position, the object the parsed module holds there.
func c17refObjs(m *ir.Module) (objs []interface{}, err string) {
	p := fw.Try(func() {
		var f, d *ir.Func
		for _, fn := range m.Funcs {
			switch fn.GlobalName {
			case "f":
				f = fn
			case "d":
				d = fn
			}
		}
		att := func(mds []*metadata.Attachment, name string) interface{} {
			for _, a := range mds {
				if a.Name == name {
					return a.Node
				}
			}
			return nil
		}
		b := f.Blocks[0]
		objs = append(objs, att(m.Globals[0].Metadata, "foo"))
		objs = append(objs, att(d.Metadata, "foo"))
		objs = append(objs, att(f.Metadata, "foo"))
		objs = append(objs, att(b.Insts[0].(*ir.InstAdd).Metadata, "foo"))
		var arg interface{} = b.Insts[1].(*ir.InstCall).Args[0]
		if v, ok := arg.(*metadata.Value); ok {
			arg = v.Value
		}
		objs = append(objs, arg)
		objs = append(objs, att(b.Term.(*ir.TermRet).Metadata, "foo"))
		objs = append(objs, interface{}(m.NamedMetadataDefs["nm"].Nodes[0]))
		var tup, di interface{}
		for _, def := range m.MetadataDefs {
			switch def.ID() {
			case 50:
				tup = def.(*metadata.Tuple).Fields[0]
			case 51:
				di = def.(*metadata.DIDerivedType).BaseType
			}
		}
		objs = append(objs, tup)
		inl := att(b.Insts[2].(*ir.InstAdd).Metadata, "bar")
		objs = append(objs, interface{}(inl.(*metadata.Tuple).Fields[0]))
		objs = append(objs, di)
	})
	return objs, p
}

func c17refs(c *fw.Check) {
	np := len(c17refPositions)
	idSets := [][2]int{{0, 1}, {1, 0}, {3, 7}}
	var cases int64
	type job struct {
		assign    []int
		ids       [2]int
		distinct  [2]bool
		defsFirst bool
		spell     int
	}
	var jobs []job
	for mask := 0; mask < 1<<np; mask++ {
		assign := make([]int, np)
		for p := range assign {
			assign[p] = mask >> p & 1
		}
		for _, ids := range idSets {
			for dm := 0; dm < 4; dm++ {
				for _, df := range []bool{true, false} {
					if c.Quick() && (mask%3 != 0 && dm != 1) {
						// quick: all assignments with one distinctness pattern, a third with all.
						continue
					}
					jobs = append(jobs, job{assign, ids, [2]bool{dm&1 == 1, dm&2 == 2}, df, 0})
				}
			}
		}
		// numbers written with leading zeros (IDs whose octal reading is another ID of the module,
		// and IDs that are no octal numbers at all)
		for _, ids := range [][2]int{{8, 10}, {9, 11}} {
			for _, df := range []bool{true, false} {
				for spell := 1; spell <= 3; spell++ {
					if c.Quick() && mask%2 != 0 && spell != 1 {
						continue
					}
					jobs = append(jobs, job{assign, ids, [2]bool{false, true}, df, spell})
				}
			}
		}
	}
	fw.ParallelFor(len(jobs), func(i int) {
		j := jobs[i]
		for pi, parse := range []string{"first", "same text again", "same references, definitions exchanged"} {
			text := c17refText(j.assign, j.ids, j.distinct, j.defsFirst, pi == 2, j.spell)
			cs := c17refCase{Spell: j.spell, Assign: j.assign, IDs: j.ids, Distinct: j.distinct, DefsFirst: j.defsFirst, Parse: parse, Input: text}
			m, errs, pan := parseTry(text)
			if errs != "" || pan != "" {
				cs.What = "the parser does not accept the module: " + fw.Trunc(errs+pan, 300)
				c.Violation("refs/rejected", cs)
				return
			}
			objs, p := c17refObjs(m)
			if p != "" {
				cs.What = "unexpected shape of the parsed module: " + fw.Trunc(p, 300)
				c.Violation("refs/shape", cs)
				return
			}
			defs := map[int64]metadata.Definition{}
			for _, d := range m.MetadataDefs {
				defs[d.ID()] = d
			}
			for p, o := range objs {
				want := defs[int64(j.ids[j.assign[p]])]
				if o != interface{}(want) {
					cs.Position = c17refPositions[p]
					cs.What = fmt.Sprintf("the reference at %s is %T %p, not the definition object %T %p of !%d", cs.Position, o, o, want, want, j.ids[j.assign[p]])
					c.Violation("refs/not-the-definition/"+cs.Position+"/"+strings.Fields(parse)[0], cs)
				}
			}
			// contents and distinctness of the definitions of THIS text.
			for k := 0; k < 2; k++ {
				content := k
				if pi == 2 {
					content = 1 - k
				}
				t, ok := defs[int64(j.ids[k])].(*metadata.Tuple)
				if !ok || t.Distinct != j.distinct[k] || len(t.Fields) != 1 || fmt.Sprint(t.Fields[0]) != fmt.Sprintf("!\"r%d\"", 100+content) {
					cs.What = fmt.Sprintf("definition !%d does not have the content/distinctness of this text", j.ids[k])
					c.Violation("refs/definition-content/"+strings.Fields(parse)[0], cs)
				}
			}
		}
	})
	cases = int64(len(jobs)) * 3
	c.DistinctN(cases)
	c.Valid(cases)
	c.Extra["reference_position_modules"] = cases
	c.Extra["reference_positions"] = np
	for spell := 0; spell <= 3; spell++ {
		if ok, e := fw.LLVMAccepts(c17refText(make([]int, np), [2]int{8, 10}, [2]bool{false, true}, false, false, spell)); !ok && fw.HaveLLVM() {
			fw.Fatalf("C17 reference-position module (number spelling %d) is not valid LLVM: %s", spell, e)
		}
	}
}

// ---- part C: every specialised node kind, numbered and inline ---------------------------------------

var (
	reMDDef    = regexp.MustCompile(`(?m)^!(\d+) = `)
	reMDRef    = regexp.MustCompile(`!(\d+)\b`)
	reDIInline = regexp.MustCompile(`[({,] ?!(?:DI[A-Za-z]+|GenericDINode)\(`)
)

type c17genCase struct {
	Entry   string   `json:"entry"`
	Devs    []string `json:"deviations"`
	Input   string   `json:"input"`
	Printed string   `json:"printed,omitempty"`
	What    string   `json:"what"`
}

// c17generated runs the metadata productions of the generator catalogue (all 28 specialised node
// kinds with field subsets, distinct or not, numbered or written inline as a tuple operand; tuples,
// strings, values, named metadata, attachments) through parse and print and checks the ID
// discipline on the result: definitions have unique IDs, every printed reference names a defined
// ID, a node that is not a definition has no ID (-1) and is printed inline, a node with an ID is the
// object listed in MetadataDefs under that ID, and the number of inline specialised nodes is the
// same in input and output.
func c17generated(c *fw.Check) {
	bound := 1
	if !c.Quick() {
		bound = 2
	}
	var vs []gen.Variant
	for i, e := range gen.Catalogue() {
		if !strings.HasPrefix(e.Name, "md-") {
			continue
		}
		vs = append(vs, gen.Variants(e, i, bound)...)
	}
	c.Extra["generated_metadata_variants"] = len(vs)
	fw.ParallelFor(len(vs), func(i int) {
		v := vs[i]
		x := gen.Module([]gen.Variant{v})
		cs := c17genCase{Entry: v.Entry, Devs: v.Devs, Input: fw.Trunc(x, 3000)}
		d := "default"
		if len(v.Devs) > 0 {
			d = strings.Join(v.Devs, ",")
		}
		fail := func(kind, what string) {
			cs.What = what
			c.Violation("generated/"+kind+"/"+v.Entry+"/"+d, cs)
		}
		m, errs, pan := parseTry(x)
		if errs != "" || pan != "" {
			return // acceptance is C01's business
		}
		c.DistinctN(1)
		c.Valid(1)
		defs := map[int64]metadata.Definition{}
		for _, def := range m.MetadataDefs {
			if _, dup := defs[def.ID()]; dup {
				fail("duplicate-id", fmt.Sprintf("two definitions carry ID %d", def.ID()))
			}
			defs[def.ID()] = def
		}
		// walk: nodes reachable from definitions and named metadata.
		seen := map[interface{}]bool{}
		var walk func(v reflect.Value)
		walk = func(v reflect.Value) {
			switch v.Kind() {
			case reflect.Interface:
				if !v.IsNil() {
					walk(v.Elem())
				}
			case reflect.Ptr:
				if v.IsNil() || v.Type().Elem().Kind() != reflect.Struct || !strings.HasSuffix(v.Type().Elem().PkgPath(), "/ir/metadata") {
					return
				}
				if seen[v.Interface()] {
					return
				}
				seen[v.Interface()] = true
				if idf := v.Elem().FieldByName("MetadataID"); idf.IsValid() {
					id := idf.Int()
					def, listed := v.Interface().(metadata.Definition)
					switch {
					case id >= 0 && (!listed || defs[id] != def):
						fail("reference-not-definition", fmt.Sprintf("a reachable %s carries ID %d but is not the definition listed under that ID", v.Type().Elem().Name(), id))
					}
				}
				walk(v.Elem())
			case reflect.Struct:
				for i := 0; i < v.NumField(); i++ {
					if v.Type().Field(i).PkgPath == "" {
						walk(v.Field(i))
					}
				}
			case reflect.Slice:
				for i := 0; i < v.Len(); i++ {
					walk(v.Index(i))
				}
			}
		}
		for _, def := range m.MetadataDefs {
			walk(reflect.ValueOf(def))
		}
		for _, nm := range m.NamedMetadataDefs {
			walk(reflect.ValueOf(nm))
		}
		var y string
		if p := fw.Try(func() { y = m.String() }); p != "" {
			return // C01
		}
		cs.Printed = fw.Trunc(y, 3000)
		defined := map[string]int{}
		for _, mm := range reMDDef.FindAllStringSubmatch(y, -1) {
			defined[mm[1]]++
			if defined[mm[1]] > 1 {
				fail("printed-duplicate-id", "the printed module defines !"+mm[1]+" twice")
			}
		}
		for _, mm := range reMDRef.FindAllStringSubmatch(stripStrings(y), -1) {
			if defined[mm[1]] == 0 {
				fail("printed-dangling-reference", "the printed module refers to !"+mm[1]+", which it does not define")
				break
			}
		}
		if a, b := len(reDIInline.FindAllString(stripStrings(x), -1)), len(reDIInline.FindAllString(stripStrings(y), -1)); a != b {
			fail("inline-placement", fmt.Sprintf("%d specialised nodes are written inline in the input, %d in the printed module", a, b))
		}
	})
}

// stripStrings blanks the contents of string literals.
func stripStrings(s string) string {
	b := []byte(s)
	in := false
	for i := 0; i < len(b); i++ {
		if b[i] == '"' {
			in = !in
			continue
		}
		if in && b[i] != '\n' {
			b[i] = 'x'
		}
	}
	return string(b)
}
