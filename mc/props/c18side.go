package props

import (
	"fmt"
	"sort"
	"strings"

	"github.com/llir/llvm/ir/enum"
	"github.com/llir/llvm/ir/metadata"

	"verif/fw"
)

// Side by side. A keyword must map back to its value whatever ELSE the module contains. The
// elements of !DIExpression come from three families that share numeric values (DW_OP_*, DW_ATE_*,
// plain integers): every defined keyword of both enum families and the integers 0..40 are written
// as one-element inline expressions of ONE module, ordered by numeric value (so equal values of
// different kinds are neighbours), in both directions; each node must hold exactly the kind and
// value written. The same for two- and three-element expressions built from neighbours.
func c18sideBySide(c *fw.Check) {
	type el struct {
		text string
		want metadata.DIExpressionField
		v    uint64
	}
	var els []el
	for _, et := range EnumTable {
		if et.Name != "DwarfOp" && et.Name != "DwarfAttEncoding" {
			continue
		}
		seen := map[uint64]bool{}
		for _, k := range et.Consts {
			if seen[k.Value] {
				continue
			}
			seen[k.Value] = true
			kw := et.String(k.Value)
			if !strings.HasPrefix(kw, "DW_") {
				continue
			}
			if et.Name == "DwarfOp" {
				els = append(els, el{kw, enum.DwarfOp(k.Value), k.Value})
			} else {
				els = append(els, el{kw, enum.DwarfAttEncoding(k.Value), k.Value})
			}
		}
	}
	for v := uint64(0); v <= 40; v++ {
		els = append(els, el{fmt.Sprint(v), metadata.UintLit(v), v})
	}
	sort.SliceStable(els, func(i, j int) bool { return els[i].v < els[j].v })
	run := func(order []el, width int, tag string) {
		var exprs []string
		for i := 0; i+width <= len(order); i++ {
			var parts []string
			for k := 0; k < width; k++ {
				parts = append(parts, order[i+k].text)
			}
			exprs = append(exprs, "!DIExpression("+strings.Join(parts, ", ")+")")
		}
		src := "!exprs = !{" + strings.Join(exprs, ", ") + "}\n"
		m, errs, pan := parseTry(src)
		if errs != "" || pan != "" {
			c.Violation("side-by-side/parse-fails/"+tag, c18case{Type: "DIExpression elements", What: fw.Trunc(errs+pan, 300), Text: fw.Trunc(src, 400)})
			return
		}
		nm := m.NamedMetadataDefs["exprs"]
		if nm == nil || len(nm.Nodes) != len(exprs) {
			c.Violation("side-by-side/lost/"+tag, c18case{Type: "DIExpression elements", What: "named metadata lost or has the wrong number of operands"})
			return
		}
		for i, node := range nm.Nodes {
			x, ok := node.(*metadata.DIExpression)
			if !ok || len(x.Fields) != width {
				c.Violation("side-by-side/lost/"+tag, c18case{Type: "DIExpression elements", What: fmt.Sprintf("operand %d (%s) is not a %d-element expression", i, exprs[i], width)})
				return
			}
			for k := 0; k < width; k++ {
				want := order[i+k].want
				c.Case(fmt.Sprintf("side|%s|%d|%d", tag, i, k), fmt.Sprint(x.Fields[k]))
				if x.Fields[k] != want {
					c.Violation(fmt.Sprintf("side-by-side/changed/%T", want), c18case{Type: fmt.Sprintf("%T", want), Const: order[i+k].text, Value: order[i+k].v, Got: fmt.Sprintf("%T(%v)", x.Fields[k], x.Fields[k]), What: fmt.Sprintf("`%s` written next to numerically equal elements of other kinds (%s) comes back as another kind or value", order[i+k].text, exprs[i])})
					return
				}
			}
		}
		// and it prints back to the same keywords.
		var y string
		if p := fw.Try(func() { y = m.String() }); p != "" || !strings.Contains(y, strings.Join(exprs, ", ")) {
			c.Violation("side-by-side/printed-differs/"+tag, c18case{Type: "DIExpression elements", What: "the module does not print the expressions as written " + p, Text: fw.Trunc(y, 400)})
		}
		c.Valid(int64(len(exprs)))
	}
	rev := make([]el, len(els))
	for i := range els {
		rev[len(els)-1-i] = els[i]
	}
	for w := 1; w <= 3; w++ {
		run(els, w, fmt.Sprintf("ascending/width=%d", w))
		run(rev, w, fmt.Sprintf("descending/width=%d", w))
	}
	c.Extra["side_by_side_expression_elements"] = len(els)
}
