package props

import (
	"fmt"
	"reflect"
	"sort"
	"strings"

	"github.com/llir/llvm/ir"
	"github.com/llir/llvm/ir/metadata"
)

// Binding oracle of C04. Identity with SOME element of the module's lists is necessary but not
// sufficient: a reference must be the object that defines THE NAME WRITTEN. For every top-level
// entity of the input text (global, alias, ifunc, function, numbered metadata definition) the set
// of global names / unnamed global IDs / metadata IDs / comdat names it mentions (an independent
// tokeniser over the text) is compared with the set of global-like objects, numbered metadata
// nodes and comdats reachable from the corresponding object of the parsed module without passing
// through another top-level entity or through a local of another function (reflection walk).

func c04nameOfToken(tok string) string {
	body := tok[1:]
	if strings.HasPrefix(body, `"`) {
		return string(tok[0]) + decodeIdent(body)
	}
	if strings.Trim(body, "0123456789") == "" {
		return string(tok[0]) + "#" + strings.TrimLeft(body[:len(body)-1], "0") + body[len(body)-1:]
	}
	return tok
}

func c04nameOfObject(x interface{}) (string, bool) {
	type named interface {
		IsUnnamed() bool
		ID() int64
	}
	var gn string
	switch g := x.(type) {
	case *ir.Global:
		gn = g.GlobalName
	case *ir.Func:
		gn = g.GlobalName
	case *ir.Alias:
		gn = g.GlobalName
	case *ir.IFunc:
		gn = g.GlobalName
	default:
		return "", false
	}
	n := x.(named)
	if n.IsUnnamed() {
		return fmt.Sprintf("@#%d", n.ID()), true
	}
	return "@" + gn, true
}

type c04binder struct {
	k       *idCheck
	anyLoc  map[interface{}]bool
	refs    map[string]bool
	seen    map[uintptr]bool
	objName map[interface{}]string
}

func (b *c04binder) walk(v reflect.Value, top bool) {
	switch v.Kind() {
	case reflect.Interface:
		if !v.IsNil() {
			b.walk(v.Elem(), false)
		}
	case reflect.Ptr:
		if v.IsNil() || !v.CanInterface() {
			return
		}
		t := v.Type().Elem()
		if t.Kind() != reflect.Struct || skipPkg(t) || strings.HasSuffix(t.PkgPath(), "/ir/types") {
			return
		}
		x := v.Interface()
		if !top {
			if b.k.globals[x] {
				if n, ok := b.objName[x]; ok {
					b.refs[n] = true
				} else if n, ok := c04nameOfObject(x); ok {
					b.refs[n+" (not a definition of the text)"] = true
				}
				return
			}
			if d, ok := x.(metadata.Definition); ok && d.ID() != -1 {
				b.refs[fmt.Sprintf("!%d", d.ID())] = true
				return
			}
			if cd, ok := x.(*ir.ComdatDef); ok {
				b.refs["$"+cd.Name] = true
				return
			}
			if b.anyLoc[x] {
				return // a parameter, block, instruction or terminator: visited through its owner's lists only
			}
			if _, ok := x.(*ir.Module); ok {
				return
			}
			if _, ok := x.(*ir.AttrGroupDef); ok {
				return
			}
		}
		p := v.Pointer()
		if b.seen[p] {
			return
		}
		b.seen[p] = true
		b.walk(v.Elem(), false)
	case reflect.Struct:
		t := v.Type()
		if skipPkg(t) || strings.HasSuffix(t.PkgPath(), "/ir/types") {
			return
		}
		for i := 0; i < v.NumField(); i++ {
			sf := t.Field(i)
			if sf.PkgPath != "" || sf.Name == "Parent" || sf.Name == "Typ" || sf.Name == "Sig" {
				continue
			}
			b.walk(v.Field(i), false)
		}
	case reflect.Slice, reflect.Array:
		for i := 0; i < v.Len(); i++ {
			b.walk(v.Index(i), false)
		}
	case reflect.Map:
		for _, key := range v.MapKeys() {
			b.walk(v.MapIndex(key), false)
		}
	}
}

// c04binding returns the discrepancies between the names written in text and the objects bound.
// Objects are identified INDEPENDENTLY of the IDs the parser assigned: the k-th global variable /
// alias / ifunc / function of the text is the k-th element of the module's list of that kind (the
// lists keep textual order), and an object is called by the name or number its definition carries
// in the text.
func c04binding(text string, m *ir.Module, k *idCheck) []string {
	sites := c05sites(text)
	anyLoc := map[interface{}]bool{}
	for _, l := range k.locals {
		for x := range l {
			anyLoc[x] = true
		}
	}
	type ent struct {
		e    [2]int
		def  *c05site
		name string
		root interface{}
	}
	var ents []ent
	nG, nA, nI, nF := 0, 0, 0, 0
	objName := map[interface{}]string{}
	mdObjs := map[string]interface{}{}
	for _, d := range m.MetadataDefs {
		if d.ID() != -1 {
			mdObjs[fmt.Sprintf("!%d", d.ID())] = d
		}
	}
	for _, e := range c05entities(text) {
		var def *c05site
		for i := range sites {
			s := &sites[i]
			if s.def && s.kind != "label" && s.start >= e[0] && s.end <= e[1] {
				def = s
				break
			}
		}
		if def == nil {
			continue
		}
		first := strings.SplitN(text[e[0]:e[1]], "\n", 2)[0]
		switch def.kind {
		case "metadata-id":
			if root, ok := mdObjs[def.tok]; ok {
				ents = append(ents, ent{e, def, def.tok, root})
			}
		case "global":
			name := c04nameOfToken(def.tok)
			var root interface{}
			rest := first[strings.Index(first, def.tok)+len(def.tok):]
			switch {
			case strings.HasPrefix(first, "define") || strings.HasPrefix(first, "declare"):
				if nF < len(m.Funcs) {
					root = m.Funcs[nF]
				}
				nF++
			case strings.Contains(rest, " alias "):
				if nA < len(m.Aliases) {
					root = m.Aliases[nA]
				}
				nA++
			case strings.Contains(rest, " ifunc "):
				if nI < len(m.IFuncs) {
					root = m.IFuncs[nI]
				}
				nI++
			default:
				if nG < len(m.Globals) {
					root = m.Globals[nG]
				}
				nG++
			}
			if root == nil {
				return []string{fmt.Sprintf("entity %s of the text has no counterpart in the module's lists", def.tok)}
			}
			objName[root] = name
			ents = append(ents, ent{e, def, name, root})
		}
	}
	if nG != len(m.Globals) || nA != len(m.Aliases) || nI != len(m.IFuncs) || nF != len(m.Funcs) {
		return nil // (entities the tokeniser does not see: no verdict)
	}
	var out []string
	for _, en := range ents {
		e, def, name := en.e, en.def, en.name
		want := map[string]bool{}
		for _, s := range sites {
			if s.def || s.start < e[0] || s.start >= e[1] {
				continue
			}
			switch s.kind {
			case "global":
				want[c04nameOfToken(s.tok)] = true
			case "metadata-id":
				want[s.tok] = true
			case "comdat":
				want["$"+strings.TrimPrefix(c04nameOfToken(s.tok), "$")] = true
			}
		}
		// a bare `comdat` names the comdat after the entity itself.
		et := text[e[0]:e[1]]
		if first := strings.SplitN(et, "\n", 2)[0]; strings.Contains(first, " comdat") && !strings.Contains(first, " comdat(") && !strings.Contains(first, "= comdat") {
			want["$"+strings.TrimPrefix(name, "@")] = true
		}
		b := &c04binder{k: k, anyLoc: anyLoc, refs: map[string]bool{}, seen: map[uintptr]bool{}, objName: objName}
		b.walk(reflect.ValueOf(en.root), true)
		if f, ok := en.root.(*ir.Func); ok {
			for _, p := range f.Params {
				b.walk(reflect.ValueOf(p), true)
			}
			for _, blk := range f.Blocks {
				b.walk(reflect.ValueOf(blk), true)
				for _, inst := range blk.Insts {
					b.walk(reflect.ValueOf(inst), true)
				}
				if blk.Term != nil {
					b.walk(reflect.ValueOf(blk.Term), true)
				}
			}
		}
		var missing, extra []string
		for n := range want {
			if !b.refs[n] {
				missing = append(missing, n)
			}
		}
		for n := range b.refs {
			if !want[n] {
				extra = append(extra, n)
			}
		}
		if len(missing)+len(extra) > 0 {
			sort.Strings(missing)
			sort.Strings(extra)
			out = append(out, fmt.Sprintf("entity %s: the text mentions %v which the object does not refer to; the object refers to %v which the text does not mention", def.tok, missing, extra))
		}
	}
	return out
}
