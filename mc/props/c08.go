package props

import (
	"fmt"
	"regexp"
	"sort"
	"strings"
	"sync"

	"github.com/llir/llvm/ir"
	"github.com/llir/llvm/ir/constant"
	"github.com/llir/llvm/ir/enum"
	"github.com/llir/llvm/ir/types"
	"github.com/llir/llvm/ir/value"

	"verif/fw"
	"verif/llcanon"
)

func init() { Registry["C08"] = Prop{Run: runC08, Replay: replayC08} }

// ---- function shapes -----------------------------------------------------------------------------

// instruction kinds of the shape alphabet.
const (
	kValU   = iota // unnamed value instruction (add)
	kValN          // named value instruction
	kVoidC         // void call
	kCallU         // unnamed non-void call
	kCallN         // named non-void call
	kStore         // store
	kFence         // fence
	kVoidCT        // void call written with an explicit function type: call void () @vf()
	kVoidCV        // void call of a variadic function: call void (i32, ...) @vv(i32 1)
	nInstKinds
)

// terminator kinds of non-final blocks.
const (
	tBr   = iota
	tInvV // invoke void
	tInvU // invoke non-void, unnamed result
	tInvN // invoke non-void, named result
	tCbrV // callbr void
	tCbrU // callbr non-void, unnamed result
	nTermKinds
)

type c08block struct {
	Named bool  `json:"named"`
	Insts []int `json:"insts"`
	Term  int   `json:"term"` // ignored for the last block (ret)
}

type c08func struct {
	Params []bool     `json:"params_named"`
	Blocks []c08block `json:"blocks"`
}

var c08instName = []string{"val-unnamed", "val-named", "void-call", "call-unnamed", "call-named", "store", "fence", "void-call-explicit-fntype", "void-call-variadic"}
var c08termName = []string{"br", "invoke-void", "invoke-unnamed", "invoke-named", "callbr-void", "callbr-unnamed"}

func (s c08func) String() string {
	var b strings.Builder
	b.WriteString("params[")
	for _, p := range s.Params {
		b.WriteString(map[bool]string{true: "n", false: "u"}[p])
	}
	b.WriteString("]")
	for i, bl := range s.Blocks {
		b.WriteString(" block(" + map[bool]string{true: "named", false: "unnamed"}[bl.Named] + ":")
		for _, k := range bl.Insts {
			b.WriteString(" " + c08instName[k])
		}
		if i < len(s.Blocks)-1 {
			b.WriteString(" ; " + c08termName[bl.Term])
		} else {
			b.WriteString(" ; ret")
		}
		b.WriteString(")")
	}
	return b.String()
}

func (s c08func) usesInvoke() bool {
	for i, b := range s.Blocks {
		if i < len(s.Blocks)-1 && (b.Term == tInvV || b.Term == tInvU || b.Term == tInvN) {
			return true
		}
	}
	return false
}

const c08prelude = "@G = global i32 0\ndeclare void @vf()\ndeclare void @vv(i32, ...)\ndeclare i32 @ext(i32)\ndeclare i32 @__gxx_personality_v0(...)\n"

// c08text emits the function in one of the forms: "explicit" (every number written as LLVM's rule
// assigns it: the model), "implicit" (result numbers omitted), "implicit-labels" (numeric block
// labels omitted as well).
var (
	reC08num   = regexp.MustCompile(`%(\d+)`)
	reC08label = regexp.MustCompile(`(?m)^(\d+):`)
)

// c08text: form "explicit-zeros" is the explicit form with every number spelled with a leading
// zero (%01, 02:), which LLVM reads as the same IDs.
func c08text(s c08func, name, form string) string {
	if form == "explicit-zeros" {
		t := c08textPlain(s, name, "explicit")
		t = reC08num.ReplaceAllString(t, "%0$1")
		return reC08label.ReplaceAllString(t, "0$1:")
	}
	return c08textPlain(s, name, form)
}

func c08textPlain(s c08func, name, form string) string {
	// pass 1: the independent model of LLVM's numbering rule.
	n := 0
	paramRef := make([]string, len(s.Params))
	for i, named := range s.Params {
		if named {
			paramRef[i] = fmt.Sprintf("%%p%d", i)
		} else {
			paramRef[i] = fmt.Sprintf("%%%d", n)
			n++
		}
	}
	type slot struct{ ref string }
	blockRef := make([]string, len(s.Blocks))
	instRef := make([][]string, len(s.Blocks))
	termRef := make([]string, len(s.Blocks))
	nv := 0
	for bi, b := range s.Blocks {
		if b.Named {
			blockRef[bi] = fmt.Sprintf("b%d", bi)
		} else {
			blockRef[bi] = fmt.Sprint(n)
			n++
		}
		instRef[bi] = make([]string, len(b.Insts))
		for ii, k := range b.Insts {
			switch k {
			case kValU, kCallU:
				instRef[bi][ii] = fmt.Sprintf("%%%d", n)
				n++
			case kValN, kCallN:
				instRef[bi][ii] = fmt.Sprintf("%%v%d", nv)
				nv++
			}
		}
		if bi < len(s.Blocks)-1 {
			switch b.Term {
			case tInvU, tCbrU:
				termRef[bi] = fmt.Sprintf("%%%d", n)
				n++
			case tInvN:
				termRef[bi] = fmt.Sprintf("%%v%d", nv)
				nv++
			}
		}
	}
	// pass 2: text.
	var out strings.Builder
	var ps []string
	for i, named := range s.Params {
		if named || form == "explicit" {
			ps = append(ps, "i32 "+paramRef[i])
		} else {
			ps = append(ps, "i32")
		}
	}
	pers := ""
	if s.usesInvoke() {
		pers = " personality i8* bitcast (i32 (...)* @__gxx_personality_v0 to i8*)"
	}
	fmt.Fprintf(&out, "define i32 @%s(%s)%s {\n", name, strings.Join(ps, ", "), pers)
	cur := "7"
	if len(paramRef) > 0 {
		cur = paramRef[0]
	}
	def := func(ref string) string {
		if ref == "" {
			return ""
		}
		if form != "explicit" && ref[1] >= '0' && ref[1] <= '9' {
			return ""
		}
		return ref + " = "
	}
	for bi, b := range s.Blocks {
		if b.Named {
			fmt.Fprintf(&out, "%s:\n", blockRef[bi])
		} else if bi > 0 && form != "implicit-labels" || (bi == 0 && form == "explicit") {
			fmt.Fprintf(&out, "%s:\n", blockRef[bi])
		}
		for ii, k := range b.Insts {
			switch k {
			case kValU, kValN:
				fmt.Fprintf(&out, "  %sadd i32 %s, 1\n", def(instRef[bi][ii]), cur)
				cur = instRef[bi][ii]
			case kVoidC:
				out.WriteString("  call void @vf()\n")
			case kVoidCT:
				out.WriteString("  call void () @vf()\n")
			case kVoidCV:
				out.WriteString("  call void (i32, ...) @vv(i32 1)\n")
			case kCallU, kCallN:
				fmt.Fprintf(&out, "  %scall i32 @ext(i32 %s)\n", def(instRef[bi][ii]), cur)
				cur = instRef[bi][ii]
			case kStore:
				fmt.Fprintf(&out, "  store i32 %s, i32* @G\n", cur)
			case kFence:
				out.WriteString("  fence seq_cst\n")
			}
		}
		if bi == len(s.Blocks)-1 {
			fmt.Fprintf(&out, "  ret i32 %s\n", cur)
			break
		}
		next := "%" + blockRef[bi+1]
		switch b.Term {
		case tBr:
			fmt.Fprintf(&out, "  br label %s\n", next)
		case tInvV:
			fmt.Fprintf(&out, "  invoke void @vf() to label %s unwind label %%lp\n", next)
		case tInvU, tInvN:
			fmt.Fprintf(&out, "  %sinvoke i32 @ext(i32 %s) to label %s unwind label %%lp\n", def(termRef[bi]), cur, next)
			cur = termRef[bi]
		case tCbrV:
			fmt.Fprintf(&out, "  callbr void asm sideeffect \"\", \"\"() to label %s []\n", next)
		case tCbrU:
			fmt.Fprintf(&out, "  %scallbr i32 asm \"\", \"=r,r\"(i32 %s) to label %s []\n", def(termRef[bi]), cur, next)
			cur = termRef[bi]
		}
	}
	if s.usesInvoke() {
		out.WriteString("lp:\n  %lpv = landingpad { i8*, i32 } cleanup\n  resume { i8*, i32 } %lpv\n")
	}
	out.WriteString("}\n")
	// a declaration with the same parameter list (declarations number their unnamed parameters too)
	fmt.Fprintf(&out, "declare i32 @decl.%s(%s)\n", name, strings.Join(ps, ", "))
	// the addresses of all blocks but the entry (whose address cannot be taken), so that the
	// binding of %N / %name BLOCK references from outside the body is observable.
	// (LLVM only reads numeric block labels in a blockaddress that precedes the function.)
	if len(s.Blocks) > 1 {
		var bas []string
		for bi := 1; bi < len(s.Blocks); bi++ {
			bas = append(bas, fmt.Sprintf("i8* blockaddress(@%s, %%%s)", name, blockRef[bi]))
		}
		return fmt.Sprintf("@ba.%s = global [%d x i8*] [%s]\n", name, len(bas), strings.Join(bas, ", ")) + out.String()
	}
	return out.String()
}

// c08build constructs the same function through the public API (unnamed values left unnamed).
func c08build(m *ir.Module, env *c08env, s c08func, name string) *ir.Func {
	var params []*ir.Param
	for i, named := range s.Params {
		pn := ""
		if named {
			pn = fmt.Sprintf("p%d", i)
		}
		params = append(params, ir.NewParam(pn, types.I32))
	}
	var user *ir.Func
	if env.noGlobals && len(s.Blocks) > 1 {
		// the function that holds the addresses of the blocks is listed BEFORE the function itself.
		user = m.NewFunc("ba."+name, types.Void)
	}
	f := m.NewFunc(name, types.I32, params...)
	{
		// the declaration with the same parameter list
		var dps []*ir.Param
		for i, named := range s.Params {
			pn := ""
			if named {
				pn = fmt.Sprintf("p%d", i)
			}
			dps = append(dps, ir.NewParam(pn, types.I32))
		}
		m.NewFunc("decl."+name, types.I32, dps...)
	}
	if s.usesInvoke() {
		f.Personality = constant.NewBitCast(env.pers, types.I8Ptr)
	}
	var blocks []*ir.Block
	for bi, b := range s.Blocks {
		bn := ""
		if b.Named {
			bn = fmt.Sprintf("b%d", bi)
		}
		blocks = append(blocks, f.NewBlock(bn))
	}
	var lp *ir.Block
	if s.usesInvoke() {
		lp = f.NewBlock("lp")
		l := lp.NewLandingPad(types.NewStruct(types.I8Ptr, types.I32))
		l.SetName("lpv")
		l.Cleanup = true
		lp.NewResume(l)
	}
	var cur value.Value = constant.NewInt(types.I32, 7)
	if len(params) > 0 {
		cur = params[0]
	}
	nv := 0
	nm := func(named bool) string {
		if named {
			nv++
			return fmt.Sprintf("v%d", nv-1)
		}
		return ""
	}
	for bi, b := range s.Blocks {
		blk := blocks[bi]
		for _, k := range b.Insts {
			switch k {
			case kValU, kValN:
				x := blk.NewAdd(cur, constant.NewInt(types.I32, 1))
				x.SetName(nm(k == kValN))
				cur = x
			case kVoidC, kVoidCT:
				blk.NewCall(env.vf)
			case kVoidCV:
				blk.NewCall(env.vv, constant.NewInt(types.I32, 1))
			case kCallU, kCallN:
				x := blk.NewCall(env.ext, cur)
				x.SetName(nm(k == kCallN))
				cur = x
			case kStore:
				if env.noGlobals {
					blk.NewStore(cur, constant.NewUndef(types.I32Ptr))
				} else {
					blk.NewStore(cur, env.g)
				}
			case kFence:
				blk.NewFence(enum.AtomicOrderingSequentiallyConsistent)
			}
		}
		if bi == len(s.Blocks)-1 {
			blk.NewRet(cur)
			break
		}
		next := blocks[bi+1]
		switch b.Term {
		case tBr:
			blk.NewBr(next)
		case tInvV:
			blk.NewInvoke(env.vf, nil, next, lp)
		case tInvU, tInvN:
			x := blk.NewInvoke(env.ext, []value.Value{cur}, next, lp)
			x.SetName(nm(b.Term == tInvN))
			cur = x
		case tCbrV:
			a := ir.NewInlineAsm(types.NewPointer(types.NewFunc(types.Void)), "", "")
			a.SideEffect = true
			blk.NewCallBr(a, nil, next)
		case tCbrU:
			a := ir.NewInlineAsm(types.NewPointer(types.NewFunc(types.I32, types.I32)), "", "=r,r")
			x := blk.NewCallBr(a, []value.Value{cur}, next)
			cur = x
		}
	}
	if len(blocks) > 1 {
		// the same table of block addresses as in c08text.
		var bas []constant.Constant
		for bi := 1; bi < len(blocks); bi++ {
			bas = append(bas, constant.NewBlockAddress(f, blocks[bi]))
		}
		if user != nil {
			ub := user.NewBlock("")
			for _, ba := range bas {
				ub.NewStore(ba, constant.NewUndef(types.NewPointer(types.I8Ptr)))
			}
			ub.NewRet(nil)
		} else {
			m.NewGlobalDef("ba."+name, constant.NewArray(types.NewArray(uint64(len(bas)), types.I8Ptr), bas...))
		}
	}
	return f
}

// c08textNoGlobals rewrites the explicit text of a function for a module WITHOUT global variables:
// stores go to an undef pointer and the table of block addresses becomes the body of a function
// `@ba.<name>` written before the function.
func c08textNoGlobals(text string) string {
	text = strings.ReplaceAll(text, "i32* @G", "i32* undef")
	if !strings.HasPrefix(text, "@ba.") {
		return text
	}
	nl := strings.Index(text, "\n")
	line, rest := text[:nl], text[nl+1:]
	name := line[len("@ba."):strings.Index(line, " ")]
	items := line[strings.Index(line, "] [")+3 : len(line)-1]
	var b strings.Builder
	fmt.Fprintf(&b, "define void @ba.%s() {\n", name)
	for _, it := range strings.Split(items, ", i8* ") {
		it = strings.TrimPrefix(it, "i8* ")
		fmt.Fprintf(&b, "  store i8* %s, i8** undef\n", it)
	}
	b.WriteString("  ret void\n}\n")
	return b.String() + rest
}

type c08env struct {
	g    *ir.Global
	vf   *ir.Func
	ext  *ir.Func
	pers *ir.Func
	vv   *ir.Func
	// noGlobals: the module has no global variable at all (block addresses are held by functions).
	noGlobals bool
}

const c08preludeNoGlobals = "declare void @vf()\ndeclare void @vv(i32, ...)\ndeclare i32 @ext(i32)\ndeclare i32 @__gxx_personality_v0(...)\n"

func c08newModuleNoGlobals() (*ir.Module, *c08env) {
	m := ir.NewModule()
	e := &c08env{noGlobals: true}
	e.vf = m.NewFunc("vf", types.Void)
	e.vv = m.NewFunc("vv", types.Void, ir.NewParam("", types.I32))
	e.vv.Sig.Variadic = true
	e.ext = m.NewFunc("ext", types.I32, ir.NewParam("", types.I32))
	e.pers = m.NewFunc("__gxx_personality_v0", types.I32)
	e.pers.Sig.Variadic = true
	return m, e
}

func c08newModule() (*ir.Module, *c08env) {
	m := ir.NewModule()
	e := &c08env{}
	e.g = m.NewGlobalDef("G", constant.NewInt(types.I32, 0))
	e.vf = m.NewFunc("vf", types.Void)
	e.vv = m.NewFunc("vv", types.Void, ir.NewParam("", types.I32))
	e.vv.Sig.Variadic = true
	e.ext = m.NewFunc("ext", types.I32, ir.NewParam("", types.I32))
	e.pers = m.NewFunc("__gxx_personality_v0", types.I32)
	e.pers.Sig.Variadic = true
	return m, e
}

// c08shapes enumerates all function shapes within the bounds.
func c08shapes(maxParams, minBlocks, maxBlocks, maxInsts int, instKinds, termKinds []int) []c08func {
	var paramSets [][]bool
	for n := 0; n <= maxParams; n++ {
		for mask := 0; mask < 1<<n; mask++ {
			ps := make([]bool, n)
			for i := range ps {
				ps[i] = mask>>i&1 == 1
			}
			paramSets = append(paramSets, ps)
		}
	}
	var instSeqs [][]int
	var rec func(cur []int)
	rec = func(cur []int) {
		instSeqs = append(instSeqs, append([]int(nil), cur...))
		if len(cur) == maxInsts {
			return
		}
		for _, k := range instKinds {
			rec(append(cur, k))
		}
	}
	rec(nil)
	var out []c08func
	var build func(blocks []c08block, nb int)
	build = func(blocks []c08block, nb int) {
		if len(blocks) == nb {
			for _, ps := range paramSets {
				out = append(out, c08func{Params: ps, Blocks: append([]c08block(nil), blocks...)})
			}
			return
		}
		last := len(blocks) == nb-1
		for _, named := range []bool{false, true} {
			for _, is := range instSeqs {
				if last {
					build(append(blocks, c08block{Named: named, Insts: is}), nb)
				} else {
					for _, t := range termKinds {
						build(append(blocks, c08block{Named: named, Insts: is, Term: t}), nb)
					}
				}
			}
		}
	}
	for nb := minBlocks; nb <= maxBlocks; nb++ {
		build(nil, nb)
	}
	return out
}

type c08case struct {
	Shape string   `json:"shape"`
	Form  string   `json:"form"`
	Text  string   `json:"text"`
	Got   string   `json:"printed,omitempty"`
	What  string   `json:"what"`
	Func  *c08func `json:"func_shape,omitempty"`
	Mod   []string `json:"module_shape,omitempty"`
}

// funcsByName splits canonical entities into a map name -> text.
func funcsByName(canon []llcanon.Entity) map[string]string {
	m := map[string]string{}
	for _, e := range canon {
		if e.Kind == "func" {
			if strings.HasPrefix(e.Name, "@ba.") {
				m["@"+e.Name[4:]] += "\n" + e.Text
				continue
			}
			m[e.Name] += e.Text
		}
	}
	// the table of block addresses of a function belongs to it (see c08text).
	for _, e := range canon {
		if strings.HasPrefix(e.Text, "@ba.") {
			if i := strings.Index(e.Text, " "); i > 4 {
				m["@"+e.Text[4:i]] += "\n" + e.Text
			}
		}
	}
	return m
}

func c08funcBatch(c *fw.Check, shapes []c08func, base int) {
	forms := []string{"explicit", "implicit", "implicit-labels", "explicit-zeros"}
	texts := map[string]string{}
	for _, form := range forms {
		var b strings.Builder
		b.WriteString(c08prelude)
		for i, s := range shapes {
			b.WriteString(c08text(s, fmt.Sprintf("f%d", base+i), form))
		}
		texts[form] = b.String()
	}
	// LLVM validates the model (explicit numbering must be what LLVM expects).
	ref, e, ok, _ := fw.AsDis(texts["explicit"])
	if !ok {
		// find the culprit: machinery error (the model of LLVM's rule is wrong).
		for i, s := range shapes {
			one := c08prelude + c08text(s, fmt.Sprintf("f%d", base+i), "explicit")
			if ok1, e1 := fw.LLVMAccepts(one); !ok1 {
				fw.Fatalf("C08 numbering model rejected by LLVM for shape %s:\n%s\n%s", s, one, e1)
			}
		}
		fw.Fatalf("C08: LLVM rejects a batch but no single function: %s", e)
	}
	refFuncs := funcsByName(llcanon.Canon(ref))
	report := func(i int, form, sig, what, text, got string) {
		s := shapes[i]
		c.Violation(sig, c08case{Shape: s.String(), Form: form, Text: c08prelude + text, Got: fw.Trunc(got, 2000), What: what, Func: &s})
	}
	single := func(i int, form string) string { return c08text(shapes[i], fmt.Sprintf("f%d", base+i), form) }
	// signature helper: which unnamed things are involved.
	sigOf := func(i int) string {
		s := shapes[i]
		var parts []string
		for bi, b := range s.Blocks {
			if bi < len(s.Blocks)-1 && b.Term != tBr {
				parts = append(parts, c08termName[b.Term])
			}
			for _, k := range b.Insts {
				if k == kVoidC || k == kCallU || k == kVoidCT || k == kVoidCV {
					parts = append(parts, c08instName[k])
				}
			}
		}
		sort.Strings(parts)
		var u []string
		for _, p := range parts {
			if len(u) == 0 || u[len(u)-1] != p {
				u = append(u, p)
			}
		}
		return strings.Join(u, "+")
	}
	for _, form := range forms {
		if form != "explicit" {
			if ok, _ := fw.LLVMAccepts(texts[form]); !ok {
				// LLVM itself does not accept this implicit spelling for some shape: per-function.
			}
		}
		m, errs, pan := parseTry(texts[form])
		if errs != "" || pan != "" {
			// attribute to single functions.
			for i := range shapes {
				one := c08prelude + single(i, form)
				if okL, _ := fw.LLVMAccepts(one); !okL {
					continue // LLVM does not accept this spelling either
				}
				_, e1, p1 := parseTry(one)
				if p1 != "" {
					report(i, form, "parser-panics/"+form+"/"+sigOf(i), "parser panics on a numbering LLVM accepts: "+p1, single(i, form), "")
				} else if e1 != "" {
					report(i, form, "parser-rejects/"+form+"/"+sigOf(i), "parser rejects a numbering LLVM accepts: "+e1, single(i, form), "")
				}
			}
			continue
		}
		// IDs bound as the model says + idempotent numbering.
		var printed string
		if p := fw.Try(func() { printed = m.String() }); p != "" {
			for i := range shapes {
				one := c08prelude + single(i, form)
				m1, e1, p1 := parseTry(one)
				if e1 != "" || p1 != "" {
					continue
				}
				if p2 := fw.Try(func() { _ = m1.String() }); p2 != "" {
					report(i, form, "print-panics/"+form+"/"+sigOf(i), "String() panics on a module the parser produced: "+p2, single(i, form), "")
				}
			}
			continue
		}
		for _, f := range m.Funcs {
			if err := f.AssignIDs(); err != nil {
				c.Violation("assignids-not-idempotent/"+form, c08case{Form: form, What: "AssignIDs on an already numbered function fails: " + err.Error(), Text: f.Name()})
			}
		}
		var printed2 string
		fw.Try(func() { printed2 = m.String() })
		if printed2 != printed {
			c.Violation("renumbering-changes-text/"+form, c08case{Form: form, What: "numbering an already numbered module again changes its text"})
		}
		got, e2, ok2, _ := fw.AsDis(printed)
		if !ok2 {
			for i := range shapes {
				one := c08prelude + single(i, form)
				m1, e1, p1 := parseTry(one)
				if e1 != "" || p1 != "" {
					continue
				}
				var pr string
				fw.Try(func() { pr = m1.String() })
				if okL, eL := fw.LLVMAccepts(pr); !okL {
					report(i, form, "llvm-rejects-printed/"+form+"/"+sigOf(i), "LLVM rejects the printed numbering: "+fw.Trunc(eL, 200), single(i, form), pr)
				}
			}
			_ = e2
			continue
		}
		gotFuncs := funcsByName(llcanon.Canon(got))
		for i := range shapes {
			n := fmt.Sprintf("@f%d", base+i)
			if gotFuncs[n] != refFuncs[n] {
				report(i, form, "binding-differs/"+form+"/"+sigOf(i), "after parse+print LLVM reads a different function (a %N was bound to another value or renumbered wrongly)", single(i, form), gotFuncs[n]+"\n--- expected ---\n"+refFuncs[n])
			}
		}
		c.Valid(int64(len(shapes)))
		// every printer entry point below the module as the FIRST print of a freshly parsed module:
		// Func.LLString, Block.LLString and Instruction/Terminator.LLString must give exactly the
		// lines the module print gives (nothing may rely on Module.String having numbered first).
		// (quick: on the explicit and the implicit-labels form; thorough: on all four)
		if c.Quick() && form != "explicit" && form != "implicit-labels" {
			continue
		}
		if m2, e2, p2 := parseTry(texts[form]); e2 == "" && p2 == "" {
			for _, f := range m2.Funcs {
				var fs string
				if p := fw.Try(func() { fs = f.LLString() }); p != "" {
					c.Violation("first-print/func-panics/"+form, c08case{Form: form, What: "Func.LLString as first print of a parsed module panics: " + p, Text: f.Name()})
					break
				}
				if !strings.Contains(printed, fs+"\n") {
					c.Violation("first-print/func-differs/"+form+"/"+c08declOrDef(f), c08case{Form: form, What: "Func.LLString as the first print of a freshly parsed module differs from the function as the module print shows it", Text: fs, Got: fw.Trunc(c08segment(printed, f.Name()), 1500)})
					break
				}
			}
		}
		// count-preserving edit of an already numbered function: every add is replaced IN PLACE by a
		// freshly constructed equal instruction (unnamed ones carry no number yet), its uses are
		// redirected through the operand slots; the module must print as before.
		if m5, e5, p5 := parseTry(texts[form]); e5 == "" && p5 == "" {
			var edited string
			if p := fw.Try(func() {
				for _, f := range m5.Funcs {
					for _, b := range f.Blocks {
						for i, inst := range b.Insts {
							old, ok := inst.(*ir.InstAdd)
							if !ok {
								continue
							}
							n := ir.NewAdd(old.X, old.Y)
							if !old.IsUnnamed() {
								n.SetName(old.LocalName)
							}
							b.Insts[i] = n
							for _, b2 := range f.Blocks {
								for _, u := range b2.Insts {
									for _, op := range u.Operands() {
										if *op == value.Value(old) {
											*op = n
										}
									}
								}
								for _, op := range b2.Term.Operands() {
									if *op == value.Value(old) {
										*op = n
									}
								}
							}
						}
					}
				}
				edited = m5.String()
			}); p != "" {
				c.Violation("in-place-replacement/panics/"+form, c08case{Form: form, What: "replacing value instructions in place by equal fresh ones and printing panics: " + p})
			} else if edited != printed {
				c.Violation("in-place-replacement/text-differs/"+form, c08case{Form: form, What: "after replacing every add IN PLACE by an equal freshly constructed instruction (same number of instructions) the module prints differently: " + firstDiff(printed, edited)})
			}
		}
		if m3, e3, p3 := parseTry(texts[form]); e3 == "" && p3 == "" {
		outer:
			for _, f := range m3.Funcs {
				for _, b := range f.Blocks {
					var lines []string
					if p := fw.Try(func() {
						lines = append(lines, b.LLString())
						for _, in := range b.Insts {
							lines = append(lines, "\t"+in.LLString()+"\n")
						}
						lines = append(lines, "\t"+b.Term.LLString())
					}); p != "" {
						c.Violation("first-print/block-panics/"+form, c08case{Form: form, What: "Block/Instruction.LLString as first print of a parsed module panics: " + p, Text: f.Name()})
						break outer
					}
					for _, l := range lines {
						if !strings.Contains(printed, l) {
							c.Violation("first-print/block-or-inst-differs/"+form, c08case{Form: form, What: "Block/Instruction/Terminator.LLString as the first print of a freshly parsed module is not what the module print shows", Text: l, Got: fw.Trunc(c08segment(printed, f.Name()), 1500)})
							break outer
						}
					}
				}
			}
		}
	}
	// built through the API.
	{
		// Func.LLString as the first print of an API-built module.
		mf, envf := c08newModule()
		mr, envr := c08newModule()
		for i, s := range shapes {
			c08build(mf, envf, s, fmt.Sprintf("f%d", base+i))
			c08build(mr, envr, s, fmt.Sprintf("f%d", base+i))
		}
		var whole string
		if p := fw.Try(func() { whole = mr.String() }); p == "" {
			for _, f := range mf.Funcs {
				var fs string
				if p := fw.Try(func() { fs = f.LLString() }); p != "" {
					c.Violation("first-print/func-panics/api", c08case{Form: "api", What: "Func.LLString as first print of an API-built module panics: " + p, Text: f.Name()})
					break
				}
				if !strings.Contains(whole, fs+"\n") {
					c.Violation("first-print/func-differs/api/"+c08declOrDef(f), c08case{Form: "api", What: "Func.LLString as the first print of an API-built module differs from the function as the module print shows it", Text: fs, Got: fw.Trunc(c08segment(whole, f.Name()), 1500)})
					break
				}
			}
		}
	}
	m, env := c08newModule()
	for i, s := range shapes {
		c08build(m, env, s, fmt.Sprintf("f%d", base+i))
	}
	var printed string
	if p := fw.Try(func() { printed = m.String() }); p != "" {
		c.Violation("api-print-panics", c08case{Form: "api", What: p})
		return
	}
	got, e3, ok3, _ := fw.AsDis(printed)
	if !ok3 {
		for i, s := range shapes {
			m1, env1 := c08newModule()
			c08build(m1, env1, s, "f0")
			pr := m1.String()
			if okL, eL := fw.LLVMAccepts(pr); !okL {
				report(i, "api", "llvm-rejects-printed/api/"+sigOf(i), "LLVM rejects the numbering printed for an API-built function: "+fw.Trunc(eL, 200), pr, "")
			}
		}
		_ = e3
		return
	}
	gotFuncs := funcsByName(llcanon.Canon(got))
	for i := range shapes {
		n := fmt.Sprintf("@f%d", base+i)
		if gotFuncs[n] != refFuncs[n] {
			report(i, "api", "binding-differs/api/"+sigOf(i), "API-built function prints to something LLVM reads differently from the model text", single(i, "explicit"), gotFuncs[n]+"\n--- expected ---\n"+refFuncs[n])
		}
	}
	c.Valid(int64(len(shapes)))
	// built through the API into a module WITHOUT global variables; the addresses of the blocks
	// of every function are operands of instructions of a function printed before it.
	{
		var b strings.Builder
		b.WriteString(c08preludeNoGlobals)
		for i, s := range shapes {
			b.WriteString(c08textNoGlobals(c08text(s, fmt.Sprintf("f%d", base+i), "explicit")))
		}
		refNG, eNG, okNG, _ := fw.AsDis(b.String())
		if !okNG {
			fw.Fatalf("C08 no-globals model text rejected by LLVM: %s\n%s", eNG, fw.Trunc(b.String(), 3000))
		}
		refF := funcsByName(llcanon.Canon(refNG))
		m, env := c08newModuleNoGlobals()
		for i, s := range shapes {
			c08build(m, env, s, fmt.Sprintf("f%d", base+i))
		}
		var printed string
		if p := fw.Try(func() { printed = m.String() }); p != "" {
			c.Violation("api-print-panics/no-globals", c08case{Form: "api-no-globals", What: p})
			return
		}
		got, _, ok4, _ := fw.AsDis(printed)
		if !ok4 {
			for i, s := range shapes {
				m1, env1 := c08newModuleNoGlobals()
				c08build(m1, env1, s, "f0")
				pr := m1.String()
				if okL, eL := fw.LLVMAccepts(pr); !okL {
					report(i, "api-no-globals", "llvm-rejects-printed/api-no-globals/"+sigOf(i), "LLVM rejects the numbering printed for an API-built module without global variables: "+fw.Trunc(eL, 200), pr, "")
				}
			}
			return
		}
		gotF := funcsByName(llcanon.Canon(got))
		for i := range shapes {
			n := fmt.Sprintf("@f%d", base+i)
			if gotF[n] != refF[n] {
				report(i, "api-no-globals", "binding-differs/api-no-globals/"+sigOf(i), "API-built function (module without global variables) prints to something LLVM reads differently from the model text", c08textNoGlobals(single(i, "explicit")), gotF[n]+"\n--- expected ---\n"+refF[n])
			}
		}
		var printed2 string
		fw.Try(func() { printed2 = m.String() })
		if printed2 != printed {
			c.Violation("renumbering-changes-text/api-no-globals", c08case{Form: "api-no-globals", What: "printing the API-built module a second time gives a different text"})
		}
		c.Valid(int64(len(shapes)))
	}
}

func c08declOrDef(f *ir.Func) string {
	if len(f.Blocks) == 0 {
		return "declaration"
	}
	return "definition"
}

// c08segment returns the lines of a printed module that mention the function name.
func c08segment(printed, name string) string {
	i := strings.Index(printed, name+"(")
	if i < 0 {
		return ""
	}
	j := strings.LastIndex(printed[:i], "\n") + 1
	k := strings.Index(printed[i:], "\n}\n")
	d := strings.Index(printed[i:], "\n")
	if strings.HasPrefix(printed[j:], "declare") || k < 0 {
		return printed[j : i+d]
	}
	return printed[j : i+k+3]
}

// ---- module shapes -------------------------------------------------------------------------------

var c08modKinds = []string{"global", "alias", "ifunc", "declaration", "definition"}

type c08ent struct {
	Kind  int  `json:"kind"`
	Named bool `json:"named"`
}

func c08modText(shape []c08ent) (text string, refs []string) { return c08modTextFill(shape, 0) }

// c08filler is a group of top-level definitions that carry numbers of their OWN kinds (attribute
// group and metadata IDs, chosen different from every @N in play) and no unnamed global.
func c08filler(i int) string {
	return fmt.Sprintf("attributes #%d = { nounwind }\ndeclare void @zzfa%d() #%d\n!%d = !{i32 %d}\n!zzmd%d = !{!%d}\n", 7+i, i, 7+i, 5+i, i, i, 5+i)
}

// c08modTextFill: fill 0 = entities only; 1 = a filler group before the first entity; 2 = a filler
// group after every entity (LLVM numbers @N by counting unnamed globals only, whatever else is
// defined in between).
func c08modTextFill(shape []c08ent, fill int) (text string, refs []string) {
	var b strings.Builder
	b.WriteString("@base = global i32 0\ndefine i32 ()* @resolver() {\n  ret i32 ()* null\n}\n")
	if fill == 1 {
		b.WriteString(c08filler(0))
	}
	n := 0
	for i, e := range shape {
		if fill == 2 && i > 0 {
			b.WriteString(c08filler(i))
		}
		ref := fmt.Sprintf("@n%d", i)
		if !e.Named {
			ref = fmt.Sprintf("@%d", n)
			n++
		}
		refs = append(refs, ref)
		switch e.Kind {
		case 0:
			fmt.Fprintf(&b, "%s = global i32 %d\n", ref, i)
		case 1:
			fmt.Fprintf(&b, "%s = alias i32, i32* @base\n", ref)
		case 2:
			fmt.Fprintf(&b, "%s = ifunc i32 (), i32 ()* ()* @resolver\n", ref)
		case 3:
			fmt.Fprintf(&b, "declare void %s(i32)\n", ref)
		case 4:
			fmt.Fprintf(&b, "define i32 %s() {\n  ret i32 %d\n}\n", ref, i)
		}
	}
	// a user that references every entity, so that a wrong binding changes the module.
	b.WriteString("@users = global [" + fmt.Sprint(len(shape)) + " x i8*] [")
	for i, e := range shape {
		if i > 0 {
			b.WriteString(", ")
		}
		ty := map[int]string{0: "i32*", 1: "i32*", 2: "i32 ()*", 3: "void (i32)*", 4: "i32 ()*"}[e.Kind]
		fmt.Fprintf(&b, "i8* bitcast (%s %s to i8*)", ty, refs[i])
	}
	b.WriteString("]\n")
	return b.String(), refs
}

func c08modAPI(shape []c08ent) *ir.Module {
	m := ir.NewModule()
	base := m.NewGlobalDef("base", constant.NewInt(types.I32, 0))
	res := m.NewFunc("resolver", types.NewPointer(types.NewFunc(types.I32)))
	res.NewBlock("").NewRet(constant.NewNull(types.NewPointer(types.NewFunc(types.I32))))
	var users []constant.Constant
	for i, e := range shape {
		name := ""
		if e.Named {
			name = fmt.Sprintf("n%d", i)
		}
		var v constant.Constant
		switch e.Kind {
		case 0:
			v = m.NewGlobalDef(name, constant.NewInt(types.I32, int64(i)))
		case 1:
			v = m.NewAlias(name, base)
		case 2:
			v = m.NewIFunc(name, res)
		case 3:
			v = m.NewFunc(name, types.Void, ir.NewParam("", types.I32))
		case 4:
			f := m.NewFunc(name, types.I32)
			f.NewBlock("").NewRet(constant.NewInt(types.I32, int64(i)))
			v = f
		}
		users = append(users, constant.NewBitCast(v, types.I8Ptr))
	}
	m.NewGlobalDef("users", constant.NewArray(types.NewArray(uint64(len(shape)), types.I8Ptr), users...))
	return m
}

func c08modShapeString(shape []c08ent) []string {
	var s []string
	for _, e := range shape {
		s = append(s, map[bool]string{true: "named-", false: "unnamed-"}[e.Named]+c08modKinds[e.Kind])
	}
	return s
}

// c08modSig names the unnamed entities in textual order (declarations and definitions as "func").
func c08modSig(shape []c08ent) string {
	var s []string
	for _, e := range shape {
		if !e.Named {
			k := c08modKinds[e.Kind]
			if e.Kind >= 3 {
				k = "func"
			}
			s = append(s, k)
		}
	}
	return strings.Join(s, ",")
}

func c08module(c *fw.Check, shape []c08ent, mu *sync.Mutex, fails map[string][]c08case) {
	text, _ := c08modText(shape)
	ref, e, ok, _ := fw.AsDis(text)
	if !ok {
		fw.Fatalf("C08 module numbering model rejected by LLVM:\n%s\n%s", text, e)
	}
	add := func(kind, what, got string) {
		mu.Lock()
		fails[kind] = append(fails[kind], c08case{Shape: c08modSig(shape), Form: "module", Text: text, Got: fw.Trunc(got, 1500), What: what, Mod: c08modShapeString(shape)})
		mu.Unlock()
	}
	for fill := 0; fill <= 2; fill++ {
		ftext, fref, tag, form := text, ref, "module", "module"
		if fill > 0 {
			if len(shape) < 2 && fill == 2 {
				continue
			}
			ftext, _ = c08modTextFill(shape, fill)
			var fe string
			var fok bool
			fref, fe, fok, _ = fw.AsDis(ftext)
			if !fok {
				fw.Fatalf("C08 module numbering model (with other numbered definitions in between) rejected by LLVM:\n%s\n%s", ftext, fe)
			}
			form = "module-interleaved"
			c.Valid(1)
		}
		addF := func(kind, what, got string) {
			mu.Lock()
			fails[kind] = append(fails[kind], c08case{Shape: c08modSig(shape), Form: form, Text: ftext, Got: fw.Trunc(got, 1500), What: what, Mod: c08modShapeString(shape)})
			mu.Unlock()
		}
		m, errs, pan := parseTry(ftext)
		switch {
		case pan != "":
			addF(tag+"/parser-panics", pan, "")
		case errs != "":
			addF(tag+"/parser-rejects", errs, "")
		default:
			var printed string
			if p := fw.Try(func() { printed = m.String() }); p != "" {
				addF(tag+"/print-panics", "String() panics on a module the parser produced: "+p, "")
			} else {
				if err := m.AssignGlobalIDs(); err != nil {
					addF(tag+"/assign-not-idempotent", err.Error(), "")
				}
				got, e2, ok2, _ := fw.AsDis(printed)
				if !ok2 {
					addF(tag+"/llvm-rejects-printed", fw.Trunc(e2, 300), printed)
				} else if o1, o2 := llcanon.Diff(llcanon.Canon(fref), llcanon.Canon(got)); len(o1)+len(o2) > 0 {
					addF(tag+"/binding-differs", "LLVM reads the printed module differently", printed)
				}
			}
		}
	}
	// API-built.
	var printed string
	if p := fw.Try(func() { printed = c08modAPI(shape).String() }); p != "" {
		add("module-api/print-panics", p, "")
		return
	}
	got, e3, ok3, _ := fw.AsDis(printed)
	if !ok3 {
		add("module-api/llvm-rejects-printed", fw.Trunc(e3, 300), printed)
	} else if o1, o2 := llcanon.Diff(llcanon.Canon(ref), llcanon.Canon(got)); len(o1)+len(o2) > 0 {
		add("module-api/binding-differs", "API-built module prints to something LLVM reads differently from the model text", printed)
	}
	c.Valid(2)
}

func runC08(c *fw.Check) {
	if !fw.HaveLLVM() {
		fw.Fatalf("C08 needs llvm-as-14 (it enforces LLVM's numbering rule)")
	}
	maxP, maxB, maxI, modLen := 2, 2, 2, 3
	instKinds := []int{kValU, kValN, kVoidC, kCallU, kStore, kVoidCT}
	termKinds := []int{tBr, tInvV, tInvU, tCbrU}
	if !c.Quick() {
		modLen = 4
		instKinds = []int{kValU, kValN, kVoidC, kCallU, kCallN, kStore, kFence, kVoidCT, kVoidCV}
		termKinds = []int{tBr, tInvV, tInvU, tInvN, tCbrV, tCbrU}
		c.SetBudget(50 * 60 * 1e9)
	}
	shapes := c08shapes(maxP, 1, maxB, maxI, instKinds, termKinds)
	deep := ""
	if !c.Quick() {
		// three blocks with at most one instruction each (the full 3-block x 2-instruction space
		// has 1.5e9 shapes and is out of reach).
		shapes = append(shapes, c08shapes(maxP, 3, 3, 1, instKinds, termKinds)...)
		deep = " plus ALL 3-block shapes with <=1 instruction per block,"
	}
	c.Rule = "API-built batches are printed twice: once in a module with a global table of the block addresses of every function, once in a module WITHOUT any global variable where the addresses are instruction operands of a function listed before. " + fmt.Sprintf("ALL function shapes with <=%d params (named/unnamed), <=%d blocks (named/unnamed), <=%d instructions per block"+deep+" over %d instruction kinds and %d terminator kinds (void and non-void, named and unnamed calls, invokes, callbrs, stores, fences), each emitted with explicit numbers from an independent 20-line model of LLVM's rule (validated by llvm-as on every shape), with implicit result numbers, with implicit block labels, and built through the API; ALL 256 named/unnamed shapes of an exception-handling funclet skeleton (catchswitch is the third value-producing terminator, catchpad a value-producing instruction) in the three textual forms; ALL module shapes of length <=%d over {named,unnamed} x {global, alias, ifunc, declaration, definition}, each also with attribute-group and metadata definitions (numbers of their own) written before and between the entities. Oracle: parser accepts every spelling LLVM accepts, String() does not panic, llvm-as accepts the printed numbering and reads the same functions (llvm-dis canonical form, so every %%N/@N is bound to the right value), numbering again changes nothing. distinct = shapes x forms.", maxP, maxB, maxI, len(instKinds), len(termKinds), modLen)
	c.Extra["function_shapes"] = len(shapes)
	const batch = 150
	nb := (len(shapes) + batch - 1) / batch
	fw.ParallelFor(nb, func(i int) {
		if c.OverBudget() {
			return
		}
		lo, hi := i*batch, (i+1)*batch
		if hi > len(shapes) {
			hi = len(shapes)
		}
		c08funcBatch(c, shapes[lo:hi], lo)
		c.DistinctN(int64(4 * (hi - lo)))
	})
	if len(shapes) > 100 {
		s := shapes[len(shapes)/2]
		c.Sample(map[string]interface{}{"function_shape": s.String(), "explicit": c08text(s, "f", "explicit"), "implicit-labels": c08text(s, "f", "implicit-labels")})
	}
	c08eh(c)
	// module shapes.
	var mshapes [][]c08ent
	var rec func(cur []c08ent)
	rec = func(cur []c08ent) {
		if len(cur) > 0 {
			mshapes = append(mshapes, append([]c08ent(nil), cur...))
		}
		if len(cur) == modLen {
			return
		}
		for k := 0; k < 5; k++ {
			for _, named := range []bool{true, false} {
				rec(append(cur, c08ent{k, named}))
			}
		}
	}
	rec(nil)
	c.Extra["module_shapes"] = len(mshapes)
	var mu sync.Mutex
	fails := map[string][]c08case{}
	fw.ParallelFor(len(mshapes), func(i int) {
		if c.OverBudget() {
			return
		}
		c08module(c, mshapes[i], &mu, fails)
		c.DistinctN(2)
	})
	// report only minimal unnamed-kind sequences per failure kind.
	var kinds []string
	for k := range fails {
		kinds = append(kinds, k)
	}
	sort.Strings(kinds)
	for _, k := range kinds {
		fl := fails[k]
		sort.SliceStable(fl, func(i, j int) bool {
			if len(fl[i].Shape) != len(fl[j].Shape) {
				return len(fl[i].Shape) < len(fl[j].Shape)
			}
			return fl[i].Shape < fl[j].Shape
		})
		var minimal []string
		for _, f := range fl {
			sub := false
			for _, m := range minimal {
				if isSubseq(strings.Split(m, ","), strings.Split(f.Shape, ",")) {
					sub = true
					break
				}
			}
			if !sub {
				minimal = append(minimal, f.Shape)
				c.Violation(k+"/unnamed:"+f.Shape, f)
			}
		}
	}
	if len(mshapes) > 10 {
		t, _ := c08modText(mshapes[len(mshapes)-7])
		c.Sample(map[string]interface{}{"module_shape": c08modShapeString(mshapes[len(mshapes)-7]), "text": t})
	}
}

func isSubseq(a, b []string) bool {
	i := 0
	for _, x := range b {
		if i < len(a) && a[i] == x {
			i++
		}
	}
	return i == len(a)
}

func replayC08(c *fw.Check, path string) {
	var cs c08case
	loadReplay(path, &cs)
	fmt.Printf("replay %s (%s):\n%s\n", cs.Shape, cs.Form, cs.Text)
	if cs.Func != nil {
		c08funcBatch(c, []c08func{*cs.Func}, 0)
	} else {
		m, errs, pan := parseTry(cs.Text)
		fmt.Printf("parse: err=%q panic=%q\n", errs, pan)
		if m != nil {
			p := fw.Try(func() { fmt.Println(m.String()) })
			if p != "" {
				c.Violation("module/print-panics/replay", cs)
			}
		}
	}
	c.Case("a", "a")
	c.Case("b", "b")
}
