package props

import (
	"fmt"
	"regexp"
	"sort"
	"strings"

	"github.com/llir/llvm/ir"
	"github.com/llir/llvm/ir/metadata"

	"verif/fw"
)

// Named metadata whose NAME reads as a number next to numbered nodes: `!\30 = !{!0}` is named
// metadata "0", `!0 = !{}` is node 0. Every subset of <=2 names of a set of digit-leading and
// ordinary names is defined (through the API and as text) in a module with 1 or 3 numbered nodes; in
// the printed module every numbered definition must have a unique ID, no named definition may be
// printed as a number, and the re-parsed module (and the module LLVM prints back) must hold exactly
// the same named definitions with the same operands and the same number of numbered nodes.
var reC17def = regexp.MustCompile(`(?m)^!([^ ]+) = `)

func c17names(c *fw.Check) {
	names := []string{"0", "1", "2", "7", "00", "10", "1x", "x", "0.5", "-1"}
	type cse struct {
		Names []string `json:"names"`
		Nodes int      `json:"numbered_nodes"`
		Via   string   `json:"via"`
		Text  string   `json:"text,omitempty"`
		What  string   `json:"what"`
	}
	var subsets [][]string
	for i := range names {
		subsets = append(subsets, []string{names[i]})
		for j := i + 1; j < len(names); j++ {
			subsets = append(subsets, []string{names[i], names[j]})
		}
	}
	esc := func(n string) string {
		// LLVM's spelling of a metadata name: a leading digit (and any odd byte) is escaped.
		var b strings.Builder
		for i := 0; i < len(n); i++ {
			ch := n[i]
			ok := ch >= 'a' && ch <= 'z' || ch >= 'A' && ch <= 'Z' || ch == '$' || ch == '.' || ch == '_' || ch == '-' || (i > 0 && ch >= '0' && ch <= '9')
			if ok {
				b.WriteByte(ch)
			} else {
				fmt.Fprintf(&b, "\\%02X", ch)
			}
		}
		return b.String()
	}
	type shape struct {
		names map[string]string // name -> operand list
		nodes int
	}
	read := func(m *ir.Module) shape {
		s := shape{names: map[string]string{}, nodes: len(m.MetadataDefs)}
		for n, d := range m.NamedMetadataDefs {
			var ops []string
			for _, x := range d.Nodes {
				if def, ok := x.(metadata.Definition); ok {
					ops = append(ops, fmt.Sprint(def.ID()))
				} else {
					ops = append(ops, "?")
				}
			}
			s.names[n] = strings.Join(ops, ",")
		}
		return s
	}
	show := func(s shape) string {
		var ks []string
		for k, v := range s.names {
			ks = append(ks, fmt.Sprintf("%q->[%s]", k, v))
		}
		sort.Strings(ks)
		return fmt.Sprintf("%d nodes; %s", s.nodes, strings.Join(ks, " "))
	}
	type job struct {
		sub []string
		nn  int
		via string
	}
	var jobs []job
	for _, sub := range subsets {
		for _, nn := range []int{1, 3} {
			for _, via := range []string{"api", "text"} {
				jobs = append(jobs, job{sub, nn, via})
			}
		}
	}
	total := len(jobs)
	fw.ParallelFor(len(jobs), func(ji int) {
		sub, nn, via := jobs[ji].sub, jobs[ji].nn, jobs[ji].via
		{
			{
				cs := cse{Names: sub, Nodes: nn, Via: via}
				var m *ir.Module
				if via == "api" {
					m = ir.NewModule()
					var defs []metadata.Definition
					for k := 0; k < nn; k++ {
						defs = append(defs, &metadata.Tuple{MetadataID: -1, Fields: []metadata.Field{&metadata.String{Value: fmt.Sprintf("n%d", k)}}})
					}
					m.MetadataDefs = append(m.MetadataDefs, defs...)
					for k, n := range sub {
						m.NamedMetadataDefs[n] = &metadata.NamedDef{Name: n, Nodes: []metadata.Node{defs[k%nn].(metadata.Node), defs[nn-1].(metadata.Node)}}
					}
					// (LLVM drops numbered nodes nothing refers to: one definition keeps them all)
					keep := &metadata.NamedDef{Name: "zzkeep"}
					for _, d := range defs {
						keep.Nodes = append(keep.Nodes, d.(metadata.Node))
					}
					m.NamedMetadataDefs["zzkeep"] = keep
				} else {
					var b strings.Builder
					for k, n := range sub {
						fmt.Fprintf(&b, "!%s = !{!%d, !%d}\n", esc(n), k%nn, nn-1)
					}
					var all []string
					for k := 0; k < nn; k++ {
						fmt.Fprintf(&b, "!%d = !{!\"n%d\"}\n", k, k)
						all = append(all, fmt.Sprintf("!%d", k))
					}
					fmt.Fprintf(&b, "!zzkeep = !{%s}\n", strings.Join(all, ", "))
					cs.Text = b.String()
					if fw.HaveLLVM() {
						if ok, e := fw.LLVMAccepts(cs.Text); !ok {
							fw.Fatalf("C17 digit-name module is not valid LLVM: %s\n%s", e, cs.Text)
						}
					}
					var errs, pan string
					m, errs, pan = parseTry(cs.Text)
					if errs != "" || pan != "" {
						cs.What = "the parser rejects named metadata whose name reads as a number: " + fw.Trunc(errs+pan, 300)
						c.Violation("names/parse-fails", cs)
						return
					}
				}
				want := read(m)
				if via == "text" {
					// what the text says.
					w := shape{names: map[string]string{}, nodes: nn}
					for k, n := range sub {
						w.names[n] = fmt.Sprintf("%d,%d", k%nn, nn-1)
					}
					var all []string
					for k := 0; k < nn; k++ {
						all = append(all, fmt.Sprint(k))
					}
					w.names["zzkeep"] = strings.Join(all, ",")
					if show(w) != show(want) {
						cs.What = "the parsed module does not hold the named definitions of the text: " + show(want) + " (want " + show(w) + ")"
						c.Violation("names/parsed-differs", cs)
						return
					}
				}
				var printed string
				if p := fw.Try(func() { printed = m.String() }); p != "" {
					cs.What = "printing panics: " + p
					c.Violation("names/print-panics", cs)
					return
				}
				want = read(m) // IDs are assigned by printing
				cs.Text = printed
				c.Case(fmt.Sprintf("names|%v|%d|%s", sub, nn, via), printed)
				// every printed definition head: numbers unique, and exactly nn of them.
				seen := map[string]int{}
				numbered := 0
				for _, d := range reC17def.FindAllStringSubmatch(printed, -1) {
					seen[d[1]]++
					allDigits := true
					for i := 0; i < len(d[1]); i++ {
						if d[1][i] < '0' || d[1][i] > '9' {
							allDigits = false
						}
					}
					if allDigits {
						numbered++
					}
				}
				bad := ""
				for k, v := range seen {
					if v > 1 {
						bad = "!" + k + " is defined " + fmt.Sprint(v) + " times in the printed module"
					}
				}
				if bad == "" && numbered != nn {
					bad = fmt.Sprintf("the printed module has %d numbered metadata definitions, the module has %d (a name printed as a number?)", numbered, nn)
				}
				if bad != "" {
					cs.What = bad
					c.Violation("names/printed-ids", cs)
					return
				}
				m2, e2, p2 := parseTry(printed)
				if e2 != "" || p2 != "" {
					cs.What = "the library cannot read the module it printed: " + fw.Trunc(e2+p2, 300)
					c.Violation("names/reparse-fails", cs)
					return
				}
				if got := read(m2); show(got) != show(want) {
					cs.What = "after print and parse: " + show(got) + " (want " + show(want) + ")"
					c.Violation("names/reparse-differs", cs)
					return
				}
				if fw.HaveLLVM() {
					out, e, ok, _ := fw.AsDis(printed)
					if !ok {
						cs.What = "LLVM rejects the printed module: " + fw.Trunc(e, 300)
						c.Violation("names/llvm-rejects", cs)
						return
					}
					if m3, e3, p3 := parseTry(out); e3 == "" && p3 == "" {
						got := read(m3)
						// LLVM renumbers nodes: compare names and node count only.
						var a, b []string
						for k := range got.names {
							a = append(a, k)
						}
						for k := range want.names {
							b = append(b, k)
						}
						sort.Strings(a)
						sort.Strings(b)
						if strings.Join(a, "|") != strings.Join(b, "|") || got.nodes != want.nodes {
							cs.What = fmt.Sprintf("LLVM reads named definitions %q and %d nodes from the printed module (want %q, %d)", a, got.nodes, b, want.nodes)
							c.Violation("names/llvm-reads-differently", cs)
							return
						}
					}
				}
				c.Valid(1)
			}
		}
	})
	c.DistinctN(int64(total))
	c.Extra["number_like_named_metadata_cases"] = total
}

// c17replace: metadata IDs are assigned by EVERY print from the module as it is then. A module with
// 3 definitions (unnumbered, dense or sparse explicit IDs) and a named definition listing them is
// printed, then definition k is replaced by a fresh unnumbered node (the NUMBER of definitions
// stays the same), or removed and another appended, and printed again: every definition of the
// second print has a unique ID, every reference names a defined ID, the module re-parses, and the
// new node is listed where the old one was.
func c17replace(c *fw.Check) {
	type cse struct {
		IDs  []int64 `json:"ids_before"`
		K    int     `json:"replaced"`
		Edit string  `json:"edit"`
		Text string  `json:"second_print"`
		What string  `json:"what"`
	}
	idSets := [][]int64{{-1, -1, -1}, {0, 1, 2}, {3, 7, 9}, {-1, 5, -1}, {2, -1, 0}}
	n := 0
	for _, ids := range idSets {
		for k := 0; k < 3; k++ {
			for _, edit := range []string{"replace-in-place", "remove-and-append"} {
				n++
				m := ir.NewModule()
				var defs []metadata.Definition
				for i, id := range ids {
					defs = append(defs, &metadata.Tuple{MetadataID: metadata.MetadataID(id), Fields: []metadata.Field{&metadata.String{Value: fmt.Sprintf("n%d", i)}}})
				}
				m.MetadataDefs = append(m.MetadataDefs, defs...)
				nm := &metadata.NamedDef{Name: "all"}
				for _, d := range defs {
					nm.Nodes = append(nm.Nodes, d.(metadata.Node))
				}
				m.NamedMetadataDefs["all"] = nm
				cs := cse{IDs: ids, K: k, Edit: edit}
				var second string
				p := fw.Try(func() {
					_ = m.String()
					fresh := &metadata.Tuple{MetadataID: -1, Fields: []metadata.Field{&metadata.String{Value: "fresh"}}}
					if edit == "replace-in-place" {
						m.MetadataDefs[k] = fresh
					} else {
						m.MetadataDefs = append(append(append([]metadata.Definition(nil), m.MetadataDefs[:k]...), m.MetadataDefs[k+1:]...), fresh)
					}
					nm.Nodes[k] = fresh
					second = m.String()
				})
				if p != "" {
					cs.What = "print / replace a definition / print panics: " + p
					c.Violation("replace-between-prints/panics/"+edit, cs)
					continue
				}
				cs.Text = second
				c.Case(fmt.Sprintf("replace|%v|%d|%s", ids, k, edit), second)
				seen := map[string]int{}
				for _, d := range reC17def.FindAllStringSubmatch(second, -1) {
					seen[d[1]]++
				}
				bad := ""
				for id, cnt := range seen {
					if cnt > 1 {
						bad = "!" + id + " is defined " + fmt.Sprint(cnt) + " times"
					}
				}
				if len(seen) != 4 && bad == "" { // three numbered definitions + !all
					bad = fmt.Sprintf("%d definition heads in the second print, want 4 (a definition without an ID?)", len(seen))
				}
				for _, r := range reMDRef.FindAllStringSubmatch(stripStrings(second), -1) {
					if seen[r[1]] == 0 && bad == "" {
						bad = "reference !" + r[1] + " names no definition"
					}
				}
				if bad == "" {
					if m2, e2, p2 := parseTry(second); e2 != "" || p2 != "" {
						bad = "the second print does not re-parse: " + fw.Trunc(e2+p2, 200)
					} else if d, ok := m2.NamedMetadataDefs["all"]; !ok || len(d.Nodes) != 3 {
						bad = "named metadata lost operands"
					} else if t, ok := d.Nodes[k].(*metadata.Tuple); !ok || len(t.Fields) != 1 || fmt.Sprint(t.Fields[0]) != `!"fresh"` {
						bad = "operand " + fmt.Sprint(k) + " of !all is not the new node after re-parse"
					}
				}
				if bad != "" {
					cs.What = bad
					c.Violation("replace-between-prints/"+edit, cs)
					continue
				}
				c.Valid(1)
			}
		}
	}
	c.DistinctN(int64(n))
	c.Extra["replace_between_prints_cases"] = n
}
