package props

import (
	"bytes"
	"fmt"
	"os/exec"
	"regexp"
	"sort"
	"strings"
	"sync"

	"github.com/llir/llvm/asm"
	"github.com/llir/llvm/ir"

	"verif/fw"
	"verif/gen"
	"verif/llcanon"
)

func init() { Registry["C01"] = Prop{Run: runC01, Replay: replayC01} }

type genCase struct {
	Entry   string   `json:"entry"`
	Devs    []string `json:"deviations"`
	Choices []int    `json:"choices"`
	Input   string   `json:"input,omitempty"`
	Printed string   `json:"printed,omitempty"`
	What    string   `json:"what"`
	Detail  string   `json:"detail,omitempty"`
	// Combo lists the variants of a failure that needs several of them in one module.
	Combo []genCase `json:"combination,omitempty"`
}

// variantsOfCase rebuilds the variant(s) of a replay file from the current catalogue.
func variantsOfCase(cs genCase) []gen.Variant {
	parts := cs.Combo
	if len(parts) == 0 {
		parts = []genCase{cs}
	}
	var out []gen.Variant
	for k, p := range parts {
		for i, e := range gen.Catalogue() {
			if e.Name == p.Entry {
				out = append(out, gen.Build(e, fmt.Sprintf("replay%d_", k), 10000000*(i+1)+16*k, p.Choices))
			}
		}
	}
	return out
}

// failure of one variant.
type genFail struct {
	v    gen.Variant
	kind string // llir-rejects llir-panics print-panics llvm-rejects-printed meaning-changed ...
	cs   genCase
}

type failSet struct {
	mu    sync.Mutex
	fails []genFail
}

func (fs *failSet) add(v gen.Variant, kind, what, detail, printed string) {
	fs.mu.Lock()
	defer fs.mu.Unlock()
	fs.fails = append(fs.fails, genFail{v, kind, genCase{Entry: v.Entry, Devs: v.Devs, Choices: v.Choices, Input: fw.Trunc(gen.Module([]gen.Variant{v}), 3000), Printed: fw.Trunc(printed, 3000), What: what, Detail: fw.Trunc(detail, 2000)}})
}

// addCombo records a failure of several variants together.
func (fs *failSet) addCombo(vs []gen.Variant, kind, what, detail, printed string) {
	var names []string
	var parts []genCase
	for _, v := range vs {
		d := "default"
		if len(v.Devs) > 0 {
			d = strings.Join(v.Devs, ",")
		}
		names = append(names, v.Entry+"["+d+"]")
		parts = append(parts, genCase{Entry: v.Entry, Devs: v.Devs, Choices: v.Choices})
	}
	pv := gen.Variant{Entry: "combination:" + strings.Join(names, "+")}
	fs.mu.Lock()
	defer fs.mu.Unlock()
	fs.fails = append(fs.fails, genFail{pv, kind, genCase{Entry: pv.Entry, Combo: parts, Input: fw.Trunc(gen.Module(vs), 6000), Printed: fw.Trunc(printed, 3000), What: what + " (only when these variants are in one module)", Detail: fw.Trunc(detail, 2000)}})
}

// report emits one violation per MINIMAL failing deviation set (a failing variant whose deviation
// set has a failing proper subset of the same kind is explained by it).
func (fs *failSet) report(c *fw.Check) {
	byEntry := map[string][]genFail{}
	for _, f := range fs.fails {
		byEntry[f.v.Entry+"\x00"+f.kind] = append(byEntry[f.v.Entry+"\x00"+f.kind], f)
	}
	var keys []string
	for k := range byEntry {
		keys = append(keys, k)
	}
	sort.Strings(keys)
	for _, k := range keys {
		fl := byEntry[k]
		sort.SliceStable(fl, func(i, j int) bool { return len(fl[i].v.Devs) < len(fl[j].v.Devs) })
		var minimal []genFail
		for _, f := range fl {
			sub := false
			for _, m := range minimal {
				if subset(m.v.Devs, f.v.Devs) {
					sub = true
					break
				}
			}
			if !sub {
				minimal = append(minimal, f)
			}
		}
		for _, f := range minimal {
			d := "default"
			if len(f.v.Devs) > 0 {
				d = strings.Join(f.v.Devs, ",")
			}
			c.Violation(f.kind+"/"+f.v.Entry+"/"+d, f.cs)
		}
	}
}

func subset(a, b []string) bool {
	m := map[string]bool{}
	for _, x := range b {
		m[x] = true
	}
	for _, x := range a {
		if !m[x] {
			return false
		}
	}
	return true
}

func parseTry(text string) (m *ir.Module, errs string, panicked string) {
	var err error
	panicked = fw.Try(func() { m, err = asm.ParseString("gen.ll", text) })
	if err != nil {
		errs = err.Error()
	}
	return
}

// variantsOf attributes differing canonical entities to variants by their name prefix.
func variantsOf(vs []gen.Variant, ents []llcanon.Entity) map[int]string {
	out := map[int]string{}
	for _, e := range ents {
		hit := false
		for i, v := range vs {
			if strings.Contains(e.Text, v.Frag.P) || idInRange(e.Text, v.Frag.MDBase) {
				out[i] += e.Text + "\n"
				hit = true
			}
		}
		if !hit {
			out[-1] += e.Text + "\n"
		}
	}
	return out
}

func idInRange(text string, base int) bool {
	if base == 0 {
		return false
	}
	for k := 0; k < 16; k++ {
		if strings.Contains(text, fmt.Sprintf("!%d", base+k)) || strings.Contains(text, fmt.Sprintf("#%d", base+k)) {
			return true
		}
	}
	return false
}

// c01test checks one module made of LLVM-valid variants.
func c01test(vs []gen.Variant) (kind, what, detail, printed string) {
	x := gen.Module(vs)
	if len(vs) > 1 {
		// the union of variants LLVM accepts one by one need not be accepted as one module.
		if ok, _ := fw.LLVMAccepts(x); !ok {
			return "split", "", "", ""
		}
	}
	m, errs, pan := parseTry(x)
	if pan != "" {
		return "llir-parse-panics", "asm.ParseString panics on a module LLVM accepts", pan, ""
	}
	if errs != "" {
		return "llir-rejects", "asm.ParseString rejects a module LLVM accepts", errs, ""
	}
	var y string
	if p := fw.Try(func() { y = m.String() }); p != "" {
		return "print-panics", "String() panics on a module the parser produced", p, ""
	}
	dy, ey, oky, _ := fw.AsDis(y)
	if !oky {
		if fw.IsToolCrash(ey) {
			if len(vs) > 1 {
				return "split", "", "", "" // find the variants the oracle can read
			}
			return "", "", "", "" // the oracle crashed (LLVM defect): case skipped, counted in evidence
		}
		return "llvm-rejects-printed", "LLVM rejects the printed module", ey, y
	}
	dx, _, okx, warned := fw.AsDis(x)
	if !okx || warned {
		if len(vs) > 1 {
			return "split", "", "", ""
		}
		return "", "", "", "" // generator defect (should have been filtered): skip.
	}
	if dx == dy {
		return "", "", "", ""
	}
	cx, cy := llcanon.Canon(dx), llcanon.Canon(dy)
	onlyX, onlyY := llcanon.Diff(cx, cy)
	if len(onlyX) == 0 && len(onlyY) == 0 {
		return "", "", "", ""
	}
	var sx, sy []string
	for _, e := range onlyX {
		sx = append(sx, e.Text)
	}
	for _, e := range onlyY {
		sy = append(sy, e.Text)
	}
	return "meaning-changed", "LLVM's reading of the printed module differs from its reading of the input", "input (canonical, differing entities):\n" + strings.Join(sx, "\n") + "\nprinted (canonical, differing entities):\n" + strings.Join(sy, "\n"), y
}

// c01process checks a batch of LLVM-valid variants; failures are narrowed to single variants, or
// to a smallest failing combination when no single variant fails on its own.
func c01process(c *fw.Check, fs *failSet, vs []gen.Variant) {
	c.Valid(int64(len(vs)))
	bisect(fs, vs, c01test)
}

func runC01(c *fw.Check) {
	if !fw.HaveLLVM() {
		fw.Fatalf("C01 needs llvm-as-14/llvm-dis-14 as reference oracle")
	}
	bound := 2
	if !c.Quick() {
		bound = 3
		c.SetBudget(45 * 60 * 1e9)
	}
	entries := gen.Catalogue()
	c.Rule = fmt.Sprintf("independent text generator: a catalogue of %d grammar productions (instructions, terminators, calls, constants and constant expressions, types, globals, function headers, attributes, comdats, aliases/ifuncs, inline asm, operand bundles, metadata) with typed holes over a type universe; EVERY variant with <=%d departures from the simplest form is generated, validated by llvm-as (rejected = generator defect, skipped and counted), parsed and printed by the library, and LLVM's canonical reading (llvm-as|llvm-dis; top-level order, attribute-group and metadata numbering normalised) of input and output compared; failures are bisected to single variants and reported per minimal deviation set (or as the smallest failing combination); thorough adds all two-variant modules (pairs of productions, pairs of <=1-deviation variants of one production, twins). distinct = distinct generated variants.", len(entries), bound)
	all, batches := genBatches(entries, bound, 60)
	c.Extra["catalogue_entries"] = len(entries)
	c.Extra["variants"] = len(all)
	c.Extra["deviation_bound"] = bound
	fs := &failSet{}
	var mu sync.Mutex
	invalid := 0
	kinds := map[string]bool{}
	fw.ParallelFor(len(batches), func(i int) {
		if c.OverBudget() {
			return
		}
		var usable []gen.Variant
		for _, v := range batches[i] {
			if !v.NoLLVM {
				usable = append(usable, v)
			}
		}
		good := llvmFilter(usable, func(v gen.Variant, msg string) {
			mu.Lock()
			invalid++
			if invalid <= 5 {
				c.Extra[fmt.Sprintf("invalid_generated_%d", invalid)] = v.Entry + " " + strings.Join(v.Devs, ",") + ": " + fw.Trunc(msg, 200)
			}
			mu.Unlock()
		})
		c01process(c, fs, good)
		mu.Lock()
		for _, v := range good {
			for _, k := range v.Frag.Kinds {
				kinds[k] = true
			}
		}
		mu.Unlock()
		for _, v := range good {
			c.Case(v.Entry+"|"+fmt.Sprint(v.Choices), "")
		}
	})
	if !c.Quick() {
		// two-variant modules (thorough): every pair of productions (one order), every ordered
		// pair of <=1-deviation variants of one production, twins.
		pairs := genPairs(entries, false)
		c.Extra["pair_modules"] = len(pairs)
		fw.ParallelFor(len(pairs), func(i int) {
			if c.OverBudget() {
				return
			}
			for _, v := range pairs[i] {
				if v.NoLLVM {
					return
				}
			}
			if ok, _ := fw.LLVMAccepts(gen.Module(pairs[i])); !ok {
				mu.Lock()
				invalid++
				mu.Unlock()
				return
			}
			c.Valid(1)
			bisect(fs, pairs[i], c01test)
			c.Case("pair|"+pairs[i][0].Entry+fmt.Sprint(pairs[i][0].Choices)+"|"+pairs[i][1].Entry+fmt.Sprint(pairs[i][1].Choices), "")
		})
	}
	c.Invalid = int64(invalid)
	fs.report(c)
	var ks []string
	for k := range kinds {
		ks = append(ks, k)
	}
	sort.Strings(ks)
	c.Extra["library_kinds_covered"] = len(ks)
	c.Extra["llvm_tool_crashes_skipped"] = fw.ToolCrashes
	var missing []string
	for _, k := range append(append(append([]KindInfo(nil), InstKinds...), TermKinds...), ExprKinds...) {
		if !kinds[k.Name] {
			missing = append(missing, k.Name)
		}
	}
	c.Extra["library_kinds_not_in_catalogue"] = missing
	if c.Quick() {
		c01stress(c, 25, []int{40})
	} else {
		c01stress(c, 300, []int{40, 200})
	}
	if len(all) > 0 {
		c.Sample(map[string]interface{}{"entry": all[len(all)/2].Entry, "deviations": all[len(all)/2].Devs, "module": gen.Module([]gen.Variant{all[len(all)/2]})})
		c.Sample(map[string]interface{}{"entry": all[len(all)-1].Entry, "deviations": all[len(all)-1].Devs, "module": gen.Module([]gen.Variant{all[len(all)-1]})})
	}
}

var reNaNLit = regexp.MustCompile(`0x[7F]FF[0-9A-F]{13}|0xH[7F][C-F][0-9A-F]{2}`)

// c01stress is the supplementary (non-deciding) corpus: llvm-stress programs for a fixed range of
// seeds and their opt-transformed variants, through the same oracle.
func c01stress(c *fw.Check, seeds int, sizes []int) {
	if _, err := exec.LookPath("llvm-stress-14"); err != nil {
		c.Extra["stress_corpus"] = "llvm-stress-14 not installed"
		return
	}
	type job struct {
		seed, size int
		pass       string
	}
	var jobs []job
	for s := 0; s < seeds; s++ {
		for _, sz := range sizes {
			for _, pass := range []string{"", "-mem2reg", "-instcombine", "-O1"} {
				jobs = append(jobs, job{s, sz, pass})
			}
		}
	}
	var mu sync.Mutex
	ok, skipped := 0, 0
	fw.ParallelFor(len(jobs), func(i int) {
		j := jobs[i]
		gen := exec.Command("llvm-stress-14", "-seed", fmt.Sprint(j.seed), "-size", fmt.Sprint(j.size), "-o", "-")
		var out bytes.Buffer
		gen.Stdout = &out
		if gen.Run() != nil {
			return
		}
		x := out.String()
		if j.pass != "" {
			o := exec.Command("opt-14", "-S", j.pass, "-o", "-", "-")
			o.Stdin = strings.NewReader(x)
			var oo bytes.Buffer
			o.Stdout = &oo
			if o.Run() != nil {
				return
			}
			x = oo.String()
		}
		name := fmt.Sprintf("llvm-stress seed=%d size=%d %s", j.seed, j.size, j.pass)
		rep := func(kind, what, detail, printed string) {
			c.Violation("stress/"+kind, genCase{Entry: name, Input: fw.Trunc(x, 4000), Printed: fw.Trunc(printed, 2000), What: what, Detail: fw.Trunc(detail, 1500)})
		}
		m, errs, pan := parseTry(x)
		if pan != "" {
			rep("llir-parse-panics", "parser panics on an llvm-stress program", pan, "")
			return
		}
		if errs != "" {
			rep("llir-rejects", "parser rejects an llvm-stress program", errs, "")
			return
		}
		var y string
		if p := fw.Try(func() { y = m.String() }); p != "" {
			rep("print-panics", "String() panics", p, "")
			return
		}
		dy, ey, oky, _ := fw.AsDis(y)
		dx, _, okx, _ := fw.AsDis(x)
		if !okx {
			mu.Lock()
			skipped++
			mu.Unlock()
			return
		}
		if !oky {
			if !fw.IsToolCrash(ey) {
				rep("llvm-rejects-printed", "LLVM rejects the printed module", ey, y)
			}
			return
		}
		if dx != dy {
			a, b := llcanon.Diff(llcanon.Canon(dx), llcanon.Canon(dy))
			if len(a)+len(b) > 0 {
				var sa, sb []string
				for _, e := range a {
					sa = append(sa, e.Text)
				}
				for _, e := range b {
					sb = append(sb, e.Text)
				}
				kind := "meaning-changed"
				if reNaNLit.ReplaceAllString(strings.Join(sa, "\n"), "NAN") == reNaNLit.ReplaceAllString(strings.Join(sb, "\n"), "NAN") {
					kind = "meaning-changed/nan-payload-only" // the C10 representation finding (NaN payload / quiet bit)
				}
				rep(kind, "LLVM reads the printed module differently", "input:\n"+strings.Join(sa, "\n")+"\nprinted:\n"+strings.Join(sb, "\n"), y)
				return
			}
		}
		mu.Lock()
		ok++
		mu.Unlock()
	})
	c.Extra["stress_corpus_programs"] = len(jobs)
	c.Extra["stress_corpus_agree"] = ok
	c.Extra["stress_corpus_skipped"] = skipped
	c.Valid(int64(ok))
}

func replayC01(c *fw.Check, path string) {
	var cs genCase
	loadReplay(path, &cs)
	if vs := variantsOfCase(cs); len(vs) > 0 {
		fmt.Printf("replay %s:\n%s\n", cs.Entry, gen.Module(vs))
		fs := &failSet{}
		c01process(c, fs, vs)
		fs.report(c)
	}
	c.Case("a", "a")
	c.Case("b", "b")
}
