package props

import (
	"fmt"
	"regexp"
	"strings"

	"github.com/llir/llvm/ir"
	"github.com/llir/llvm/ir/constant"
	"github.com/llir/llvm/ir/types"

	"verif/fw"
	"verif/llcanon"
)

// c08ehBuild constructs the funclet through the public API (unnamed values left unnamed).
func c08ehBuild(s c08ehShape) *ir.Module {
	m := ir.NewModule()
	vf := m.NewFunc("vf", types.Void)
	pers := m.NewFunc("__CxxFrameHandler3", types.I32)
	pers.Sig.Variadic = true
	nm := func(named bool, name string) string {
		if named {
			return name
		}
		return ""
	}
	p := ir.NewParam(nm(s.Param, "p"), types.I32)
	f := m.NewFunc("f", types.I32, p)
	f.Personality = constant.NewBitCast(pers, types.I8Ptr)
	entry := f.NewBlock(nm(s.Entry, "e"))
	csb := f.NewBlock(nm(s.CSBlock, "csb"))
	hb := f.NewBlock(nm(s.HBlock, "hb"))
	okb := f.NewBlock(nm(s.OKBlock, "okb"))
	entry.NewInvoke(vf, nil, okb, csb)
	cs := csb.NewCatchSwitch(constant.None, []*ir.Block{hb}, nil)
	cs.SetName(nm(s.CS, "cs"))
	pad := hb.NewCatchPad(cs, constant.NewNull(types.I8Ptr), constant.NewInt(types.I32, 64), constant.NewNull(types.I8Ptr))
	pad.SetName(nm(s.Pad, "pad"))
	hb.NewCatchRet(pad, okb)
	a := okb.NewAdd(p, constant.NewInt(types.I32, 1))
	a.SetName(nm(s.Add, "a"))
	okb.NewRet(a)
	return m
}

// c08ehAPI: every funclet shape built through the API must print to what LLVM reads like the model.
func c08ehAPI(c *fw.Check, id string) {
	fw.ParallelFor(256, func(mk int) {
		s := c08ehShape{mk&1 != 0, mk&2 != 0, mk&4 != 0, mk&8 != 0, mk&16 != 0, mk&32 != 0, mk&64 != 0, mk&128 != 0}
		cs := c08case{Shape: "eh-funclet " + s.String(), Form: "api"}
		var printed string
		if p := fw.Try(func() { printed = c08ehBuild(s).String() }); p != "" {
			cs.What = "building or printing the funclet through the API panics: " + p
			c.Violation("eh-funclet/api-panics/"+s.String(), cs)
			return
		}
		cs.Text = printed
		c.Case("eh-api|"+s.String(), printed)
		if _, errs, pan := parseTry(printed); errs != "" || pan != "" {
			cs.What = "the library does not read the funclet it printed: " + fw.Trunc(errs+pan, 300)
			c.Violation("eh-funclet/api-reparse-fails/"+s.String(), cs)
			return
		}
		if !fw.HaveLLVM() {
			return
		}
		ref, e, ok, _ := fw.AsDis(c08ehText(s, "explicit"))
		if !ok {
			fw.Fatalf("%s funclet numbering model rejected by LLVM: %s", id, e)
		}
		got, e2, ok2, _ := fw.AsDis(printed)
		if !ok2 {
			cs.What = "LLVM rejects the numbering printed for an API-built funclet: " + fw.Trunc(e2, 300)
			c.Violation("eh-funclet/api-llvm-rejects-printed/"+s.String(), cs)
			return
		}
		if o1, o2 := llcanon.Diff(llcanon.Canon(ref), llcanon.Canon(got)); len(o1)+len(o2) > 0 {
			cs.What = "LLVM reads the API-built funclet differently from the model text"
			c.Violation("eh-funclet/api-binding-differs/"+s.String(), cs)
			return
		}
		c.Valid(1)
	})
	c.Extra["eh_funclet_shapes_api_built"] = 256
}

// Exception-handling funclets: catchswitch is the third value-producing TERMINATOR (a token) next
// to invoke and callbr, catchpad/cleanuppad are value-producing instructions. All 2^8 shapes of a
// fixed funclet skeleton (parameter, the four blocks, catchswitch, catchpad and a trailing add each
// named or unnamed) are written with explicit numbers (the model; llvm-as enforces it), with
// implicit result numbers and with implicit labels.
type c08ehShape struct {
	Param, Entry, CSBlock, CS, HBlock, Pad, OKBlock, Add bool // true = named
}

func (s c08ehShape) String() string {
	var parts []string
	for _, x := range []struct {
		n string
		b bool
	}{{"param", s.Param}, {"entry", s.Entry}, {"cs-block", s.CSBlock}, {"catchswitch", s.CS}, {"handler-block", s.HBlock}, {"catchpad", s.Pad}, {"ok-block", s.OKBlock}, {"add", s.Add}} {
		if !x.b {
			parts = append(parts, x.n)
		}
	}
	return "unnamed:" + strings.Join(parts, ",")
}

func c08ehText(s c08ehShape, form string) string {
	n := 0
	num := func(named bool, name string) string {
		if named {
			return name
		}
		n++
		return fmt.Sprint(n - 1)
	}
	param := num(s.Param, "p")
	entry := num(s.Entry, "e")
	csb := num(s.CSBlock, "csb")
	cs := num(s.CS, "cs")
	hb := num(s.HBlock, "hb")
	pad := num(s.Pad, "pad")
	okb := num(s.OKBlock, "okb")
	add := num(s.Add, "a")
	isNum := func(x string) bool { return x[0] >= '0' && x[0] <= '9' }
	def := func(x string) string {
		if form != "explicit" && isNum(x) {
			return ""
		}
		return "%" + x + " = "
	}
	label := func(x string, first bool) string {
		if isNum(x) && (form == "implicit-labels" || (first && form != "explicit")) {
			return ""
		}
		return x + ":\n"
	}
	p := "i32 %" + param
	if form != "explicit" && isNum(param) {
		p = "i32"
	}
	var b strings.Builder
	fmt.Fprintf(&b, "define i32 @f(%s) personality i8* bitcast (i32 (...)* @__CxxFrameHandler3 to i8*) {\n", p)
	b.WriteString(label(entry, true))
	fmt.Fprintf(&b, "  invoke void @vf() to label %%%s unwind label %%%s\n", okb, csb)
	b.WriteString(label(csb, false))
	fmt.Fprintf(&b, "  %scatchswitch within none [label %%%s] unwind to caller\n", def(cs), hb)
	b.WriteString(label(hb, false))
	fmt.Fprintf(&b, "  %scatchpad within %%%s [i8* null, i32 64, i8* null]\n", def(pad), cs)
	fmt.Fprintf(&b, "  catchret from %%%s to label %%%s\n", pad, okb)
	b.WriteString(label(okb, false))
	fmt.Fprintf(&b, "  %sadd i32 %%%s, 1\n", def(add), param)
	fmt.Fprintf(&b, "  ret i32 %%%s\n}\n", add)
	return "declare void @vf()\ndeclare i32 @__CxxFrameHandler3(...)\n" + b.String()
}

// c08ehNested: funclets nested in an UNNAMED parent pad (`cleanuppad within %3`, `catchswitch within
// %3`): the parent reference is a fourth kind of use of an unnamed token. Explicit numbering (the
// LLVM-validated model), implicit result numbers, implicit labels, leading zeros.
const c08ehNestedText = `declare i32 @__CxxFrameHandler3(...)
declare void @vf()
define void @f() personality i8* bitcast (i32 (...)* @__CxxFrameHandler3 to i8*) {
  invoke void @vf() to label %1 unwind label %2
1:
  ret void
2:
  %3 = cleanuppad within none []
  invoke void @vf() [ "funclet"(token %3) ] to label %4 unwind label %5
4:
  cleanupret from %3 unwind to caller
5:
  %6 = cleanuppad within %3 []
  cleanupret from %6 unwind to caller
}
define void @g() personality i8* bitcast (i32 (...)* @__CxxFrameHandler3 to i8*) {
  invoke void @vf() to label %1 unwind label %2
1:
  ret void
2:
  %3 = cleanuppad within none []
  invoke void @vf() [ "funclet"(token %3) ] to label %4 unwind label %5
4:
  cleanupret from %3 unwind to caller
5:
  %6 = catchswitch within %3 [label %7] unwind to caller
7:
  %8 = catchpad within %6 [i8* null, i32 64, i8* null]
  catchret from %8 to label %4
}
`

var (
	reC08ehDef   = regexp.MustCompile(`(?m)^(\s*)%\d+ = `)
	reC08ehLabel = regexp.MustCompile(`(?m)^\d+:\n`)
)

func c08ehNested(c *fw.Check) {
	forms := map[string]string{
		"explicit":        c08ehNestedText,
		"implicit":        reC08ehDef.ReplaceAllString(c08ehNestedText, "$1"),
		"implicit-labels": reC08ehLabel.ReplaceAllString(reC08ehDef.ReplaceAllString(c08ehNestedText, "$1"), ""),
		"explicit-zeros":  reC08label.ReplaceAllString(reC08num.ReplaceAllString(c08ehNestedText, "%0$1"), "0$1:"),
	}
	ref, e, ok, _ := fw.AsDis(c08ehNestedText)
	if !ok {
		fw.Fatalf("C08 nested funclet model rejected by LLVM: %s", e)
	}
	for _, form := range []string{"explicit", "implicit", "implicit-labels", "explicit-zeros"} {
		text := forms[form]
		if okL, eL := fw.LLVMAccepts(text); !okL {
			fw.Fatalf("C08 nested funclet text (%s) rejected by LLVM:\n%s\n%s", form, text, eL)
		}
		c.DistinctN(1)
		cs := c08case{Shape: "nested eh funclets, unnamed parent pad", Form: form, Text: text}
		report := func(kind, what, got string) {
			cs.What, cs.Got = what, fw.Trunc(got, 1500)
			c.Violation("eh-nested/"+kind+"/"+form, cs)
		}
		m, errs, pan := parseTry(text)
		if pan != "" {
			report("parser-panics", pan, "")
			continue
		}
		if errs != "" {
			report("parser-rejects", "the parser rejects a numbering LLVM accepts: "+fw.Trunc(errs, 300), "")
			continue
		}
		var printed string
		if p := fw.Try(func() { printed = m.String() }); p != "" {
			report("print-panics", p, "")
			continue
		}
		got, e2, ok2, _ := fw.AsDis(printed)
		if !ok2 {
			report("llvm-rejects-printed", fw.Trunc(e2, 300), printed)
			continue
		}
		if o1, o2 := llcanon.Diff(llcanon.Canon(ref), llcanon.Canon(got)); len(o1)+len(o2) > 0 {
			report("binding-differs", "LLVM reads the printed functions differently from the model text", printed)
			continue
		}
		if p2 := m.String(); p2 != printed {
			report("print-not-idempotent", "printing twice gives different text", p2)
		}
		c.Valid(1)
	}
}

func c08eh(c *fw.Check) {
	c08ehAPI(c, "C08")
	c08ehNested(c)
	var shapes []c08ehShape
	for m := 0; m < 256; m++ {
		shapes = append(shapes, c08ehShape{m&1 != 0, m&2 != 0, m&4 != 0, m&8 != 0, m&16 != 0, m&32 != 0, m&64 != 0, m&128 != 0})
	}
	c.Extra["eh_funclet_shapes"] = len(shapes)
	fw.ParallelFor(len(shapes), func(i int) {
		s := shapes[i]
		model := c08ehText(s, "explicit")
		ref, e, ok, _ := fw.AsDis(model)
		if !ok {
			fw.Fatalf("C08 funclet numbering model rejected by LLVM:\n%s\n%s", model, e)
		}
		for _, form := range []string{"explicit", "implicit", "implicit-labels"} {
			text := c08ehText(s, form)
			if okL, eL := fw.LLVMAccepts(text); !okL {
				fw.Fatalf("C08 funclet text (%s) rejected by LLVM:\n%s\n%s", form, text, eL)
			}
			c.DistinctN(1)
			c.Valid(1)
			cs := c08case{Shape: "eh-funclet " + s.String(), Form: form, Text: text}
			report := func(kind, what, got string) {
				cs.What, cs.Got = what, fw.Trunc(got, 1500)
				c.Violation("eh-funclet/"+kind+"/"+form+"/"+s.String(), cs)
			}
			m, errs, pan := parseTry(text)
			if pan != "" {
				report("parser-panics", pan, "")
				continue
			}
			if errs != "" {
				report("parser-rejects", "the parser rejects a numbering LLVM accepts: "+fw.Trunc(errs, 300), "")
				continue
			}
			var printed string
			if p := fw.Try(func() { printed = m.String() }); p != "" {
				report("print-panics", p, "")
				continue
			}
			got, e2, ok2, _ := fw.AsDis(printed)
			if !ok2 {
				report("llvm-rejects-printed", fw.Trunc(e2, 300), printed)
				continue
			}
			if o1, o2 := llcanon.Diff(llcanon.Canon(ref), llcanon.Canon(got)); len(o1)+len(o2) > 0 {
				report("binding-differs", "LLVM reads the printed function differently from the model text", printed)
				continue
			}
			for _, f := range m.Funcs {
				if err := f.AssignIDs(); err != nil {
					report("assignids-not-idempotent", err.Error(), printed)
				}
			}
			if p2 := m.String(); p2 != printed {
				report("print-not-idempotent", "printing twice gives different text", p2)
			}
		}
	})
}
