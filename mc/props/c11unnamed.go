package props

import (
	"fmt"
	"regexp"
	"strings"

	"github.com/llir/llvm/ir"
	"github.com/llir/llvm/ir/constant"
	"github.com/llir/llvm/ir/types"

	"verif/fw"
)

// Names next to unnamed IDs. "A name is never mistaken for an unnamed numeric ID or vice versa":
// an unnamed global @N has no name, the decimal digits of its ID are not one. Every module of <=3
// top-level entities, each a global variable or a function, unnamed or named from a small set of
// NUMERIC names, each a member of a comdat whose name is drawn from numeric and plain names (so
// that a comdat is named exactly like the ID, or like the name, of its user -- or of another
// entity), is built through the API, printed, re-parsed (every entity must come back unnamed/named
// as built, in the comdat it was put in) and read by LLVM, whose reading of each entity's comdat
// must be the same.

var (
	reC11uGlobal = regexp.MustCompile(`(?m)^@(\S+) = global i32 (\d+)(?:, comdat(?:\(\$([^)]*)\))?)?`)
	reC11uFunc   = regexp.MustCompile(`(?m)^define void @(\S+)\(\)(?: comdat(?:\(\$([^)]*)\))?)? \{\n  ret void, !k !(\d+)`)
)

func c11unnamed(c *fw.Check) {
	entNames := []string{"", "0", "1", "2", "a"}      // "" = unnamed
	cdNames := []string{"", "0", "1", "2", "00", "a"} // "" = no comdat
	type ent struct {
		fn       bool
		name, cd string
	}
	var mods [][]ent
	var rec func(cur []ent)
	rec = func(cur []ent) {
		if len(cur) > 0 {
			// distinct non-empty entity names only.
			seen := map[string]bool{}
			ok := true
			for _, e := range cur {
				if e.name != "" && seen[e.name] {
					ok = false
				}
				seen[e.name] = true
			}
			if ok {
				mods = append(mods, append([]ent(nil), cur...))
			}
		}
		if len(cur) == 3 {
			return
		}
		for _, fn := range []bool{false, true} {
			for _, n := range entNames {
				for _, cd := range cdNames {
					if len(cur) == 2 && n != "" && cd != "" && cd != "0" && cd != "2" {
						continue // third entity: unnamed with any comdat, named with none / "0" / "2"
					}
					rec(append(append([]ent(nil), cur...), ent{fn, n, cd}))
				}
			}
		}
	}
	rec(nil)
	c.Extra["unnamed_entity_comdat_modules"] = len(mods)
	fw.ParallelFor(len(mods), func(mi int) {
		es := mods[mi]
		desc := func() string {
			var s []string
			for _, e := range es {
				k := "global"
				if e.fn {
					k = "function"
				}
				n := "unnamed"
				if e.name != "" {
					n = fmt.Sprintf("named %q", e.name)
				}
				cd := "no comdat"
				if e.cd != "" {
					cd = fmt.Sprintf("comdat %q", e.cd)
				}
				s = append(s, fmt.Sprintf("%s %s in %s", k, n, cd))
			}
			return strings.Join(s, "; ")
		}
		report := func(sig, what, text string) {
			c.Violation("unnamed-with-numeric-names/"+sig, c11case{Position: "unnamed entities and numeric names", Quoted: desc(), Printed: fw.Trunc(text, 600), What: what})
		}
		c.DistinctN(1)
		m := ir.NewModule()
		cds := map[string]*ir.ComdatDef{}
		cdOf := func(n string) *ir.ComdatDef {
			if n == "" {
				return nil
			}
			if cds[n] == nil {
				cds[n] = &ir.ComdatDef{Name: n}
				m.ComdatDefs = append(m.ComdatDefs, cds[n])
			}
			return cds[n]
		}
		// globals print before functions: the expected order of IDs follows the printer's
		// sections (C08 owns the numbering rule; here globals come first, then functions).
		var order []int
		for i, e := range es {
			if !e.fn {
				order = append(order, i)
			}
		}
		for i, e := range es {
			if e.fn {
				order = append(order, i)
			}
		}
		for _, i := range order {
			e := es[i]
			if e.fn {
				f := m.NewFunc(e.name, types.Void)
				f.Comdat = cdOf(e.cd)
				b := f.NewBlock("")
				b.NewRet(nil)
			} else {
				g := m.NewGlobalDef(e.name, constant.NewInt(types.I32, int64(i)))
				g.Comdat = cdOf(e.cd)
			}
		}
		var text string
		if p := fw.Try(func() { text = m.String() }); p != "" {
			report("print-panics", p, "")
			return
		}
		m2, errs, pan := parseTry(text)
		if errs != "" || pan != "" {
			report("reparse-rejected", fw.Trunc(errs+pan, 300), text)
			return
		}
		// library's reading: same entities, in order, same (un)namedness and comdat.
		type rd struct{ name, cd string }
		var got []rd
		for _, g := range m2.Globals {
			r := rd{name: g.GlobalName}
			if g.Comdat != nil {
				r.cd = g.Comdat.Name
			}
			got = append(got, r)
		}
		for _, f := range m2.Funcs {
			r := rd{name: f.GlobalName}
			if f.Comdat != nil {
				r.cd = f.Comdat.Name
			}
			got = append(got, r)
		}
		if len(got) != len(order) {
			report("reparse-differs", fmt.Sprintf("%d entities read back, %d built", len(got), len(order)), text)
			return
		}
		for k, i := range order {
			if got[k].name != es[i].name || got[k].cd != es[i].cd {
				report("reparse-differs", fmt.Sprintf("entity %d read back as name %q comdat %q", k, got[k].name, got[k].cd), text)
				return
			}
		}
		c.Valid(1)
		if !fw.HaveLLVM() || (len(es) == 3 && mi%40 != 0) {
			return // LLVM reads every module of <=2 entities and every 40th of the larger ones
		}
		dis, e, ok, _ := fw.AsDis(text)
		if !ok {
			if !fw.IsToolCrash(e) {
				report("llvm-rejects", fw.Trunc(e, 300), text)
			}
			return
		}
		// LLVM's reading: per printed entity, the comdat name (bare `comdat` = own name).
		var lg []rd
		for _, mm := range reC11uGlobal.FindAllStringSubmatch(dis, -1) {
			r := rd{name: decodeIdent(mm[1])}
			if strings.Contains(mm[0], "comdat") {
				r.cd = decodeIdent(mm[3])
				if !strings.Contains(mm[0], "comdat(") {
					r.cd = r.name
				}
			}
			lg = append(lg, r)
		}
		nf := 0
		for _, line := range strings.Split(dis, "\n") {
			if !strings.HasPrefix(line, "define void @") {
				continue
			}
			nf++
			nm := line[len("define void @"):strings.Index(line, "(")]
			r := rd{name: decodeIdent(nm)}
			if i := strings.Index(line, " comdat"); i >= 0 {
				rest := line[i+len(" comdat"):]
				if strings.HasPrefix(rest, "($") {
					r.cd = decodeIdent(rest[2:strings.Index(rest, ")")])
				} else {
					r.cd = r.name
				}
			}
			lg = append(lg, r)
		}
		if len(lg) != len(order) {
			report("llvm-reads-differently", fmt.Sprintf("LLVM lists %d entities, %d built", len(lg), len(order)), text)
			return
		}
		for k, i := range order {
			// an unnamed entity is printed by LLVM as @<number>.
			wantName := es[i].name
			unnamed := wantName == ""
			gotName := lg[k].name
			if unnamed {
				if strings.Trim(gotName, "0123456789") != "" {
					report("llvm-reads-differently", fmt.Sprintf("entity %d: LLVM reads the name %q, built unnamed", k, gotName), text)
					return
				}
			} else if gotName != wantName {
				report("llvm-reads-differently", fmt.Sprintf("entity %d: LLVM reads the name %q, built %q", k, gotName, wantName), text)
				return
			}
			if lg[k].cd != es[i].cd {
				report("llvm-reads-differently", fmt.Sprintf("entity %d: LLVM reads comdat %q, built %q", k, lg[k].cd, es[i].cd), text)
				return
			}
		}
	})
}
