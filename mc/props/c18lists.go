package props

import (
	"fmt"
	"sort"
	"strings"

	"github.com/llir/llvm/ir"

	"verif/fw"
)

// Attribute LISTS. A function, parameter or return attribute keyword must map back to its value
// whatever other attribute stands next to it in the same list: every ordered pair of distinct
// keywords of the FuncAttr family is written (a) into an attribute group of its own, (b) inline on a
// declaration, (c) inline on a definition; every ordered pair of ParamAttr keywords on a parameter
// and of ReturnAttr keywords on a result. All pairs of one placement share one module. The list
// read back from the parsed module must hold exactly the two keywords, and so must the list of the
// module printed and parsed again. A pair the library does not read counts only if llvm-as accepts
// that pair on its own (many pairs are semantically incompatible for LLVM; the library does not
// judge compatibility, and neither does this check).

type c18listCase struct {
	Placement string `json:"placement"`
	First     string `json:"first_keyword"`
	Second    string `json:"second_keyword"`
	Got       string `json:"got,omitempty"`
	Text      string `json:"text,omitempty"`
	What      string `json:"what"`
}

func c18keywords(enumName string) []string {
	var out []string
	for _, et := range EnumTable {
		if et.Name != enumName {
			continue
		}
		seen := map[string]bool{}
		for _, k := range et.Consts {
			var s string
			if p := fw.Try(func() { s = et.String(k.Value) }); p != "" || seen[s] || strings.HasPrefix(s, enumName+"(") {
				continue
			}
			seen[s] = true
			out = append(out, s)
		}
	}
	sort.Strings(out)
	return out
}

func c18attrStrings(list interface{}) []string {
	var out []string
	switch l := list.(type) {
	case []ir.FuncAttribute:
		for _, a := range l {
			if g, ok := a.(*ir.AttrGroupDef); ok {
				out = append(out, c18attrStrings(g.FuncAttrs)...)
				continue
			}
			out = append(out, fmt.Sprint(a))
		}
	case []ir.ParamAttribute:
		for _, a := range l {
			out = append(out, fmt.Sprint(a))
		}
	case []ir.ReturnAttribute:
		for _, a := range l {
			out = append(out, fmt.Sprint(a))
		}
	}
	sort.Strings(out)
	return out
}

func c18attrLists(c *fw.Check) {
	type placement struct {
		name   string
		enum   string
		line   func(i int, a, b string) string
		single func(a, b string) string
		read   func(f *ir.Func) interface{}
	}
	places := []placement{
		{"attribute-group", "FuncAttr",
			func(i int, a, b string) string {
				return fmt.Sprintf("declare void @f%d() #%d\nattributes #%d = { %s %s }\n", i, i, i, a, b)
			}, nil,
			func(f *ir.Func) interface{} { return f.FuncAttrs }},
		{"declaration", "FuncAttr",
			func(i int, a, b string) string { return fmt.Sprintf("declare void @f%d() %s %s\n", i, a, b) }, nil,
			func(f *ir.Func) interface{} { return f.FuncAttrs }},
		{"definition", "FuncAttr",
			func(i int, a, b string) string {
				return fmt.Sprintf("define void @f%d() %s %s {\n  ret void\n}\n", i, a, b)
			}, nil,
			func(f *ir.Func) interface{} { return f.FuncAttrs }},
		{"parameter", "ParamAttr",
			func(i int, a, b string) string { return fmt.Sprintf("declare void @f%d(i32* %s %s)\n", i, a, b) }, nil,
			func(f *ir.Func) interface{} {
				if len(f.Params) != 1 {
					return []ir.ParamAttribute(nil)
				}
				return f.Params[0].Attrs
			}},
		{"result", "ReturnAttr",
			func(i int, a, b string) string { return fmt.Sprintf("declare %s %s i32* @f%d()\n", a, b, i) }, nil,
			func(f *ir.Func) interface{} { return f.ReturnAttrs }},
	}
	total := 0
	for _, pl := range places {
		kws := c18keywords(pl.enum)
		type pair struct{ a, b string }
		var pairs []pair
		for _, a := range kws {
			for _, b := range kws {
				if a != b {
					pairs = append(pairs, pair{a, b})
				}
			}
		}
		total += len(pairs)
		var sb strings.Builder
		for i, p := range pairs {
			sb.WriteString(pl.line(i, p.a, p.b))
		}
		check := func(text string, idx func(name string) int, npairs []pair, stage string) (bad []int, fatal string) {
			m, errs, pan := parseTry(text)
			if errs != "" || pan != "" {
				return nil, errs + pan
			}
			seen := map[int]bool{}
			for _, f := range m.Funcs {
				i := idx(f.GlobalName)
				if i < 0 || i >= len(npairs) {
					continue
				}
				seen[i] = true
				got := c18attrStrings(pl.read(f))
				want := []string{npairs[i].a, npairs[i].b}
				sort.Strings(want)
				c.Case(fmt.Sprintf("list|%s|%s|%s|%s", pl.name, npairs[i].a, npairs[i].b, stage), strings.Join(got, " "))
				if strings.Join(got, " ") != strings.Join(want, " ") {
					bad = append(bad, i)
				}
			}
			for i := range npairs {
				if !seen[i] {
					bad = append(bad, i)
				}
			}
			sort.Ints(bad)
			return bad, ""
		}
		byName := func(name string) int {
			var i int
			if _, err := fmt.Sscanf(name, "f%d", &i); err != nil {
				return -1
			}
			return i
		}
		report := func(i int, stage, what, got string) {
			p := pairs[i]
			one := pl.line(0, p.a, p.b)
			if fw.HaveLLVM() {
				if ok, _ := fw.LLVMAccepts(one); !ok {
					c.Invalid++
					return
				}
			}
			c.Violation("attr-list/"+pl.name+"/"+stage+"/"+p.a+"+"+p.b, c18listCase{Placement: pl.name, First: p.a, Second: p.b, Got: got, Text: one, What: what})
		}
		text := sb.String()
		bad, fatal := check(text, byName, pairs, "parsed")
		if fatal != "" {
			// attribute the rejection to single pairs.
			for i, p := range pairs {
				if _, e1, p1 := parseTry(pl.line(0, p.a, p.b)); e1 != "" || p1 != "" {
					report(i, "rejected", "the parser does not read a list of these two keywords: "+fw.Trunc(e1+p1, 200), "")
				}
			}
			continue
		}
		isBad := map[int]bool{}
		for _, i := range bad {
			isBad[i] = true
			m1, _, _ := parseTry(pl.line(0, pairs[i].a, pairs[i].b))
			got := ""
			if m1 != nil && len(m1.Funcs) == 1 {
				got = strings.Join(c18attrStrings(pl.read(m1.Funcs[0])), " ")
			}
			report(i, "parsed", "the list read from the text does not hold exactly these two keywords", got)
		}
		// printed and parsed again.
		m, _, _ := parseTry(text)
		var printed string
		if p := fw.Try(func() { printed = m.String() }); p != "" {
			c.Violation("attr-list/"+pl.name+"/print-panics", c18listCase{Placement: pl.name, What: p})
			continue
		}
		bad2, fatal2 := check(printed, byName, pairs, "reparsed")
		if fatal2 != "" {
			c.Violation("attr-list/"+pl.name+"/reparse-fails", c18listCase{Placement: pl.name, What: fw.Trunc(fatal2, 300)})
			continue
		}
		for _, i := range bad2 {
			if !isBad[i] {
				report(i, "reparsed", "after print and parse the list does not hold exactly these two keywords", "")
			}
		}
		c.Valid(int64(len(pairs)))
	}
	c.Extra["attribute_list_pairs"] = total
}
