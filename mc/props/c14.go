package props

import (
	"bytes"
	"fmt"
	"strings"

	"github.com/llir/llvm/ir"
	"github.com/llir/llvm/ir/constant"
	"github.com/llir/llvm/ir/enum"
	"github.com/llir/llvm/ir/metadata"
	"github.com/llir/llvm/ir/types"
	"github.com/llir/llvm/ir/value"

	"verif/fw"
)

func init() { Registry["C14"] = Prop{Run: runC14, Replay: replayC14} }

// ---- the editable world --------------------------------------------------------------------------

type c14world struct {
	m                              *ir.Module
	st                             *types.StructType // literal struct type used by @origin; may be named later
	origin                         *ir.Global
	decl                           *ir.Func // declared void function (callee of void calls)
	funcs                          []*ir.Func
	nname                          int
	limit                          *constant.Int   // integer constant in use by @limit; edited in place by one operation
	ratio                          *constant.Float // floating-point constant in use by @ratio
	gdecl                          *ir.Global      // global created as a declaration (no initializer, no linkage)
	fdecl                          *ir.Func        // function created as a declaration (no body)
	linkG                          bool            // the harness has set the linkage of gdecl / of the first function
	linkF                          bool
	attrG                          bool
	initG                          bool
	bodyF                          bool
	steps                          int // edit operations executed so far
	baDone                         bool
	bare                           bool         // the initial globals were removed
	ext2                           *ir.Func     // declared i32 (i32, i32) function
	phi                            *ir.InstPhi  // the phi appended by the harness (operand-level edits)
	call2                          *ir.InstCall // the two-argument call appended by the harness
	phiRep, phiWr, callRep, callWr bool
	ag                             *ir.AttrGroupDef // attribute group holding one attribute twice
	agRep, agDrop                  bool
	nmd, nmdRen                    bool
	cd                             *ir.ComdatDef // comdat attached to a global before it is registered
	cdReg                          bool
	mdRepl                         bool
	family                         string
	usedGeneral                    bool
}

func c14new() *c14world {
	w := &c14world{m: ir.NewModule()}
	w.st = types.NewStruct(types.I32, types.I32)
	w.origin = w.m.NewGlobalDef("origin", constant.NewZeroInitializer(w.st))
	w.decl = w.m.NewFunc("ext", types.Void)
	w.limit = constant.NewInt(types.I64, 4096)
	w.m.NewGlobalDef("limit", w.limit)
	w.ratio = constant.NewFloat(types.Double, 1.5)
	w.m.NewGlobalDef("ratio", w.ratio)
	w.ext2 = w.m.NewFunc("ext2", types.I32, ir.NewParam("", types.I32), ir.NewParam("", types.I32))
	return w
}

func (w *c14world) name(p string) string { w.nname++; return fmt.Sprintf("%s%d", p, w.nname) }

func (w *c14world) curFunc() *ir.Func {
	if len(w.funcs) == 0 {
		return nil
	}
	return w.funcs[len(w.funcs)-1]
}

// block selects the first (sel=0) or last (sel=1) block of the current function.
func (w *c14world) block(sel int) *ir.Block {
	f := w.curFunc()
	if f == nil || len(f.Blocks) == 0 {
		return nil
	}
	if sel == 0 {
		return f.Blocks[0]
	}
	return f.Blocks[len(f.Blocks)-1]
}

func (w *c14world) operand() value.Value {
	f := w.curFunc()
	return f.Params[0]
}

// c14fam: the operand-level / list-level operations come in independent families (phi, call,
// attribute group, named metadata, comdat, metadata replacement); a history uses at most one of
// them next to the general operations (their combinations add nothing but cost).
func c14fam(w *c14world, f string) bool {
	return w.family == "" || w.family == f
}

type c14op struct {
	name  string
	kind  string // class used in violation signatures
	level string // local / global / metadata / type
	en    func(w *c14world) bool
	do    func(w *c14world)
}

func c14hasBlock(sel int) func(w *c14world) bool {
	return func(w *c14world) bool { return w.block(sel) != nil }
}

func c14firstInst(b *ir.Block, unnamed bool) (int, bool) {
	for i, inst := range b.Insts {
		if n, ok := inst.(interface{ IsUnnamed() bool }); ok {
			if v, ok2 := inst.(value.Value); ok2 && !types.Equal(v.Type(), types.Void) && n.IsUnnamed() == unnamed {
				return i, true
			}
		}
	}
	return 0, false
}

func c14ops() []c14op {
	ops := []c14op{
		{"m.NewGlobalDef(unnamed)", "append-global", "global", nil, func(w *c14world) { w.m.NewGlobalDef("", constant.NewInt(types.I32, 1)) }},
		{"m.NewGlobalDef(named)", "append-global", "global", nil, func(w *c14world) { w.m.NewGlobalDef(w.name("g"), constant.NewInt(types.I32, 2)) }},
		{"m.NewFunc(unnamed)+block", "append-func", "global", func(w *c14world) bool { return len(w.funcs) < 2 }, func(w *c14world) {
			f := w.m.NewFunc("", types.I32, ir.NewParam("", types.I32))
			f.NewBlock("")
			w.funcs = append(w.funcs, f)
		}},
		{"m.NewFunc(named)+block", "append-func", "global", func(w *c14world) bool { return len(w.funcs) < 2 }, func(w *c14world) {
			f := w.m.NewFunc(w.name("f"), types.I32, ir.NewParam("p", types.I32))
			f.NewBlock("entry")
			w.funcs = append(w.funcs, f)
		}},
		{"f.NewBlock(unnamed)", "append-block", "local", func(w *c14world) bool { return w.curFunc() != nil && len(w.curFunc().Blocks) < 3 }, func(w *c14world) { w.curFunc().NewBlock("") }},
		{"f.NewBlock(named)", "append-block", "local", func(w *c14world) bool { return w.curFunc() != nil && len(w.curFunc().Blocks) < 3 }, func(w *c14world) { w.curFunc().NewBlock(w.name("b")) }},
		{"m.NewTypeDef(name the struct type in use)", "name-type", "type", func(w *c14world) bool { return w.st.TypeName == "" }, func(w *c14world) { w.m.NewTypeDef("pair", w.st) }},
		{"append metadata def + named metadata", "append-metadata", "metadata", nil, func(w *c14world) {
			md := &metadata.Tuple{MetadataID: -1, Fields: []metadata.Field{&metadata.String{Value: "x"}}}
			w.m.MetadataDefs = append(w.m.MetadataDefs, md)
			nm, ok := w.m.NamedMetadataDefs["nm"]
			if !ok {
				nm = &metadata.NamedDef{Name: "nm"}
				w.m.NamedMetadataDefs["nm"] = nm
			}
			nm.Nodes = append(nm.Nodes, md)
		}},
		{"m.NewGlobalDef(named, initialised with the address of the first global)", "append-global-user", "global-type", func(w *c14world) bool {
			if len(w.m.Globals) == 0 || len(w.m.Globals) > 3 {
				return false
			}
			for _, g := range w.m.Globals {
				if g.GlobalName == "addr" {
					return false
				}
			}
			return true
		}, func(w *c14world) {
			// the new global captures the pointer type of the first one.
			w.m.NewGlobalDef("addr", w.m.Globals[0])
		}},
		{"set AddrSpace = 1 on the first global", "set-addrspace", "global-type", func(w *c14world) bool {
			return len(w.m.Globals) > 0 && w.m.Globals[0].AddrSpace == 0
		}, func(w *c14world) { w.m.Globals[0].AddrSpace = 1 }},
		{"double the integer constant of @limit in place (X.Lsh)", "edit-constant", "constant", func(w *c14world) bool { return !w.bare && w.limit.X.BitLen() < 40 }, func(w *c14world) {
			// the value is reachable through the exported *big.Int; the constant is in use.
			w.limit.X.Lsh(w.limit.X, 1)
		}},
		{"negate the floating-point constant of @ratio in place (X.Neg)", "edit-constant", "constant", func(w *c14world) bool { return !w.bare }, func(w *c14world) { w.ratio.X.Neg(w.ratio.X) }},
		{"append metadata def with explicit sparse ID", "append-metadata-explicit", "metadata", func(w *c14world) bool {
			for _, d := range w.m.MetadataDefs {
				if d.ID() == 7 {
					return false
				}
			}
			return true
		}, func(w *c14world) {
			// a node that already carries a number (as one taken from a parsed module does).
			md := &metadata.Tuple{MetadataID: 7, Fields: []metadata.Field{&metadata.String{Value: "z"}}}
			w.m.MetadataDefs = append(w.m.MetadataDefs, md)
		}},
		// a module WITHOUT global variables (only possible as the first step): sections that are
		// empty are where a printer takes a shortcut.
		{"start from a module without global variables", "bare-module", "global", func(w *c14world) bool { return w.steps == 0 }, func(w *c14world) {
			w.m.Globals = nil
			w.bare = true
		}},
		{"store the address of the last block of the LAST function in the first block of the FIRST function", "append-inst", "local", func(w *c14world) bool {
			return len(w.funcs) == 2 && len(w.funcs[0].Blocks) > 0 && len(w.funcs[1].Blocks) > 0 && !w.baDone
		}, func(w *c14world) {
			w.baDone = true
			g := w.funcs[1]
			w.funcs[0].Blocks[0].NewStore(constant.NewBlockAddress(g, g.Blocks[len(g.Blocks)-1]), constant.NewUndef(types.NewPointer(types.I8Ptr)))
		}},
		// declarations that later become definitions, and attribute fields set after a print: a
		// printer that stores a default it has just printed (a linkage, a type, a flag) into the
		// IR is contradicted by the edit that follows.
		{"m.NewGlobal(declaration without linkage)", "append-global", "global", func(w *c14world) bool { return w.gdecl == nil }, func(w *c14world) {
			w.gdecl = w.m.NewGlobal(w.name("d"), types.I32)
		}},
		{"give the declared global an initializer (Init = 42)", "define-declaration", "global-attr", func(w *c14world) bool { return w.gdecl != nil && !w.initG }, func(w *c14world) {
			w.gdecl.Init = constant.NewInt(types.I32, 42)
			w.initG = true
		}},
		{"set Linkage = internal on the declared global / the first function", "set-linkage", "global-attr", func(w *c14world) bool {
			// (decided on the harness's own record of what it has set, never on fields an
			// observer might have written)
			return (w.gdecl != nil && !w.linkG) || (len(w.funcs) > 0 && !w.linkF)
		}, func(w *c14world) {
			if w.gdecl != nil && !w.linkG {
				w.gdecl.Linkage = enum.LinkageInternal
				w.linkG = true
			} else {
				w.funcs[0].Linkage = enum.LinkageInternal
				w.linkF = true
			}
		}},
		{"m.NewFunc(declaration, no body)", "append-func", "global", func(w *c14world) bool { return w.fdecl == nil }, func(w *c14world) {
			w.fdecl = w.m.NewFunc(w.name("fd"), types.I32, ir.NewParam("", types.I32))
		}},
		{"give the declared function a body", "define-declaration", "global-attr", func(w *c14world) bool { return w.fdecl != nil && !w.bodyF }, func(w *c14world) {
			b := w.fdecl.NewBlock("")
			b.NewRet(w.fdecl.Params[0])
			w.bodyF = true
		}},
		{"make the first global constant / thread_local / unnamed_addr", "set-attrs", "global-attr", func(w *c14world) bool { return len(w.m.Globals) > 0 && !w.attrG }, func(w *c14world) {
			g := w.m.Globals[0]
			w.attrG = true
			g.Immutable = true
			g.TLSModel = enum.TLSModelGeneric
			g.UnnamedAddr = enum.UnnamedAddrUnnamedAddr
		}},
		{"prepend metadata def", "insert-metadata", "metadata", func(w *c14world) bool { return len(w.m.MetadataDefs) > 0 }, func(w *c14world) {
			md := &metadata.Tuple{MetadataID: -1, Fields: []metadata.Field{&metadata.String{Value: "y"}}}
			w.m.MetadataDefs = append([]metadata.Definition{md}, w.m.MetadataDefs...)
		}},
	}
	for sel := 0; sel < 2; sel++ {
		sel := sel
		tag := []string{"first-block", "last-block"}[sel]
		ops = append(ops,
			c14op{"append unnamed add @" + tag, "append-inst", "local", c14hasBlock(sel), func(w *c14world) { w.block(sel).NewAdd(w.operand(), constant.NewInt(types.I32, 3)) }},
			c14op{"append named add @" + tag, "append-inst", "local", c14hasBlock(sel), func(w *c14world) {
				w.block(sel).NewAdd(w.operand(), constant.NewInt(types.I32, 4)).SetName(w.name("v"))
			}},
			c14op{"append void call @" + tag, "append-inst", "local", c14hasBlock(sel), func(w *c14world) { w.block(sel).NewCall(w.decl) }},
			c14op{"append gep+store @" + tag, "append-inst", "local", func(w *c14world) bool { return !w.bare && w.block(sel) != nil }, func(w *c14world) {
				p := w.block(sel).NewGetElementPtr(w.st, w.origin, constant.NewInt(types.I32, 0), constant.NewInt(types.I32, 1))
				w.block(sel).NewStore(w.operand(), p)
			}},
			c14op{"insert unnamed add at front @" + tag, "insert-front", "local", c14hasBlock(sel), func(w *c14world) {
				b := w.block(sel)
				inst := ir.NewAdd(w.operand(), constant.NewInt(types.I32, 5))
				b.Insts = append([]ir.Instruction{inst}, b.Insts...)
			}},
			c14op{"remove first instruction @" + tag, "remove-first", "local", func(w *c14world) bool {
				b := w.block(sel)
				if b == nil || len(b.Insts) == 0 {
					return false
				}
				// only instructions nobody uses (gep feeds the store that follows it).
				_, isGep := b.Insts[0].(*ir.InstGetElementPtr)
				return !isGep
			}, func(w *c14world) { b := w.block(sel); b.Insts = b.Insts[1:] }},
			c14op{"set/replace terminator ret @" + tag, "set-term", "local", c14hasBlock(sel), func(w *c14world) { w.block(sel).NewRet(w.operand()) }},
			c14op{"set/replace terminator br->first @" + tag, "set-term", "local", func(w *c14world) bool { return w.block(sel) != nil && len(w.curFunc().Blocks) > 1 }, func(w *c14world) {
				w.block(sel).NewBr(w.curFunc().Blocks[len(w.curFunc().Blocks)-1-sel*(len(w.curFunc().Blocks)-1)])
			}},
			c14op{"set/replace terminator unnamed invoke @" + tag, "set-term-value", "local", c14hasBlock(sel), func(w *c14world) {
				f := w.curFunc()
				w.block(sel).NewInvoke(f, []value.Value{w.operand()}, f.Blocks[0], f.Blocks[len(f.Blocks)-1])
			}},
			c14op{"SetName(x) on first unnamed value @" + tag, "rename", "local", func(w *c14world) bool {
				b := w.block(sel)
				if b == nil {
					return false
				}
				_, ok := c14firstInst(b, true)
				return ok
			}, func(w *c14world) {
				b := w.block(sel)
				i, _ := c14firstInst(b, true)
				b.Insts[i].(interface{ SetName(string) }).SetName(w.name("x"))
			}},
			c14op{"SetName(\"\") on first named value @" + tag, "unname", "local", func(w *c14world) bool {
				b := w.block(sel)
				if b == nil {
					return false
				}
				_, ok := c14firstInst(b, false)
				return ok
			}, func(w *c14world) {
				b := w.block(sel)
				i, _ := c14firstInst(b, false)
				b.Insts[i].(interface{ SetName(string) }).SetName("")
			}},
		)
	}
	// operand-level edits: an element of an operand LIST replaced in place, and a value written
	// through the slot that Operands() hands out (a cached operand view is contradicted by both).
	ops = append(ops,
		c14op{"append phi [1, first block], [2, last block] @last-block", "append-inst", "local", func(w *c14world) bool { return c14fam(w, "phi") && (w.block(1) != nil && w.phi == nil) }, func(w *c14world) {
			w.family = "phi"
			w.phi = w.block(1).NewPhi(ir.NewIncoming(constant.NewInt(types.I32, 1), w.block(0)), ir.NewIncoming(constant.NewInt(types.I32, 2), w.block(1)))
			w.phi.SetName(w.name("ph"))
		}},
		c14op{"replace the last incoming of the phi IN PLACE (Incs[1] = NewIncoming(7, same block))", "edit-operand-list", "local", func(w *c14world) bool { return c14fam(w, "phi") && (w.phi != nil && !w.phiRep) }, func(w *c14world) {
			w.family = "phi"
			w.phiRep = true
			w.phi.Incs[1] = ir.NewIncoming(constant.NewInt(types.I32, 7), w.phi.Incs[1].Pred.(*ir.Block))
		}},
		c14op{"write i32 9 through the operand slot of the phi's last incoming value", "edit-through-slot", "local", func(w *c14world) bool { return c14fam(w, "phi") && (w.phi != nil && !w.phiWr) }, func(w *c14world) {
			w.family = "phi"
			w.phiWr = true
			ops := w.phi.Operands()
			*ops[len(ops)-2] = constant.NewInt(types.I32, 9)
		}},
		c14op{"append named call @ext2(i32 p, i32 11) @last-block", "append-inst", "local", func(w *c14world) bool { return c14fam(w, "call") && (w.block(1) != nil && w.call2 == nil) }, func(w *c14world) {
			w.family = "call"
			w.call2 = w.block(1).NewCall(w.ext2, w.operand(), constant.NewInt(types.I32, 11))
			w.call2.SetName(w.name("c"))
		}},
		c14op{"replace the last argument of the call IN PLACE (Args[1] = 13)", "edit-operand-list", "local", func(w *c14world) bool { return c14fam(w, "call") && (w.call2 != nil && !w.callRep) }, func(w *c14world) {
			w.family = "call"
			w.callRep = true
			w.call2.Args[1] = constant.NewInt(types.I32, 13)
		}},
		c14op{"write i32 15 through the last operand slot of the call", "edit-through-slot", "local", func(w *c14world) bool { return c14fam(w, "call") && (w.call2 != nil && !w.callWr) }, func(w *c14world) {
			w.family = "call"
			w.callWr = true
			ops := w.call2.Operands()
			*ops[len(ops)-1] = constant.NewInt(types.I32, 15)
		}},
	)
	// lists a printer might "normalise" while printing (duplicates, sort orders): position-based
	// edits after a print show whether the print wrote into the list.
	ops = append(ops,
		c14op{"attribute group { noinline readonly noinline nounwind \"k\"=\"v\" } on the first function", "append-attrgroup", "global-attr", func(w *c14world) bool { return c14fam(w, "attrgroup") && (len(w.funcs) > 0 && w.ag == nil) }, func(w *c14world) {
			w.family = "attrgroup"
			w.ag = &ir.AttrGroupDef{ID: 0, FuncAttrs: []ir.FuncAttribute{enum.FuncAttrNoInline, enum.FuncAttrReadOnly, enum.FuncAttrNoInline, enum.FuncAttrNoUnwind, ir.AttrPair{Key: "k", Value: "v"}}}
			w.m.AttrGroupDefs = append(w.m.AttrGroupDefs, w.ag)
			w.funcs[0].FuncAttrs = append(w.funcs[0].FuncAttrs, w.ag)
		}},
		c14op{"replace the first attribute of the group in place (FuncAttrs[0] = cold)", "edit-attr-list", "global-attr", func(w *c14world) bool { return c14fam(w, "attrgroup") && (w.ag != nil && !w.agRep) }, func(w *c14world) {
			w.family = "attrgroup"
			w.agRep = true
			w.ag.FuncAttrs[0] = enum.FuncAttrCold
		}},
		c14op{"drop the first attribute of the group (FuncAttrs = FuncAttrs[1:])", "edit-attr-list", "global-attr", func(w *c14world) bool { return c14fam(w, "attrgroup") && (w.ag != nil && !w.agDrop) }, func(w *c14world) {
			w.family = "attrgroup"
			w.agDrop = true
			w.ag.FuncAttrs = w.ag.FuncAttrs[1:]
		}},
		// an entity refers to a definition the module does not list YET (a printer that "repairs" the
		// module by listing it itself is contradicted by the registration that follows).
		c14op{"attach comdat $grp (not yet listed in m.ComdatDefs) to the first global", "attach-comdat", "global-attr", func(w *c14world) bool { return c14fam(w, "comdat") && (len(w.m.Globals) > 0 && w.cd == nil) }, func(w *c14world) {
			w.family = "comdat"
			w.cd = &ir.ComdatDef{Name: "grp", Kind: enum.SelectionKindAny}
			w.m.Globals[0].Comdat = w.cd
		}},
		c14op{"register the comdat (m.ComdatDefs = append(m.ComdatDefs, $grp))", "register-comdat", "global-attr", func(w *c14world) bool { return c14fam(w, "comdat") && (w.cd != nil && !w.cdReg) }, func(w *c14world) {
			w.family = "comdat"
			w.cdReg = true
			w.m.ComdatDefs = append(w.m.ComdatDefs, w.cd)
		}},
		c14op{"replace the last metadata definition by a fresh unnumbered node (same number of definitions)", "replace-metadata", "metadata", func(w *c14world) bool { return c14fam(w, "mdrepl") && (len(w.m.MetadataDefs) > 0 && !w.mdRepl) }, func(w *c14world) {
			w.family = "mdrepl"
			w.mdRepl = true
			n := len(w.m.MetadataDefs) - 1
			old := w.m.MetadataDefs[n]
			md := &metadata.Tuple{MetadataID: -1, Fields: []metadata.Field{&metadata.String{Value: "replacement"}}}
			w.m.MetadataDefs[n] = md
			for _, nm := range w.m.NamedMetadataDefs {
				for i, x := range nm.Nodes {
					if interface{}(x) == interface{}(old) {
						nm.Nodes[i] = md
					}
				}
			}
		}},
		c14op{"add named metadata !b10 and !b2", "append-named-metadata", "metadata", func(w *c14world) bool { return c14fam(w, "namedmd") && (!w.nmd) }, func(w *c14world) {
			w.family = "namedmd"
			w.nmd = true
			w.m.NamedMetadataDefs["b10"] = &metadata.NamedDef{Name: "b10"}
			w.m.NamedMetadataDefs["b2"] = &metadata.NamedDef{Name: "b2"}
		}},
		c14op{"rename named metadata !b10 to !b1 (delete key, set Name, insert)", "rename-named-metadata", "metadata", func(w *c14world) bool { return c14fam(w, "namedmd") && (w.nmd && !w.nmdRen) }, func(w *c14world) {
			w.family = "namedmd"
			w.nmdRen = true
			d := w.m.NamedMetadataDefs["b10"]
			delete(w.m.NamedMetadataDefs, "b10")
			d.Name = "b1"
			w.m.NamedMetadataDefs["b1"] = d
		}},
	)
	ops = append(ops,
		c14op{"SetName on block", "rename", "local", c14hasBlock(1), func(w *c14world) { w.block(1).SetName(w.name("blk")) }},
		c14op{"SetName(\"\") on block", "unname", "local", c14hasBlock(0), func(w *c14world) { w.block(0).SetName("") }},
		c14op{"SetName on first unnamed global", "rename", "global", func(w *c14world) bool {
			for _, g := range w.m.Globals {
				if g.IsUnnamed() {
					return true
				}
			}
			return false
		}, func(w *c14world) {
			for _, g := range w.m.Globals {
				if g.IsUnnamed() {
					g.SetName(w.name("gg"))
					return
				}
			}
		}},
		c14op{"remove first unnamed global", "remove-first", "global", func(w *c14world) bool {
			for _, g := range w.m.Globals {
				if g.IsUnnamed() {
					return true
				}
			}
			return false
		}, func(w *c14world) {
			for i, g := range w.m.Globals {
				if g.IsUnnamed() {
					w.m.Globals = append(append([]*ir.Global(nil), w.m.Globals[:i]...), w.m.Globals[i+1:]...)
					return
				}
			}
		}},
	)
	// Family operations combine with the SETUP operations (new functions, blocks, globals, metadata
	// definitions) only, not with the other general edits: a history is either general or belongs
	// to one family.
	famPrefixes := []string{"append phi [1, first block]", "replace the last incoming of the phi", "write i32 9 through the operand slot", "append named call @ext2", "replace the last argument of the call", "write i32 15 through the last operand slot", "attribute group { noinline", "replace the first attribute of the group", "drop the first attribute of the group", "attach comdat $grp", "register the comdat", "replace the last metadata definition", "add named metadata !b10", "rename named metadata !b10"}
	setupPrefixes := []string{"set/replace terminator ret @", "m.NewGlobalDef(", "m.NewFunc(unnamed)+block", "m.NewFunc(named)+block", "f.NewBlock(", "append metadata def + named metadata", "append metadata def with explicit sparse ID"}
	has := func(name string, ps []string) bool {
		for _, p := range ps {
			if strings.HasPrefix(name, p) {
				return true
			}
		}
		return false
	}
	for i := range ops {
		op := &ops[i]
		isFam, isSetup := has(op.name, famPrefixes), has(op.name, setupPrefixes)
		en, do := op.en, op.do
		switch {
		case isFam:
			op.en = func(w *c14world) bool { return !w.usedGeneral && (en == nil || en(w)) }
		case !isSetup:
			op.en = func(w *c14world) bool { return w.family == "" && (en == nil || en(w)) }
			op.do = func(w *c14world) { w.usedGeneral = true; do(w) }
		}
	}
	return ops
}

// complete adds a `ret` to every block without terminator (the common last step of every history).
func (w *c14world) complete() {
	for _, f := range w.funcs {
		for _, b := range f.Blocks {
			if b.Term == nil {
				b.NewRet(f.Params[0])
			}
		}
	}
}

func (w *c14world) isComplete() bool {
	for _, f := range w.funcs {
		for _, b := range f.Blocks {
			if b.Term == nil {
				return false
			}
		}
	}
	return true
}

// ---- observers -----------------------------------------------------------------------------------

type c14obs struct {
	name   string
	assign bool // performs (and caches) ID assignment
	run    func(w *c14world)
}

func c14observers() []c14obs {
	eachInst := func(w *c14world, f func(ir.Instruction)) {
		for _, fn := range w.funcs {
			for _, b := range fn.Blocks {
				for _, i := range b.Insts {
					f(i)
				}
			}
		}
	}
	return []c14obs{
		{"m.String", true, func(w *c14world) { _ = w.m.String() }},
		{"m.WriteTo", true, func(w *c14world) { var b bytes.Buffer; w.m.WriteTo(&b) }},
		{"f.LLString(all)", true, func(w *c14world) {
			for _, f := range w.funcs {
				_ = f.LLString()
			}
		}},
		{"m.AssignGlobalIDs+f.AssignIDs", true, func(w *c14world) {
			w.m.AssignGlobalIDs()
			w.m.AssignMetadataIDs()
			for _, f := range w.funcs {
				f.AssignIDs()
			}
		}},
		{"b.LLString(all)", false, func(w *c14world) {
			for _, f := range w.funcs {
				for _, b := range f.Blocks {
					_ = b.LLString()
				}
			}
		}},
		{"inst.LLString(all)", false, func(w *c14world) { eachInst(w, func(i ir.Instruction) { _ = i.LLString() }) }},
		{"v.Type+Ident+String(all)", false, func(w *c14world) {
			eachInst(w, func(i ir.Instruction) {
				if v, ok := i.(value.Value); ok {
					_ = v.Type().String()
					_ = v.Ident()
					_ = v.String()
				}
			})
			for _, g := range w.m.Globals {
				_ = g.Type().String()
				_ = g.String()
			}
			for _, f := range w.funcs {
				_ = f.Type().String()
				_ = f.String()
			}
		}},
		{"Operands(all)", false, func(w *c14world) {
			eachInst(w, func(i ir.Instruction) {
				if u, ok := i.(value.User); ok {
					_ = u.Operands()
				}
			})
			for _, f := range w.funcs {
				for _, b := range f.Blocks {
					if b.Term != nil {
						_ = b.Term.Operands()
					}
				}
			}
		}},
		{"Succs(all)", false, func(w *c14world) {
			for _, f := range w.funcs {
				for _, b := range f.Blocks {
					if b.Term != nil {
						_ = b.Term.Succs()
					}
				}
			}
		}},
	}
}

// ---- exploration ---------------------------------------------------------------------------------

type c14case struct {
	History []string `json:"history"`
	Ops     []int    `json:"ops"`
	ObsAt   []int    `json:"observer_positions"`
	ObsKind []int    `json:"observer_kinds"`
	Want    string   `json:"want,omitempty"`
	Got     string   `json:"got,omitempty"`
	What    string   `json:"what"`
}

// c14run replays ops with observers obsKind[i] executed BEFORE op index obsAt[i] (position len(ops)
// = after the last edit, before completion; len(ops)+1 = after completion).
func c14run(ops []c14op, obs []c14obs, seq []int, obsAt, obsKind []int) (final string, panicked string, obsPanicOnComplete string, second string) {
	w := c14new()
	doObs := func(pos int) {
		for i, at := range obsAt {
			if at == pos {
				complete := w.isComplete()
				if p := fw.Try(func() { obs[obsKind[i]].run(w) }); p != "" && complete && obsPanicOnComplete == "" {
					obsPanicOnComplete = obs[obsKind[i]].name + ": " + p
				}
			}
		}
	}
	for i, oi := range seq {
		doObs(i)
		// an edit that is possible in the observer-free history (that is how the history was
		// enumerated) must be possible after observers ran: if it fails now, observation has
		// changed the IR.
		if p := fw.Try(func() { ops[oi].do(w); w.steps++ }); p != "" {
			if len(obsAt) == 0 {
				panic("C14 harness: edit operation fails in the observer-free history: " + ops[oi].name + ": " + p)
			}
			return "", "edit operation \"" + ops[oi].name + "\" fails only after observers ran: " + p, "", ""
		}
	}
	doObs(len(seq))
	w.complete()
	doObs(len(seq) + 1)
	panicked = fw.Try(func() { final = w.m.String() })
	if panicked == "" {
		fw.Try(func() { second = w.m.String() })
	}
	return
}

// c14enabled replays seq on a scratch world to find which ops are enabled afterwards.
func c14enabled(ops []c14op, seq []int) []int {
	w := c14new()
	for _, oi := range seq {
		ops[oi].do(w)
		w.steps++
	}
	var en []int
	for i, op := range ops {
		if op.en == nil || op.en(w) {
			en = append(en, i)
		}
	}
	return en
}

func c14describe(ops []c14op, obs []c14obs, seq, obsAt, obsKind []int) []string {
	var out []string
	for i := 0; i <= len(seq)+1; i++ {
		for k, at := range obsAt {
			if at == i {
				out = append(out, "OBSERVE "+obs[obsKind[k]].name)
			}
		}
		if i < len(seq) {
			out = append(out, ops[seq[i]].name)
		} else if i == len(seq) {
			out = append(out, "(complete: add ret to blocks without terminator)")
		}
	}
	out = append(out, "final m.String()")
	return out
}

func c14check(c *fw.Check, ops []c14op, obs []c14obs, seq []int, ref string, obsAt, obsKind []int) {
	final, pan, obsPan, second := c14run(ops, obs, seq, obsAt, obsKind)
	c.Step(int64(len(seq) + len(obsAt) + 2))
	if pan == "" && obsPan == "" && final == ref && second == final {
		return
	}
	cs := c14case{History: c14describe(ops, obs, seq, obsAt, obsKind), Ops: seq, ObsAt: obsAt, ObsKind: obsKind}
	// classify: which edit kinds follow the first ID-assigning observer?
	assigning := false
	firstAt := len(seq) + 2
	for i, at := range obsAt {
		if obs[obsKind[i]].assign && at < firstAt {
			firstAt, assigning = at, true
		}
	}
	// the first edit after the first ID-assigning observer that can shift numbering at a level.
	shifting := map[string]bool{"insert-front": true, "set-term": true, "set-term-value": true, "remove-first": true, "rename": true, "unname": true, "append-inst": true, "append-block": true, "append-global": true, "append-func": true, "insert-metadata": true, "append-metadata": true}
	firstShift := func(level string) string {
		for i := firstAt; i < len(seq); i++ {
			if i >= 0 && shifting[ops[seq[i]].kind] && (level == "" || ops[seq[i]].level == level) {
				return ops[seq[i]].kind + "(" + ops[seq[i]].level + ")"
			}
		}
		return "none"
	}
	var obsNames []string
	for _, k := range obsKind {
		obsNames = append(obsNames, obs[k].name)
	}
	sortStrings(obsNames)
	switch {
	case pan != "" || obsPan != "":
		p := pan
		if p == "" {
			p = obsPan
		}
		cs.What = "panic: " + p
		msg := "other"
		switch {
		case strings.Contains(p, "invalid local ID"):
			msg = "invalid-local-ID"
		case strings.Contains(p, "invalid global ID"):
			msg = "invalid-global-ID"
		case strings.Contains(p, "already in use"):
			msg = "metadata-ID-in-use"
		}
		if assigning && msg != "other" {
			// IDs cached by an ID-assigning observer are validated at the next print.
			level := map[string]string{"invalid-local-ID": "local", "invalid-global-ID": "global", "metadata-ID-in-use": "metadata"}[msg]
			c.Violation("stale-ID-after-print/"+msg+"/first-shifting-edit="+firstShift(level), cs)
		} else {
			c.Violation("panic/"+msg+"@"+fw.PanicSiteOf(p)+"/observers:"+strings.Join(obsNames, "+"), cs)
		}
	case final != ref:
		cs.What = "final text differs from the observer-free history"
		cs.Want, cs.Got = ref, final
		if assigning {
			// which level differs? (all differing lines are metadata lines => metadata numbering)
			level := "metadata"
			rl, fl := strings.Split(ref, "\n"), strings.Split(final, "\n")
			if len(rl) != len(fl) {
				level = ""
			} else {
				for i := range rl {
					if rl[i] != fl[i] && !strings.HasPrefix(rl[i], "!") {
						level = ""
					}
				}
			}
			c.Violation("text-differs/after-ID-assigning-observer/"+level+"/first-shifting-edit="+firstShift(level), cs)
		} else {
			c.Violation("text-differs/observers:"+strings.Join(obsNames, "+"), cs)
		}
	default:
		cs.What = "printing twice gives different text"
		cs.Want, cs.Got = final, second
		c.Violation("print-twice-differs", cs)
	}
}

func sortStrings(s []string) {
	for i := 1; i < len(s); i++ {
		for j := i; j > 0 && s[j] < s[j-1]; j-- {
			s[j], s[j-1] = s[j-1], s[j]
		}
	}
}

func runC14(c *fw.Check) {
	ops, obs := c14ops(), c14observers()
	maxLen, maxLen2 := 4, 3
	if !c.Quick() {
		maxLen, maxLen2 = 5, 4
		c.SetBudget(40 * 60 * 1e9)
	}
	c.Rule = fmt.Sprintf("all edit histories of length <=%d over %d edit operations (append/insert/remove instructions, set/replace terminators (incl. value-producing unnamed invokes), name/rename/unname values, blocks and globals, add globals/functions/blocks, name a struct type in use, append/prepend metadata, append a metadata definition that already carries a sparse explicit ID, take the address of a global in another global, change a global's address space; create a global / function as a declaration, later give it an initializer / a body, set linkage and other attributes; start from a module without global variables; store the address of a block of the last function in the first function; <=2 functions, <=3 blocks) on a fresh module, replayed from scratch; for each history the observer-free run is the reference and EVERY placement of one observer (of %d kinds) at every position is executed (two observers for histories of length <=%d); oracle: final String() equals the reference, no panic on a complete module, String() twice identical. distinct = (history, observer placement).", maxLen, len(ops), len(obs), maxLen2)
	// enumerate histories (BFS over enabled ops).
	var hists [][]int
	var rec func(seq []int)
	rec = func(seq []int) {
		if len(seq) > 0 {
			hists = append(hists, append([]int(nil), seq...))
		}
		if len(seq) == maxLen {
			return
		}
		for _, oi := range c14enabled(ops, seq) {
			rec(append(seq, oi))
		}
	}
	rec(nil)
	c.Extra["histories"] = len(hists)
	c.Extra["edit_ops"] = len(ops)
	c.Extra["observer_kinds"] = len(obs)
	fw.ParallelFor(len(hists), func(hi int) {
		if c.OverBudget() {
			return
		}
		seq := hists[hi]
		ref, pan, _, second := c14run(ops, obs, seq, nil, nil)
		if pan != "" {
			c.Violation("reference-panics@"+fw.PanicSiteOf(pan), c14case{History: c14describe(ops, obs, seq, nil, nil), Ops: seq, What: "observer-free history cannot be printed: " + pan})
			return
		}
		if second != ref {
			c.Violation("print-twice-differs", c14case{History: c14describe(ops, obs, seq, nil, nil), Ops: seq, Want: ref, Got: second, What: "printing twice gives different text"})
		}
		n := int64(1)
		// one observer anywhere.
		for at := 0; at <= len(seq)+1; at++ {
			for k := range obs {
				c14check(c, ops, obs, seq, ref, []int{at}, []int{k})
				n++
			}
		}
		if len(seq) <= maxLen2 {
			for a1 := 0; a1 <= len(seq)+1; a1++ {
				for a2 := a1; a2 <= len(seq)+1; a2++ {
					for k1 := range obs {
						for k2 := range obs {
							if a1 == a2 && k2 < k1 {
								continue
							}
							c14check(c, ops, obs, seq, ref, []int{a1, a2}, []int{k1, k2})
							n++
						}
					}
				}
			}
		}
		c.DistinctN(n)
		c.Valid(n)
		c.Outcome(ref)
		if hi%50000 == 7 {
			c.Sample(map[string]interface{}{"history_with_one_observer": c14describe(ops, obs, seq, []int{len(seq) / 2}, []int{0}), "reference_text": fw.Trunc(ref, 400)})
		}
	})
}

func replayC14(c *fw.Check, path string) {
	var cs c14case
	loadReplay(path, &cs)
	ops, obs := c14ops(), c14observers()
	ref, pan, _, _ := c14run(ops, obs, cs.Ops, nil, nil)
	fmt.Printf("replay history:\n  %s\nreference (no observers): panic=%q\n%s\n", strings.Join(cs.History, "\n  "), pan, ref)
	c14check(c, ops, obs, cs.Ops, ref, cs.ObsAt, cs.ObsKind)
	c.Case("replay", "x")
	c.Case("replay2", "y")
}
