// Package gen is the independent, enumerable generator of LLVM 14 assembly (E4 of DESIGN.md). It
// never touches the library's data model: it writes text from a catalogue of grammar productions.
// Every alternative, optional and type hole is a choice point of package choice, so "all variants
// with at most k departures from the simplest form" is one explorer run.
package gen

import (
	"fmt"
	"sort"
	"strings"

	"verif/choice"
)

// Frag is one generated module fragment: top-level definitions with unique names (prefix P) plus
// the shared declarations they need.
type Frag struct {
	c          *choice.Ctx
	P          string // unique name prefix
	Entry      string
	Shared     map[string]bool // shared top-level lines (types, declarations) needed
	Top        []string        // own top-level lines / definitions, in order
	Tail       []string        // own trailing lines (attribute groups, metadata)
	nuniq      int
	nmd, nattr int
	// Solo marks a fragment that must be alone in its module (it uses unnamed @N values).
	Solo bool
	// NoLLVM marks the variant as outside the LLVM-compared alphabet.
	NoLLVM bool
	// MDBase / AttrBase are the first metadata / attribute-group IDs the fragment may use.
	MDBase, AttrBase int
	// current function under construction
	fparams []string
	flines  []string
	fhdr    string
	fret    string
	fattrs  string
	nres    int
	nuse    int
	// reference sites (for fault injection): token -> kind
	Refs []Ref
	// Kinds covered (instruction / terminator / constant-expression struct names of the library).
	Kinds []string
}

// Ref is a tagged reference or definition site inside the fragment text.
type Ref struct {
	Kind  string // local global type comdat metadata label attrgroup
	Token string // e.g. %a, @G, %S, $c, !3, #0
	Def   bool
}

// Ctx returns the choice context.
func (f *Frag) Ctx() *choice.Ctx { return f.c }

// Opt returns text if the optional is chosen (default: absent).
func (f *Frag) Opt(label, text string) string {
	if f.c.Flip(label) {
		return text
	}
	return ""
}

// Alt returns one of the alternatives (default: first).
func (f *Frag) Alt(label string, alts ...string) string {
	return alts[f.c.Choose(len(alts), label)]
}

// Flip is a boolean choice (default false).
func (f *Frag) Flip(label string) bool { return f.c.Flip(label) }

// N returns an integer in [0,n) (default 0).
func (f *Frag) N(label string, n int) int { return f.c.Choose(n, label) }

// Need adds shared top-level lines (deduplicated per batch module).
func (f *Frag) Need(lines ...string) {
	for _, l := range lines {
		f.Shared[l] = true
	}
}

// Uniq returns a fresh name with the fragment's prefix.
func (f *Frag) Uniq(base string) string {
	f.nuniq++
	return fmt.Sprintf("%s%s%d", f.P, base, f.nuniq)
}

// TopLine adds an own top-level line.
func (f *Frag) TopLine(format string, a ...interface{}) {
	f.Top = append(f.Top, fmt.Sprintf(format, a...))
}

// TailLine adds an own trailing line (attribute group / metadata).
func (f *Frag) TailLine(format string, a ...interface{}) {
	f.Tail = append(f.Tail, fmt.Sprintf(format, a...))
}

// Kind records a library kind (struct name) exercised by the fragment.
func (f *Frag) Kind(k ...string) { f.Kinds = append(f.Kinds, k...) }

// ---- function construction -------------------------------------------------------------------------

// Func starts a function `define <ret> @<P>f(<params>) <attrs> {`.
func (f *Frag) Func(ret string) {
	f.fparams, f.flines, f.fret, f.fattrs, f.fhdr, f.nres = nil, nil, ret, "", "", 0
}

// Param adds a parameter of type t and returns its name.
func (f *Frag) Param(t string) string {
	n := fmt.Sprintf("%%p%d", len(f.fparams))
	f.fparams = append(f.fparams, t+" "+n)
	return n
}

// ParamAttr adds a parameter with attributes.
func (f *Frag) ParamAttr(t, attrs string) string {
	n := fmt.Sprintf("%%p%d", len(f.fparams))
	f.fparams = append(f.fparams, strings.TrimSpace(t+" "+attrs)+" "+n)
	return n
}

// Res returns a fresh result name.
func (f *Frag) Res() string { f.nres++; return fmt.Sprintf("%%r%d", f.nres) }

// Line adds a body line.
func (f *Frag) Line(format string, a ...interface{}) {
	f.flines = append(f.flines, fmt.Sprintf(format, a...))
}

// Label adds a block label.
func (f *Frag) Label(name string) { f.flines = append(f.flines, name+":") }

// FuncAttrs sets text after the parameter list.
func (f *Frag) FuncAttrs(s string) { f.fattrs = s }

// FuncHeader sets text between `define` and the return type.
func (f *Frag) FuncHeader(s string) { f.fhdr = s }

// End finishes the function; if term is empty a matching `ret` is added.
func (f *Frag) End(term string) string {
	name := "@" + f.Uniq("f")
	if term == "" {
		if f.fret == "void" {
			term = "ret void"
		} else {
			term = "ret " + f.fret + " undef"
		}
	}
	var b strings.Builder
	hdr := f.fhdr
	if hdr != "" {
		hdr += " "
	}
	fmt.Fprintf(&b, "define %s%s %s(%s)", hdr, f.fret, name, strings.Join(f.fparams, ", "))
	if f.fattrs != "" {
		b.WriteString(" " + f.fattrs)
	}
	b.WriteString(" {\n")
	// every instruction and terminator of the grammar takes trailing metadata attachments: one
	// deviation puts an attachment on EVERY line of the body (lines that have one already and
	// freeze, whose attachments the llir/ll grammar does not read -- a known finding -- excepted).
	deco := func(l string) string { return l }
	if len(f.flines) > 0 && f.c.Flip("metadata-on-every-instruction") {
		id := f.MDID()
		f.TailLine("!%d = !{i32 77}", id)
		deco = func(l string) string {
			if strings.Contains(l, ", !") || strings.Contains(l, " freeze ") || strings.HasPrefix(l, "freeze ") {
				return l
			}
			return fmt.Sprintf("%s, !every !%d", l, id)
		}
	}
	for _, l := range f.flines {
		if strings.HasSuffix(l, ":") && !strings.HasPrefix(l, " ") {
			b.WriteString(l + "\n")
		} else {
			b.WriteString("  " + deco(l) + "\n")
		}
	}
	if term != "-" {
		b.WriteString("  " + deco(term) + "\n")
	}
	b.WriteString("}")
	f.Top = append(f.Top, b.String())
	return name
}

// ---- entries and batches -----------------------------------------------------------------------------

// Entry is one catalogue production.
type Entry struct {
	Name  string
	Build func(f *Frag)
	// LLVMSkip marks constructs the LLVM 14 oracle does not know (library tracks LLVM 15): such
	// fragments are only used by the library-internal oracles.
	LLVMSkip bool
}

// Variant is one instantiated fragment with the choice vector that produced it.
type Variant struct {
	Solo    bool
	Entry   string
	Choices []int
	Devs    []string
	Frag    *Frag
	NoLLVM  bool
}

// Build instantiates entry e with the given choice vector.
func Build(e Entry, prefix string, mdBase int, choices []int) (v Variant) {
	c := choice.Run(choices, func(c *choice.Ctx) {
		f := &Frag{c: c, P: prefix, Entry: e.Name, Shared: map[string]bool{}, MDBase: mdBase, AttrBase: mdBase}
		e.Build(f)
		v.Frag = f
	})
	v.Entry, v.Choices, v.Devs, v.NoLLVM = e.Name, append([]int(nil), c.Trace...), c.Deviations(), e.LLVMSkip || v.Frag.NoLLVM
	v.Solo = v.Frag.Solo
	return v
}

// Variants enumerates all variants of e with at most bound deviations.
func Variants(e Entry, idx int, bound int) []Variant {
	var out []Variant
	n := 0
	choice.Explore(bound, func(c *choice.Ctx) {
		f := &Frag{c: c, P: fmt.Sprintf("e%dv%d_", idx, n), Entry: e.Name, Shared: map[string]bool{}, MDBase: 10000000*(idx+1) + 16*n, AttrBase: 10000000*(idx+1) + 16*n}
		e.Build(f)
		out = append(out, Variant{Entry: e.Name, Frag: f, NoLLVM: e.LLVMSkip || f.NoLLVM})
		n++
	}, func(c *choice.Ctx) {
		v := &out[len(out)-1]
		v.Choices, v.Devs = append([]int(nil), c.Trace...), c.Deviations()
		v.Solo, v.NoLLVM = v.Frag.Solo, v.NoLLVM || v.Frag.NoLLVM
	})
	return out
}

// Module assembles a batch of variants into one module text.
func Module(vs []Variant) string {
	shared := map[string]bool{}
	for _, v := range vs {
		for l := range v.Frag.Shared {
			shared[l] = true
		}
	}
	var sl []string
	for l := range shared {
		sl = append(sl, l)
	}
	// target/source directives first (LLVM requires target definitions before other entities),
	// then types, then the rest (sorted: deterministic).
	rank := func(l string) int {
		switch {
		case strings.HasPrefix(l, "target ") || strings.HasPrefix(l, "source_filename") || strings.HasPrefix(l, "module asm"):
			return 0
		case strings.HasPrefix(l, "%"):
			return 1
		}
		return 2
	}
	sort.Slice(sl, func(i, j int) bool {
		if rank(sl[i]) != rank(sl[j]) {
			return rank(sl[i]) < rank(sl[j])
		}
		return sl[i] < sl[j]
	})
	var b strings.Builder
	// LLVM 14 reads target and source_filename definitions in a prologue: the ones of ALL
	// variants go before every other entity (module asm included).
	isPrologue := func(l string) bool {
		return strings.HasPrefix(l, "target ") || strings.HasPrefix(l, "source_filename")
	}
	for _, v := range vs {
		for _, t := range v.Frag.Top {
			if isPrologue(t) {
				b.WriteString(t + "\n")
			}
		}
	}
	for _, l := range sl {
		b.WriteString(l + "\n")
	}
	for _, v := range vs {
		for _, t := range v.Frag.Top {
			if !isPrologue(t) {
				b.WriteString(t + "\n")
			}
		}
	}
	for _, v := range vs {
		for _, t := range v.Frag.Tail {
			b.WriteString(t + "\n")
		}
	}
	return b.String()
}
