package gen

import "fmt"

// unnamedEntry: modules with unnamed globals/functions/locals (each alone in its module).
func unnamedEntry() Entry {
	return Entry{Name: "unnamed", Build: func(f *Frag) {
		f.Solo = true
		form := f.N("form", 19)
		switch form {
		case 11, 12: // a definition that carries a number of ANOTHER kind (#N / !N), N off the running count, between unnamed globals and functions
			filler := "attributes #2 = { nounwind }"
			if form == 12 {
				filler = "!2 = !{}"
			}
			f.TopLine("@0 = global i32 10")
			f.TopLine(filler)
			f.TopLine("@1 = global i32 11")
			f.TopLine("@2 = global i32 12")
			f.TopLine("@p = global i32* @2")
			f.TopLine("@r = global i32* @0")
			f.TopLine("define void @3() {\n  %%v = load i32, i32* @2\n  store i32 %%v, i32* @0\n  ret void\n}")
		case 17: // a cleanup pad nested in an UNNAMED parent pad
			f.TopLine("declare i32 @__CxxFrameHandler3(...)")
			f.TopLine("declare void @vf()")
			f.TopLine("define void @f() personality i8* bitcast (i32 (...)* @__CxxFrameHandler3 to i8*) {\n  invoke void @vf() to label %%1 unwind label %%2\n1:\n  ret void\n2:\n  %%3 = cleanuppad within none []\n  invoke void @vf() [ \"funclet\"(token %%3) ] to label %%4 unwind label %%5\n4:\n  cleanupret from %%3 unwind to caller\n5:\n  %%6 = cleanuppad within %%3 []\n  cleanupret from %%6 unwind to caller\n}")
		case 18: // a catchswitch nested in an UNNAMED parent pad
			f.TopLine("declare i32 @__CxxFrameHandler3(...)")
			f.TopLine("declare void @vf()")
			f.TopLine("define void @g() personality i8* bitcast (i32 (...)* @__CxxFrameHandler3 to i8*) {\n  invoke void @vf() to label %%1 unwind label %%2\n1:\n  ret void\n2:\n  %%3 = cleanuppad within none []\n  invoke void @vf() [ \"funclet\"(token %%3) ] to label %%4 unwind label %%5\n4:\n  cleanupret from %%3 unwind to caller\n5:\n  %%6 = catchswitch within %%3 [label %%7] unwind to caller\n7:\n  %%8 = catchpad within %%6 [i8* null, i32 64, i8* null]\n  catchret from %%8 to label %%4\n}")
		case 16: // an unnamed block and a block NAMED like its number in one function, both address-taken
			f.TopLine("@a = global i8* blockaddress(@f, %%1)")
			f.TopLine("@b = global i8* blockaddress(@f, %%\"1\")")
			f.TopLine("@c = global i8* blockaddress(@f, %%\"2\")")
			f.TopLine("@d = global i8* blockaddress(@f, %%2)")
			f.TopLine("define void @f() {\n  br label %%1\n1:\n  br label %%\"1\"\n\"1\":\n  br label %%\"2\"\n\"2\":\n  br label %%2\n2:\n  ret void\n}")
			f.TopLine("uselistorder_bb @f, %%\"1\", { 1, 0 }")
		case 13: // unnamed globals and functions in comdats NAMED like an ID (their own, a neighbour's)
			f.TopLine("$\"0\" = comdat any")
			f.TopLine("$\"1\" = comdat any")
			f.TopLine("$\"2\" = comdat any")
			f.TopLine("@0 = global i32 7, comdat($\"0\")")
			f.TopLine("@1 = global i32 8, comdat($\"2\")")
			f.TopLine("define void @2() comdat($\"2\") {\n  ret void\n}")
			f.TopLine("define void @3() comdat($\"1\") {\n  ret void\n}")
			f.TopLine("@u = global [2 x i32*] [i32* @1, i32* @0]")
		case 14: // unnamed values around unnamed exception-handling pads (catchswitch is a value-producing terminator)
			f.TopLine("declare i32 @__CxxFrameHandler3(...)")
			f.TopLine("declare void @g()")
			f.TopLine("define i32 @f(i32) personality i32 (...)* @__CxxFrameHandler3 {\n  %%2 = add i32 %%0, 1\n  invoke void @g()\n          to label %%3 unwind label %%4\n3:\n  ret i32 %%2\n4:\n  %%5 = catchswitch within none [label %%6] unwind to caller\n6:\n  %%7 = catchpad within %%5 [i8* null, i32 64, i8* null]\n  %%8 = add i32 %%2, 1\n  catchret from %%7 to label %%9\n9:\n  ret i32 %%8\n}")
		case 15: // unnamed cleanup pad and an unnamed catchswitch that unwinds to it, unnamed values in between
			f.TopLine("declare i32 @__CxxFrameHandler3(...)")
			f.TopLine("declare void @g()")
			f.TopLine("define i32 @f(i32) personality i32 (...)* @__CxxFrameHandler3 {\n  %%2 = add i32 %%0, 1\n  invoke void @g()\n          to label %%3 unwind label %%4\n3:\n  ret i32 %%2\n4:\n  %%5 = catchswitch within none [label %%6] unwind label %%10\n6:\n  %%7 = catchpad within %%5 [i8* null, i32 64, i8* null]\n  %%8 = mul i32 %%2, 3\n  catchret from %%7 to label %%9\n9:\n  ret i32 %%8\n10:\n  %%11 = cleanuppad within none []\n  %%12 = sub i32 %%2, 5\n  cleanupret from %%11 unwind to caller\n}")
		case 9: // several unnamed functions of ONE type, each referred to in every way a function can be
			f.TopLine("define void @0() {\n  ret void\n}")
			f.TopLine("define void @1() {\n  ret void\n}")
			f.TopLine("define void @2() {\n  ret void\n}")
			f.TopLine("@a = global void ()* dso_local_equivalent @1")
			f.TopLine("@b = global void ()* dso_local_equivalent @2")
			f.TopLine("@c = global void ()* no_cfi @2")
			f.TopLine("@d = global void ()* no_cfi @1")
			f.TopLine("@e = global [3 x void ()*] [void ()* @2, void ()* @0, void ()* @1]")
			f.TopLine("@f = alias void (), void ()* @1")
			f.TopLine("define void @user() personality void ()* @2 {\n  call void @1()\n  call void @0()\n  call void dso_local_equivalent @2()\n  ret void\n}")
		case 10: // several unnamed globals / aliases of one type referred to from constants and instructions
			f.TopLine("@0 = global i32 10")
			f.TopLine("@1 = global i32 11")
			f.TopLine("@2 = global i32 12")
			f.TopLine("@3 = alias i32, i32* @1")
			f.TopLine("@4 = alias i32, i32* @2")
			f.TopLine("@t = global [4 x i32*] [i32* @2, i32* @4, i32* @0, i32* @3]")
			f.TopLine("@u = global i64 add (i64 ptrtoint (i32* @1 to i64), i64 ptrtoint (i32* @3 to i64))")
			f.TopLine("define i32 @user() {\n  %%x = load i32, i32* @2\n  %%y = load i32, i32* @4\n  store i32 %%x, i32* @0\n  %%z = add i32 %%x, %%y\n  ret i32 %%z\n}")
		case 7: // a definition that carries a number of another kind (!N) between unnamed globals
			f.TopLine("@0 = global i32 10")
			f.TopLine("!3 = !{}")
			f.TopLine("@1 = global i32 20")
			f.TopLine("@p = global i32* @1")
			f.TopLine("!nm = !{!3}")
		case 8: // an attribute group definition between unnamed functions
			f.TopLine("define void @0() {\n  ret void\n}")
			f.TopLine("attributes #5 = { nounwind }")
			f.TopLine("define void @1() #5 {\n  ret void\n}")
			f.TopLine("define void @caller() {\n  call void @1()\n  ret void\n}")
		case 6: // two unnamed functions with equally named labels; blockaddress into both
			f.TopLine("@ba0 = global i8* blockaddress(@0, %%a)")
			f.TopLine("@ba1 = global i8* blockaddress(@1, %%a)")
			f.TopLine("define void @0() {\nentry:\n  br label %%a\na:\n  br label %%extra\nextra:\n  ret void\n}")
			f.TopLine("define void @1() {\nentry:\n  br label %%a\na:\n  ret void\n}")
		case 0: // two unnamed functions, each with its own blocks, blockaddress into both
			f.TopLine("@ba0 = global i8* blockaddress(@0, %%only0)")
			f.TopLine("@ba1 = global i8* blockaddress(@1, %%only1)")
			f.TopLine("define void @0() {\nentry:\n  br label %%only0\nonly0:\n  ret void\n}")
			f.TopLine("define void @1() {\nentry:\n  br label %%only1\nonly1:\n  ret void\n}")
		case 1: // unnamed globals and functions, unnamed locals
			f.TopLine("@0 = global i32 1")
			f.TopLine("@1 = global i32* @0")
			f.TopLine("define i32 @2(i32, i32) {\n  %%3 = add i32 %%0, %%1\n  %%4 = load i32, i32* @0\n  br label %%5\n5:\n  %%6 = add i32 %%3, %%4\n  ret i32 %%6\n}")
			f.TopLine("define i32 @3() {\n  %%1 = call i32 @2(i32 1, i32 2)\n  ret i32 %%1\n}")
		case 2: // implicit numbering
			f.TopLine("define i32 @%sf(i32, i32) {\n  add i32 %%0, %%1\n  call void @%sv()\n  mul i32 %%3, 2\n  ret i32 %%4\n}", f.P, f.P)
			f.TopLine("declare void @%sv()", f.P)
		case 3: // uselistorder_bb and blockaddress in an unnamed function
			f.TopLine("@p = global i8* blockaddress(@0, %%bb)")
			f.TopLine("@q = global i8* blockaddress(@0, %%bb)")
			f.TopLine("define void @0() {\nentry:\n  br label %%bb\nbb:\n  ret void\n}")
			f.TopLine("uselistorder_bb @0, %%bb, { 1, 0 }")
		case 4: // unnamed alias and ifunc
			f.TopLine("@0 = global i32 0")
			f.TopLine("@1 = alias i32, i32* @0")
			f.TopLine("define i32 ()* @2() {\n  ret i32 ()* null\n}")
		case 5: // numeric quoted names next to unnamed values
			f.TopLine("@\"0\" = global i32 5")
			f.TopLine("@0 = global i32 6")
			f.TopLine("define i32 @1(i32 %%\"0\") {\n  %%1 = add i32 %%\"0\", 1\n  ret i32 %%1\n}")
		}
	}}
}

// RefEntries: reference topologies (forward, mutual, cyclic, cross-function) for C04/C05/C12.
// nameShapesEntry: one NAME, spelled in each lexical shape (plain, all digits, leading zeros,
// signed number, spaces, enclosed in quote characters, leading digit), carried by each kind of named
// entity together with the references that must find it again (same-named comdats in the bare and
// the explicit spelling, uses of locals, type uses, callee and address uses, aliases).
func nameShapesEntry() Entry {
	return Entry{Name: "name-shapes", Build: func(f *Frag) {
		u := f.MDID() // a number unique in the module
		var n string  // the spelling after the sigil
		switch f.N("shape", 12) {
		case 8: // ASCII punctuation between the upper- and lower-case letters (needs quotes)
			n = fmt.Sprintf(`"%stab[0]"`, f.P)
		case 9:
			n = fmt.Sprintf(`"%sx^y"`, f.P)
		case 10:
			n = fmt.Sprintf("\"%sq`r\"", f.P)
		case 11: // punctuation below and above the digits
			n = fmt.Sprintf(`"%sa/b:c@d"`, f.P)
		case 0:
			n = f.P + "n"
		case 1:
			n = fmt.Sprintf(`"%d"`, u)
		case 2:
			n = fmt.Sprintf(`"00%d"`, u)
		case 3:
			n = fmt.Sprintf(`"-%d"`, u)
		case 4:
			n = fmt.Sprintf(`"%s a b"`, f.P)
		case 5:
			n = fmt.Sprintf(`"\22%s\22"`, f.P)
		case 6:
			n = fmt.Sprintf(`"%d%s"`, u%10, f.P)
		case 7:
			n = fmt.Sprintf(`"+%d"`, u)
		}
		switch f.N("entity", 10) {
		case 0: // global in the same-named comdat, bare spelling
			f.TopLine("$%s = comdat any", n)
			f.TopLine("@%s = global i32 0, comdat", n)
		case 1: // explicit spelling
			f.TopLine("$%s = comdat any", n)
			f.TopLine("@%s = global i32 0, comdat($%s)", n, n)
		case 2: // function in the same-named comdat, bare
			f.TopLine("$%s = comdat any", n)
			f.TopLine("define void @%s() comdat {\n  ret void\n}", n)
		case 3: // function, explicit
			f.TopLine("$%s = comdat any", n)
			f.TopLine("define void @%s() comdat($%s) {\n  ret void\n}", n, n)
		case 4: // parameter and its use
			f.TopLine("define i32 @%sf(i32 %%%s) {\n  ret i32 %%%s\n}", f.P, n, n)
		case 5: // instruction result and label carrying the name itself
			f.TopLine("define i32 @%sf(i32 %%x) {\n  br label %%%s\n%s:\n  %%v = add i32 %%x, 1\n  ret i32 %%v\n}", f.P, n, n)
			f.TopLine("define i32 @%sg(i32 %%x) {\n  %%%s = add i32 %%x, 1\n  ret i32 %%%s\n}", f.P, n, n)
		case 6: // type name and its use
			f.TopLine("%%%s = type { i32, %%%s* }", n, n)
			f.TopLine("@%sg = global %%%s zeroinitializer", f.P, n)
		case 7: // global used by address
			f.TopLine("@%s = global i32 3", n)
			f.TopLine("@%sp = global i32* @%s", f.P, n)
		case 8: // alias and ifunc
			f.TopLine("@%sbase = global i32 3", f.P)
			f.TopLine("@%s = alias i32, i32* @%sbase", n, f.P)
			f.TopLine("@%sq = global i32* @%s", f.P, n)
		case 9: // function used as callee before and after its definition
			f.TopLine("define void @%sc1() {\n  call void @%s()\n  ret void\n}", f.P, n)
			f.TopLine("define void @%s() {\n  ret void\n}", n)
			f.TopLine("define void @%sc2() {\n  call void @%s()\n  ret void\n}", f.P, n)
		}
	}}
}

// bigNumberNamesEntry: definitions of the SORTED sections (types, comdats, named metadata) whose
// names differ only in an embedded number that does not fit 64 bits (same digit count): their
// printed order must not depend on anything but the names.
func bigNumberNamesEntry() Entry {
	return Entry{Name: "big-number-names", Build: func(f *Frag) {
		nums := [][]string{
			{"18446744073709551616", "18446744073709551617", "18446744073709551615"},
			{"36893488147419103233", "36893488147419103232", "99999999999999999999"},
			{"340282366920938463463374607431768211456", "340282366920938463463374607431768211455", "340282366920938463463374607431768211457"},
		}[f.N("numbers", 3)]
		switch f.N("section", 3) {
		case 0:
			for i, n := range nums {
				f.TopLine("%%%st.%s = type { [%d x i8] }", f.P, n, i+1)
				f.TopLine("@%sg%d = global %%%st.%s zeroinitializer", f.P, i, f.P, n)
			}
		case 1:
			for i, n := range nums {
				f.TopLine("$%sc.%s = comdat any", f.P, n)
				f.TopLine("@%sg%d = global i32 %d, comdat($%sc.%s)", f.P, i, i, f.P, n)
			}
		case 2:
			for i, n := range nums {
				id := f.MDID()
				f.TailLine("!%d = !{i32 %d}", id, i)
				f.TailLine("!%sn.%s = !{!%d}", f.P, n, id)
			}
		}
	}}
}

func RefEntries() []Entry {
	return []Entry{
		unnamedEntry(),
		nameShapesEntry(),
		bigNumberNamesEntry(),
		{Name: "ref-patterns", Build: func(f *Frag) {
			p := f.P
			switch f.N("form", 16) {
			case 0: // globals initialised with each other's addresses (cycle, forward)
				f.TopLine("@%sa = global i8** @%sb", p, p)
				f.TopLine("@%sb = global i8* bitcast (i8*** @%sa to i8*)", p, p)
			case 1: // function used before its definition, recursive call
				f.TopLine("@%sfp = global i32 (i32)* @%sf", p, p)
				f.TopLine("define i32 @%sf(i32 %%x) {\n  %%r = call i32 @%sf(i32 %%x)\n  %%s = call i32 @%sg(i32 %%r)\n  ret i32 %%s\n}", p, p, p)
				f.TopLine("define i32 @%sg(i32 %%x) {\n  %%r = call i32 @%sf(i32 %%x)\n  ret i32 %%r\n}", p, p)
			case 2: // phi / branch cycle, use before definition in layout order
				f.TopLine("define i32 @%sf(i32 %%n, i1 %%c) {\nentry:\n  br label %%loop\nloop:\n  %%i = phi i32 [ 0, %%entry ], [ %%next, %%latch ]\n  br i1 %%c, label %%latch, label %%exit\nexit:\n  ret i32 %%i\nlatch:\n  %%next = add i32 %%i, 1\n  %%next2 = add i32 %%next, %%n\n  br i1 %%c, label %%loop, label %%exit\n}", p)
			case 3: // same local names in two functions
				f.TopLine("define i32 @%sf(i32 %%x) {\nentry:\n  %%v = add i32 %%x, 1\n  br label %%bb\nbb:\n  ret i32 %%v\n}", p)
				f.TopLine("define i64 @%sg(i64 %%x) {\nentry:\n  %%v = add i64 %%x, 2\n  br label %%bb\nbb:\n  ret i64 %%v\n}", p)
			case 4: // blockaddress of a block in another function, forward
				f.TopLine("@%sba = global i8* blockaddress(@%sg, %%target)", p, p)
				f.TopLine("define i8* @%sf() {\ntarget:\n  ret i8* blockaddress(@%sg, %%target)\n}", p, p)
				f.TopLine("define void @%sg() {\nentry:\n  br label %%target\ntarget:\n  ret void\n}", p)
			case 5: // blockaddress of own block as operand; same label name elsewhere
				f.TopLine("define i8* @%sf(i1 %%c) {\nentry:\n  %%s = select i1 %%c, i8* blockaddress(@%sf, %%L), i8* blockaddress(@%sg, %%L)\n  br label %%L\nL:\n  ret i8* %%s\n}", p, p, p)
				f.TopLine("define void @%sg() {\nentry:\n  br label %%L\nL:\n  ret void\n}", p)
			case 6: // recursive and mutually recursive types, used in instructions
				f.TopLine("%%%sn = type { i32, %%%sn*, %%%sm* }", p, p, p)
				f.TopLine("%%%sm = type { %%%sn, [2 x %%%sm*] }", p, p, p)
				f.TopLine("define %%%sn* @%sf(%%%sm* %%x) {\n  %%q = getelementptr %%%sm, %%%sm* %%x, i32 0, i32 0, i32 1\n  %%r = load %%%sn*, %%%sn** %%q\n  ret %%%sn* %%r\n}", p, p, p, p, p, p, p, p)
			case 7: // metadata cycle, forward references, attachment before definition
				a, b, c := f.MDID(), f.MDID(), f.MDID()
				f.TopLine("define void @%sf() !foo !%d {\n  ret void, !bar !%d\n}", p, c, a)
				f.TailLine("!%sn = !{!%d, !%d}", p, c, a)
				f.TailLine("!%d = distinct !{!%d, !%d}", a, b, a)
				f.TailLine("!%d = !{!%d}", b, c)
				f.TailLine("!%d = distinct !{!%d, !%d}", c, a, c)
			case 8: // alias of alias, ifunc, alias to function
				f.TopLine("@%sg = global i32 1", p)
				f.TopLine("@%sa2 = alias i32, i32* @%sa1", p, p)
				f.TopLine("@%sa1 = alias i32, i32* @%sg", p, p)
				f.TopLine("@%sfa = alias void (), void ()* @%sf", p, p)
				f.TopLine("define void @%sf() {\n  ret void\n}", p)
				f.TopLine("@%suse = global [2 x i32*] [i32* @%sa2, i32* @%sa1]", p, p, p)
			case 9: // shared comdat and shared attribute group
				id := f.AttrID()
				f.TopLine("$%sc = comdat any", p)
				f.TopLine("@%sg = global i32 0, comdat($%sc)", p, p)
				f.TopLine("define void @%sf() #%d comdat($%sc) {\n  ret void\n}", p, id, p)
				f.TopLine("define void @%sg2() #%d comdat($%sc) {\n  call void @%sf() #%d\n  ret void\n}", p, id, p, p, id)
				f.TailLine("attributes #%d = { nounwind }", id)
			case 10: // instruction used by an earlier block's phi and by a later terminator; invoke result
				f.Need(declPers, declF1)
				f.TopLine("define i32 @%sf(i32 %%a) personality i8* bitcast (i32 (...)* @__gxx_personality_v0 to i8*) {\nentry:\n  %%r = invoke i32 @f1(i32 %%a) to label %%ok unwind label %%lp\nok:\n  %%p = phi i32 [ %%r, %%entry ]\n  ret i32 %%p\nlp:\n  %%l = landingpad { i8*, i32 } cleanup\n  resume { i8*, i32 } %%l\n}", p)
			case 11: // global referenced from a function defined before it; personality/prefix references
				f.Need(declPers)
				f.TopLine("define i32 @%sf() prefix i32* @%slate {\n  %%v = load i32, i32* @%slate\n  ret i32 %%v\n}", p, p, p)
				f.TopLine("@%slate = global i32 7", p)
			case 12: // use-list order directives referencing locals, globals and blocks
				f.TopLine("@%sg = global i32 0", p)
				f.TopLine("define void @%sf(i32 %%a) {\nentry:\n  %%x = add i32 %%a, 1\n  %%y = add i32 %%a, 2\n  store i32 %%x, i32* @%sg\n  store i32 %%y, i32* @%sg\n  br label %%bb\nbb:\n  ret void\n  uselistorder i32 %%a, { 1, 0 }\n}", p, p, p)
				f.TopLine("uselistorder i32* @%sg, { 1, 0 }", p)
			case 14: // blockaddress inside a numbered metadata definition and an inline attachment
				a := f.MDID()
				f.TopLine("define void @%sf() {\nentry:\n  br label %%bb\nbb:\n  ret void, !foo !{i8* blockaddress(@%sf, %%bb)}\n}", p, p)
				f.TailLine("!%d = !{i8* blockaddress(@%sf, %%bb), i8* blockaddress(@%sf, %%bb)}", a, p, p)
				f.TailLine("!%sn = !{!%d}", p, a)
			case 15: // module-level use-list order of a blockaddress constant
				f.TopLine("@%sa = global i8* blockaddress(@%sf, %%bb)", p, p)
				f.TopLine("@%sb = global i8* blockaddress(@%sf, %%bb)", p, p)
				f.TopLine("define void @%sf() {\nentry:\n  br label %%bb\nbb:\n  ret void\n}", p)
				f.TopLine("uselistorder i8* blockaddress(@%sf, %%bb), { 1, 0 }", p)
			case 13: // named type used only inside another type and a constant
				f.TopLine("%%%sin = type { i8 }", p)
				f.TopLine("%%%sout = type { [2 x %%%sin], %%%sin* }", p, p, p)
				f.TopLine("@%sg = global %%%sout { [2 x %%%sin] [%%%sin { i8 1 }, %%%sin zeroinitializer], %%%sin* null }", p, p, p, p, p, p)
			}
		}},
	}
}
