package gen

// Catalogue returns all entries.
func Catalogue() []Entry {
	var es []Entry
	es = append(es, InstEntries()...)
	es = append(es, TermEntries()...)
	es = append(es, ConstEntries()...)
	es = append(es, ModuleEntries()...)
	es = append(es, MDEntries()...)
	es = append(es, RefEntries()...)
	return es
}
