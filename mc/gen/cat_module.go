package gen

import (
	"fmt"
	"strings"
)

var linkages = []string{"", "private ", "internal ", "weak ", "weak_odr ", "linkonce ", "linkonce_odr ", "common ", "appending ", "available_externally ", "external "}

// ModuleEntries: globals, function headers, attributes, comdats, aliases, ifuncs, metadata, misc.
func ModuleEntries() []Entry {
	return []Entry{
		{Name: "global", Build: func(f *Frag) {
			name := f.Uniq("g")
			link := f.Alt("linkage", linkages...)
			t, init := "i32", " 0"
			switch strings.TrimSpace(link) {
			case "appending":
				t, init = "[1 x i32]", " [i32 1]"
			case "common":
				init = " 0"
			case "external":
				init = ""
			}
			if link == "" && f.Flip("extern_weak") {
				link, init = "extern_weak ", ""
			}
			pre := f.Alt("preemption", "", "dso_local ", "dso_preemptable ")
			vis := f.Alt("visibility", "", "hidden ", "protected ", "default ")
			dll := ""
			if vis == "" && (link == "" || link == "external ") {
				dll = f.Alt("dll", "", "dllimport-or-export")
				if dll != "" {
					if init == "" {
						dll = "dllimport "
					} else {
						dll = "dllexport "
					}
				}
			}
			if (vis == "hidden " || vis == "protected ") && pre == "dso_preemptable " {
				pre = ""
			}
			if link == "private " || link == "internal " {
				vis = ""
				if pre == "dso_preemptable " {
					pre = ""
				}
			}
			tls := f.Alt("tls", "", "thread_local ", "thread_local(localdynamic) ", "thread_local(initialexec) ", "thread_local(localexec) ")
			if link == "common " {
				tls = ""
			}
			ua := f.Alt("unnamed_addr", "", "unnamed_addr ", "local_unnamed_addr ")
			as := f.Opt("addrspace", "addrspace(2) ")
			ei := f.Opt("externally_initialized", "externally_initialized ")
			mut := f.Alt("mutability", "global", "constant")
			if link == "common " {
				mut = "global"
			}
			tail := ""
			if f.Flip("section") {
				tail += `, section "my sec \5Cde\5C\5Cx"` // (bytes: backslash d e backslash backslash x)
			}
			if f.Flip("partition") && init != "" && link != "common " {
				tail += `, partition "part\5Cab"`
			}
			if init != "" && link != "common " {
				switch f.N("comdat", 3) {
				case 1:
					if link != "private " && link != "internal " || true {
						f.TopLine("$%s = comdat any", name)
						tail += ", comdat"
					}
				case 2:
					cn := f.Uniq("c")
					f.TopLine("$%s = comdat %s", cn, f.Alt("selection-kind", "any", "exactmatch", "largest", "nodeduplicate", "samesize"))
					tail += ", comdat($" + cn + ")"
				}
			}
			if f.Flip("align") {
				tail += ", align 16"
			}
			switch f.N("metadata", 4) {
			case 1:
				id := f.MDID()
				f.TailLine("!%d = !{i32 1}", id)
				tail += fmt.Sprintf(", !foo !%d", id)
			case 2: // several attachments of ONE kind (globals and functions keep all of them)
				id, id2 := f.MDID(), f.MDID()
				f.TailLine("!%d = !{i32 1}", id)
				f.TailLine("!%d = !{i32 2}", id2)
				tail += fmt.Sprintf(", !foo !%d, !foo !%d", id, id2)
			case 3:
				id, id2, id3 := f.MDID(), f.MDID(), f.MDID()
				f.TailLine("!%d = !{i32 1}", id)
				f.TailLine("!%d = !{i32 2}", id2)
				f.TailLine("!%d = !{i32 3}", id3)
				tail += fmt.Sprintf(", !foo !%d, !bar !%d, !foo !%d", id, id2, id3)
			}
			if f.Flip("attributes") {
				id := f.AttrID()
				f.TailLine(`attributes #%d = { "key"="val" }`, id)
				tail += fmt.Sprintf(" #%d", id)
			}
			f.TopLine("@%s = %s%s%s%s%s%s%s%s%s %s%s%s", name, link, pre, vis, dll, tls, ua, as, ei, mut, t, init, tail)
		}},
		{Name: "global-unnamed+quoted", Build: func(f *Frag) {
			switch f.N("form", 3) {
			case 0:
				f.TopLine(`@"%s a b" = global i32 1`, f.P)
			case 1:
				f.TopLine(`@"%s\22q\5C" = global i32 1`, f.P)
			case 2:
				f.TopLine(`@%s.x-y$z = global i32 1`, f.P)
			}
		}},
		{Name: "alias+ifunc", Build: func(f *Frag) {
			f.Need("@G = global i32 0", "@H = global i8 0")
			name := f.Uniq("a")
			if f.Flip("ifunc") {
				res := "@" + f.Uniq("resolver")
				f.TopLine("define i32 (i32)* %s() {\n  ret i32 (i32)* null\n}", res)
				if f.Flip("resolver-expr") {
					// the resolver is a constant expression over a function of another type
					r2 := "@" + f.Uniq("resolver8")
					f.TopLine("define i8* %s() {\n  ret i8* null\n}", r2)
					res = fmt.Sprintf("bitcast (i8* ()* %s to i32 (i32)* ()*)", r2)
				}
				f.TopLine("@%s = %s%sifunc i32 (i32), i32 (i32)* ()* %s", name, f.Alt("linkage", "", "internal ", "weak ", "linkonce_odr "), f.Alt("visibility", "", "hidden ", "protected "), res)
				return
			}
			link := f.Alt("linkage", "", "private ", "internal ", "weak ", "weak_odr ", "linkonce ", "linkonce_odr ", "external ")
			pre := f.Alt("preemption", "", "dso_local ")
			vis := ""
			if link != "private " && link != "internal " {
				vis = f.Alt("visibility", "", "hidden ", "protected ")
			}
			tls := f.Opt("tls", "thread_local ")
			ua := f.Alt("unnamed_addr", "", "unnamed_addr ", "local_unnamed_addr ")
			target := f.Alt("aliasee", "i32, i32* @G", "i8, i8* bitcast (i32* @G to i8*)", "i8, i8* getelementptr (i8, i8* @H, i32 0)", "i32, i32* inttoptr (i64 ptrtoint (i32* @G to i64) to i32*)")
			tail := f.Opt("partition", `, partition "p"`)
			f.TopLine("@%s = %s%s%s%s%salias %s%s", name, link, pre, vis, tls, ua, target, tail)
		}},
		{Name: "func-declaration", Build: func(f *Frag) { funcHeader(f, false) }},
		{Name: "func-header", Build: func(f *Frag) {
			funcHeader(f, !f.Flip("declaration"))
		}},
		{Name: "types", Build: func(f *Frag) {
			p := f.P
			switch f.N("form", 12) {
			case 9: // non-struct type alias
				f.TopLine("%%%st = type i32", p)
				f.TopLine("@%sg = global %%%st 5", p, p)
			case 11: // alias of an alias
				f.TopLine("%%%sx = type i32", p)
				f.TopLine("%%%st = type %%%sx", p, p)
				f.TopLine("@%sg = global %%%st 5", p, p)
			case 10: // alias of pointer/array types used in an instruction
				f.TopLine("%%%sp = type i32*", p)
				f.TopLine("%%%sa = type [2 x %%%sp]", p, p)
				f.TopLine("define %%%sp @%sf(%%%sa %%x) {\n  %%e = extractvalue %%%sa %%x, 1\n  ret %%%sp %%e\n}", p, p, p, p, p)
			case 0:
				f.TopLine("%%%st = type { i32, float }", p)
				f.TopLine("@%sg = global %%%st zeroinitializer", p, p)
			case 1:
				f.TopLine("%%%st = type <{ i8, i32 }>", p)
				f.TopLine("@%sg = global %%%st zeroinitializer", p, p)
			case 2:
				f.TopLine("%%%st = type opaque", p)
				f.TopLine("@%sg = external global %%%st", p, p)
			case 3: // self-recursive
				f.TopLine("%%%st = type { i32, %%%st* }", p, p)
				f.TopLine("@%sg = global %%%st zeroinitializer", p, p)
			case 4: // mutually recursive, forward reference
				f.TopLine("%%%sa = type { %%%sb* }", p, p)
				f.TopLine("%%%sb = type { %%%sa*, i32 }", p, p)
				f.TopLine("@%sg = global %%%sa zeroinitializer", p, p)
			case 5: // empty struct, nested named
				f.TopLine("%%%se = type {}", p)
				f.TopLine("%%%st = type { %%%se, [2 x %%%se] }", p, p, p)
				f.TopLine("@%sg = global %%%st zeroinitializer", p, p)
			case 6: // function pointer types
				f.TopLine("%%%st = type { i32 (i8*, ...)*, void ()*, %%%st* (%%%st*)* }", p, p, p)
				f.TopLine("@%sg = global %%%st zeroinitializer", p, p)
			case 7: // vectors, arrays, address spaces
				f.TopLine("%%%st = type { <4 x float>, [0 x i8], i32 addrspace(3)*, <2 x i8*>, x86_mmx, half }", p)
				f.TopLine("@%sg = external global %%%st", p, p)
			case 8: // quoted type name
				f.TopLine("%%\"%s t y\" = type { i8 }", p)
				f.TopLine("@%sg = global %%\"%s t y\" zeroinitializer", p, p)
			}
		}},
		{Name: "attribute-group", Build: func(f *Frag) {
			id := f.AttrID()
			attrs := f.Alt("attrs", "nounwind", "nounwind readnone", `"k"="v"`, `"k"`, "alignstack=16", "align=8-skip", `"a"="b" "c"="d" nounwind`, "noinline optnone", "uwtable", "allocsize(0,1)", "vscale_range(2,4)", `"no-frame-pointer-elim"="true" "stack-protector-buffer-size"="8"`, `"k"="v" "k" = "v" nounwind nounwind`)
			if strings.HasSuffix(attrs, "-skip") {
				attrs = "nounwind"
			}
			// (several definitions of one ID are merged by the library but LLVM 14 keeps only the
			// last one for a forward-referenced group: outside the LLVM-compared alphabet, see
			// DESIGN 2b; exercised by C02 only)
			two := f.Flip("defined-twice")
			if two {
				f.NoLLVM = true
			}
			f.TailLine("attributes #%d = { %s }", id, attrs)
			if two {
				f.TailLine("attributes #%d = { cold }", id)
			}
			params := "i32 %a, i32 %b"
			f.TopLine("define void @%s(%s) #%d {\n  ret void\n}", f.Uniq("f"), params, id)
		}},
		{Name: "module-misc", Build: func(f *Frag) {
			switch f.N("form", 5) {
			case 0:
				f.Need(`target datalayout = "e-m:e-p270:32:32-p271:32:32-p272:64:64-i64:64-f80:128-n8:16:32:64-S128"`)
			case 1:
				f.Need(`target triple = "x86_64-unknown-linux-gnu"`)
			case 2:
				f.Need(`module asm "nop"`, `module asm ".globl foo\0A\22quoted\22"`, `module asm ".macro m base\0A\5Cbase\0A.endm"`)
			case 3:
				f.Need(`source_filename = "C:\5CUsers\5Cdev\5Ca1\5Cmain.c"`)
			case 4:
				f.Need("@G = global i32 0")
				f.TopLine("define void @%s(i32 %%a) {\n  %%x = add i32 %%a, 1\n  %%y = add i32 %%a, 2\n  %%z = add i32 %%a, 3\n  ret void\n  uselistorder i32 %%a, { 2, 0, 1 }\n}", f.Uniq("f"))
			}
			f.TopLine("@%s = global i8 0", f.Uniq("g"))
		}},
	}
}

// funcHeader emits a function definition (def) or declaration with optional header fields.
func funcHeader(f *Frag, def bool) {
	link := ""
	if def {
		link = f.Alt("linkage", "", "private ", "internal ", "weak ", "weak_odr ", "linkonce ", "linkonce_odr ", "available_externally ", "external ")
	} else {
		link = f.Alt("linkage", "", "extern_weak ", "external ")
	}
	pre := f.Alt("preemption", "", "dso_local ", "dso_preemptable ")
	vis := ""
	if link != "private " && link != "internal " {
		vis = f.Alt("visibility", "", "hidden ", "protected ", "default ")
	}
	if vis == "hidden " || vis == "protected " || link == "private " || link == "internal " {
		if pre == "dso_preemptable " {
			pre = ""
		}
	}
	dll := ""
	if vis == "" && link == "" {
		if f.Flip("dll") {
			if def {
				dll = "dllexport "
			} else {
				dll = "dllimport "
			}
		}
	}
	cc := f.Alt("callconv", callConvs...)
	ra := f.Alt("ret-attrs", "", "zeroext ", "signext ", "noundef ", "inreg ")
	rt := "i32"
	if strings.Contains(ra, "noalias") {
		rt = "i8*"
	}
	var params []string
	switch f.N("params", 5) {
	case 1:
		params = []string{"i32 %a"}
	case 2:
		params = []string{"i32 " + f.Alt("param-attrs", "signext", "zeroext", "inreg", "noundef", "returned") + " %a", "float %b"}
		if strings.Contains(params[0], "returned") {
			rt = "i32"
		}
	case 3:
		params = []string{"i8* " + f.Alt("ptr-attrs", "nocapture", "noalias", "nonnull", "readonly", "byval(i8)", "sret(i8)", "align 8", "dereferenceable(8)", "dereferenceable_or_null(8)", "nest", "inalloca(i8)", "byref(i8)", "preallocated(i8)", "swiftself", "noalias nocapture readonly", "nofree", "immarg-skip", "elementtype-skip") + " %p"}
		if strings.HasSuffix(strings.Fields(params[0])[1], "-skip") {
			params = []string{"i8* %p"}
		}
	case 4:
		params = []string{"i32 %a", "..."}
	}
	if !def {
		for i := range params {
			if f2 := strings.Fields(params[i]); len(f2) > 1 && strings.HasPrefix(f2[len(f2)-1], "%") && f.c.Trace != nil {
				// declarations may omit parameter names
				_ = f2
			}
		}
	}
	ua := f.Alt("unnamed_addr", "", " unnamed_addr", " local_unnamed_addr")
	as := f.Opt("addrspace", " addrspace(1)")
	fa := f.Alt("func-attrs", "", " nounwind", " noinline optnone", " alwaysinline", " readnone", " readonly willreturn", " noreturn", " \"frame-pointer\"=\"all\"", " \"k\"", " uwtable", " alignstack(16)", " allocsize(0)", " inaccessiblememonly", " cold minsize optsize", " nosync nofree norecurse", " speculatable", " ssp", " sspstrong", " sanitize_address", " mustprogress", " vscale_range(1,16)", " strictfp", " null_pointer_is_valid", " nocallback")
	if strings.Contains(fa, "allocsize") && len(params) == 0 {
		fa = ""
	}
	if strings.Contains(fa, "allocsize") && !strings.HasPrefix(params[0], "i32") {
		fa = ""
	}
	if f.Flip("attr-group") {
		id := f.AttrID()
		f.TailLine("attributes #%d = { nounwind \"g\"=\"h\" }", id)
		fa += fmt.Sprintf(" #%d", id)
	}
	sec := f.Opt("section", ` section "fsec\5Cfe"`)
	part := ""
	if def {
		part = f.Opt("partition", ` partition "fp"`)
	}
	name := f.Uniq("fn")
	comdat := ""
	if def {
		switch f.N("comdat", 3) {
		case 1:
			f.TopLine("$%s = comdat any", name)
			comdat = " comdat"
		case 2:
			cn := f.Uniq("c")
			f.TopLine("$%s = comdat largest", cn)
			comdat = " comdat($" + cn + ")"
		}
	}
	al := f.Opt("align", " align 32")
	gc := f.Opt("gc", ` gc "statepoint-example"`)
	extra := ""
	if def {
		// independent options, in grammar order, so that combinations (and, for C05, a
		// fault in an earlier field followed by a good later field) are enumerated.
		switch f.N("prefix", 3) {
		case 1:
			extra += " prefix i32 123"
		case 2:
			g := f.Uniq("pfx")
			f.TopLine("@%s = global i32 7", g)
			extra += " prefix i32* @" + g
		}
		switch f.N("prologue", 3) {
		case 1:
			extra += " prologue i8 144"
		case 2:
			g := f.Uniq("plg")
			f.TopLine("@%s = global i8 9", g)
			extra += " prologue i8* @" + g
		}
		if f.Flip("personality") {
			f.Need(declPers)
			extra += " personality i8* bitcast (i32 (...)* @__gxx_personality_v0 to i8*)"
		}
	}
	md := ""
	switch f.N("metadata", 3) {
	case 1:
		id := f.MDID()
		f.TailLine("!%d = !{i32 5}", id)
		md = fmt.Sprintf(" !foo !%d", id)
	case 2: // two attachments of one kind
		id, id2 := f.MDID(), f.MDID()
		f.TailLine("!%d = !{i32 5}", id)
		f.TailLine("!%d = !{i32 6}", id2)
		md = fmt.Sprintf(" !foo !%d !foo !%d", id, id2)
	}
	hdr := fmt.Sprintf("%s%s%s%s%s%s%s @%s(%s)%s%s%s%s%s%s%s%s%s", link, pre, vis, dll, cc, ra, rt, name, strings.Join(params, ", "), ua, as, fa, sec, part, comdat, al, gc, extra)
	if def {
		f.TopLine("define %s%s {\n  ret %s undef\n}", hdr, md, rt)
	} else {
		f.TopLine("declare%s %s", md, hdr)
	}

}
