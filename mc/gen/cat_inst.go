package gen

import (
	"fmt"
	"strings"
)

// Type universe U (default first in every class).
var (
	TInt     = []string{"i32", "i1", "i8", "i64", "i128"}
	TFP      = []string{"float", "double", "half", "x86_fp80", "fp128", "ppc_fp128"}
	TIntVec  = []string{"<2 x i32>", "<4 x i8>", "<vscale x 2 x i32>"}
	TFPVec   = []string{"<2 x float>", "<vscale x 2 x double>"}
	TPtr     = []string{"i32*", "i8 addrspace(1)*", "%S*", "i32 (i32)*", "i32**"}
	TPtrVec  = []string{"<2 x i32*>", "<vscale x 2 x i8*>"}
	TAgg     = []string{"{ i32, float }", "[2 x i32]", "%S", "<{ i8, i32 }>", "{ i32, { i8, [2 x float] } }"}
	TFirstCl = []string{"i32", "float", "i32*", "<2 x i32>", "{ i32, float }", "[2 x i32]", "%S", "i64", "double", "<vscale x 2 x i32>"}
)

const declS = "%S = type { i32, { i8, float } }"

// Type chooses a type from the concatenation of the classes.
func (f *Frag) Type(label string, classes ...[]string) string {
	var all []string
	for _, c := range classes {
		all = append(all, c...)
	}
	t := all[f.c.Choose(len(all), label)]
	if strings.Contains(t, "%S") {
		f.Need(declS)
	}
	if u, ok := typeAliases[t]; ok {
		f.Need(t + " = type " + u)
	}
	return t
}

// typeAliases are named NON-struct types of the wide universe (`%VA4i32 = type <4 x i32>`): LLVM
// reads them as the type itself, the library keeps the name on the type object, and a result type
// computed from an operand of such a type must not inherit the name.
var typeAliases = map[string]string{"%VA4i32": "<4 x i32>", "%VA2f": "<2 x float>", "%VAs2i64": "<vscale x 2 x i64>"}

// resolve expands a type alias.
func resolve(t string) string {
	if u, ok := typeAliases[t]; ok {
		return u
	}
	return t
}

func isVec(t string) bool {
	t = resolve(t)
	return strings.HasPrefix(t, "<") && !strings.HasPrefix(t, "<{")
}
func isScalable(t string) bool { return strings.HasPrefix(resolve(t), "<vscale") }

// vecOf returns the vector type with the shape of like and element elem.
func vecOf(like, elem string) string {
	if !isVec(like) {
		return elem
	}
	like = resolve(like)
	i := strings.LastIndex(like, " x ")
	return like[:i] + " x " + elem + ">"
}

func elemOf(t string) string {
	if !isVec(t) {
		return t
	}
	t = resolve(t)
	i := strings.LastIndex(t, " x ")
	return t[i+3 : len(t)-1]
}

var fastMath = []string{"", " fast", " nnan", " ninf nsz", " arcp contract", " afn reassoc", " nnan ninf nsz arcp contract afn reassoc"}

// MD returns an optional metadata attachment on an instruction.
func (f *Frag) instMD() string {
	switch f.N("inst-md", 3) {
	case 1:
		id := f.MDID()
		f.TailLine("!%d = !{i32 1}", id)
		return fmt.Sprintf(", !foo !%d", id)
	case 2:
		id, id2 := f.MDID(), f.MDID()
		f.TailLine("!%d = !{!\"a\"}", id)
		f.TailLine("!%d = distinct !{}", id2)
		return fmt.Sprintf(", !foo !%d, !bar !%d", id, id2)
	}
	return ""
}

// Use makes the result r observable at type t (so that the printed module shows the type the
// library computed for it): it is stored through an undef pointer.
func (f *Frag) Use(t, r string) {
	f.Line("store %s %s, %s* undef", t, r, t)
	// ... and it is fed to an instruction that takes ITS result type from the operand type
	// spelled in the text (freeze), whose result is observed in turn: a parser that attaches a
	// wrong type to r prints another operand type, and the second parse types the chain
	// differently (print is no longer a fixpoint).
	f.nuse++
	u := fmt.Sprintf("%%u%d", f.nuse)
	f.Line("%s = freeze %s %s", u, t, r)
	f.Line("store %s %s, %s* undef", t, u, t)
}

// MDID allocates a module-unique metadata ID for the fragment.
func (f *Frag) MDID() int { f.nmd++; return f.MDBase + f.nmd - 1 }

// AttrID allocates a module-unique attribute group ID.
func (f *Frag) AttrID() int { f.nattr++; return f.AttrBase + f.nattr - 1 }

func binEntry(op, kind string, fp bool, flags []string) Entry {
	return Entry{Name: op, Build: func(f *Frag) {
		f.Kind(kind)
		f.Func("void")
		var t string
		if fp {
			t = f.Type("T", TFP, TFPVec)
		} else {
			t = f.Type("T", TInt, TIntVec)
		}
		a, b := f.Param(t), f.Param(t)
		fl := ""
		if fp {
			fl = f.Alt("fast-math", fastMath...)
		} else {
			for _, x := range flags {
				fl += f.Opt(x, " "+x)
			}
		}
		rhs := b
		switch f.N("rhs", 3) {
		case 1:
			if fp {
				rhs = map[bool]string{true: "zeroinitializer", false: "1.0"}[isVec(t)]
				if t == "x86_fp80" || t == "fp128" || t == "ppc_fp128" || t == "half" {
					rhs = map[string]string{"x86_fp80": "0xK3FFF8000000000000000", "fp128": "0xL00000000000000003FFF000000000000", "ppc_fp128": "0xM3FF00000000000000000000000000000", "half": "0xH3C00"}[t]
				}
			} else {
				rhs = map[bool]string{true: "zeroinitializer", false: "1"}[isVec(t)]
				if t == "i1" {
					rhs = "true"
				}
			}
		case 2:
			rhs = a
		}
		r := f.Res()
		f.Line("%s = %s%s %s %s, %s%s", r, op, fl, t, a, rhs, f.instMD())
		f.Use(t, r)
		f.End("")
	}}
}

func castEntry(op, kind string, from, to func(f *Frag) (string, string)) Entry {
	return Entry{Name: op, Build: func(f *Frag) {
		f.Kind(kind)
		f.Func("void")
		ft, tt := from(f)
		_ = to
		a := f.Param(ft)
		r := f.Res()
		f.Line("%s = %s %s %s to %s%s", r, op, ft, a, tt, f.instMD())
		f.Use(tt, r)
		f.End("")
	}}
}

// shapePair picks a vector shape (or scalar) and returns (from, to) types with that shape.
func shapePair(f *Frag, from, to []string) (string, string) {
	shape := f.Alt("shape", "", "<2 x _>", "<vscale x 4 x _>")
	ft := from[f.c.Choose(len(from), "from")]
	tt := to[f.c.Choose(len(to), "to")]
	if shape == "" {
		return ft, tt
	}
	return strings.Replace(shape, "_", ft, 1), strings.Replace(shape, "_", tt, 1)
}

var orderings = []string{"seq_cst", "monotonic", "acquire", "release", "acq_rel", "unordered"}

// InstEntries is the instruction part of the catalogue.
func InstEntries() []Entry {
	es := []Entry{
		{Name: "fneg", Build: func(f *Frag) {
			f.Kind("InstFNeg")
			f.Func("void")
			t := f.Type("T", TFP, TFPVec)
			a := f.Param(t)
			r := f.Res()
			f.Line("%s = fneg%s %s %s%s", r, f.Alt("fast-math", fastMath...), t, a, f.instMD())
			f.Use(t, r)
			f.End("")
		}},
		binEntry("add", "InstAdd", false, []string{"nuw", "nsw"}),
		binEntry("fadd", "InstFAdd", true, nil),
		binEntry("sub", "InstSub", false, []string{"nuw", "nsw"}),
		binEntry("fsub", "InstFSub", true, nil),
		binEntry("mul", "InstMul", false, []string{"nuw", "nsw"}),
		binEntry("fmul", "InstFMul", true, nil),
		binEntry("udiv", "InstUDiv", false, []string{"exact"}),
		binEntry("sdiv", "InstSDiv", false, []string{"exact"}),
		binEntry("fdiv", "InstFDiv", true, nil),
		binEntry("urem", "InstURem", false, nil),
		binEntry("srem", "InstSRem", false, nil),
		binEntry("frem", "InstFRem", true, nil),
		binEntry("shl", "InstShl", false, []string{"nuw", "nsw"}),
		binEntry("lshr", "InstLShr", false, []string{"exact"}),
		binEntry("ashr", "InstAShr", false, []string{"exact"}),
		binEntry("and", "InstAnd", false, nil),
		binEntry("or", "InstOr", false, nil),
		binEntry("xor", "InstXor", false, nil),
		{Name: "extractelement", Build: func(f *Frag) {
			f.Kind("InstExtractElement")
			f.Func("void")
			t := f.Type("T", TIntVec, TFPVec, TPtrVec)
			it := f.Alt("index-type", "i32", "i64", "i8")
			v := f.Param(t)
			idx := f.Param(it)
			if f.Flip("const-index") {
				idx = "1"
			}
			r := f.Res()
			f.Line("%s = extractelement %s %s, %s %s%s", r, t, v, it, idx, f.instMD())
			f.Use(elemOf(t), r)
			f.End("")
		}},
		{Name: "insertelement", Build: func(f *Frag) {
			f.Kind("InstInsertElement")
			f.Func("void")
			t := f.Type("T", TIntVec, TFPVec, TPtrVec)
			it := f.Alt("index-type", "i32", "i64")
			v, e := f.Param(t), f.Param(elemOf(t))
			idx := f.Param(it)
			if f.Flip("const-index") {
				idx = "0"
			}
			vv := v
			if f.Flip("undef-vector") {
				vv = "undef"
			}
			r := f.Res()
			f.Line("%s = insertelement %s %s, %s %s, %s %s%s", r, t, vv, elemOf(t), e, it, idx, f.instMD())
			f.Use(t, r)
			f.End("")
		}},
		{Name: "shufflevector", Build: func(f *Frag) {
			f.Kind("InstShuffleVector")
			f.Func("void")
			t := f.Alt("T", "<2 x i32>", "<4 x float>", "<vscale x 2 x i32>", "<2 x i8*>")
			a, b := f.Param(t), f.Param(t)
			var mask string
			if isScalable(t) {
				mask = f.Alt("mask", "<vscale x 2 x i32> zeroinitializer", "<vscale x 2 x i32> undef", "<vscale x 4 x i32> zeroinitializer")
			} else if strings.HasPrefix(t, "<4") {
				mask = f.Alt("mask", "<4 x i32> <i32 0, i32 5, i32 2, i32 7>", "<2 x i32> <i32 1, i32 6>", "<4 x i32> zeroinitializer", "<4 x i32> undef", "<8 x i32> <i32 0, i32 1, i32 2, i32 3, i32 4, i32 5, i32 6, i32 7>", "<4 x i32> <i32 0, i32 undef, i32 2, i32 undef>")
			} else {
				mask = f.Alt("mask", "<2 x i32> <i32 0, i32 3>", "<4 x i32> <i32 0, i32 1, i32 2, i32 3>", "<2 x i32> zeroinitializer", "<2 x i32> undef", "<1 x i32> <i32 2>")
			}
			bb := b
			if f.Flip("undef-second") {
				bb = "undef"
			}
			r := f.Res()
			f.Line("%s = shufflevector %s %s, %s %s, %s%s", r, t, a, t, bb, mask, f.instMD())
			f.Use(vecOf(strings.SplitN(mask, ">", 2)[0]+">", elemOf(t)), r)
			f.End("")
		}},
		{Name: "extractvalue", Build: func(f *Frag) {
			f.Kind("InstExtractValue")
			f.Func("void")
			type pth struct{ t, path, rt string }
			ps := []pth{{"{ i32, float }", "0", "i32"}, {"{ i32, float }", "1", "float"}, {"[2 x i32]", "1", "i32"}, {"%S", "1, 1", "float"}, {"%S", "1", "{ i8, float }"}, {"<{ i8, i32 }>", "1", "i32"}, {"{ i32, { i8, [2 x float] } }", "1, 1, 0", "float"}, {"{ i32, { i8, [2 x float] } }", "1, 1", "[2 x float]"}, {"[2 x { i32, <2 x i8> }]", "1, 1", "<2 x i8>"}, {"%S", "1, 0", "i8"}, {"{ { i1, i64 }, { i8, [3 x float] } }", "1, 0", "i8"}, {"{ { i1, i64 }, { i8, [3 x float] } }", "0, 1", "i64"}, {"{ { i1, i64 }, { i8, [3 x float] } }", "1, 1, 2", "float"}, {"[2 x { i32, <2 x i8> }]", "0, 1", "<2 x i8>"}}
			p := ps[f.N("aggregate+path", len(ps))]
			if strings.Contains(p.t, "%S") {
				f.Need(declS)
			}
			a := f.Param(p.t)
			r := f.Res()
			f.Line("%s = extractvalue %s %s, %s%s", r, p.t, a, p.path, f.instMD())
			f.Use(p.rt, r)
			f.End("")
		}},
		{Name: "insertvalue", Build: func(f *Frag) {
			f.Kind("InstInsertValue")
			f.Func("void")
			type pth struct{ t, et, path string }
			ps := []pth{{"{ i32, float }", "i32", "0"}, {"{ i32, float }", "float", "1"}, {"[2 x i32]", "i32", "1"}, {"%S", "float", "1, 1"}, {"%S", "{ i8, float }", "1"}, {"<{ i8, i32 }>", "i32", "1"}, {"{ i32, { i8, [2 x float] } }", "float", "1, 1, 0"}, {"%S", "i8", "1, 0"}, {"{ { i1, i64 }, { i8, [3 x float] } }", "i64", "0, 1"}, {"{ { i1, i64 }, { i8, [3 x float] } }", "i8", "1, 0"}, {"[2 x { i32, <2 x i8> }]", "<2 x i8>", "0, 1"}}
			p := ps[f.N("aggregate+path", len(ps))]
			if strings.Contains(p.t, "%S") {
				f.Need(declS)
			}
			a, e := f.Param(p.t), f.Param(p.et)
			aa := a
			if f.Flip("undef-aggregate") {
				aa = "undef"
			}
			r := f.Res()
			f.Line("%s = insertvalue %s %s, %s %s, %s%s", r, p.t, aa, p.et, e, p.path, f.instMD())
			f.Use(p.t, r)
			f.End("")
		}},
		{Name: "alloca", Build: func(f *Frag) {
			f.Kind("InstAlloca")
			f.Func("void")
			t := f.Type("T", TFirstCl)
			addrspace := f.Flip("addrspace")
			if addrspace {
				// (bitcode does not record the address space of an alloca: it is the data
				// layout's, so the module must declare it -- and be alone in its module)
				f.Solo = true
				f.TopLine("target datalayout = \"A5\"")
			}
			n := f.Param("i32")
			s := "alloca" + f.Opt("inalloca", " inalloca") + " " + t
			switch f.N("nelems", 3) {
			case 1:
				s += ", i32 " + n
			case 2:
				s += ", i64 4"
			}
			s += f.Opt("align", ", align 8")
			as := ""
			if addrspace {
				as = ", addrspace(5)"
			}
			s += as
			r := f.Res()
			f.Line("%s = %s%s", r, s, f.instMD())
			if as != "" {
				f.Use(t+" addrspace(5)*", r)
			} else {
				f.Use(t+"*", r)
			}
			f.End("")
		}},
		{Name: "load", Build: func(f *Frag) {
			f.Kind("InstLoad")
			f.Func("void")
			atomic := f.Flip("atomic")
			var t string
			if atomic {
				t = f.Type("T", []string{"i32", "i8", "i64", "float", "i32*"})
			} else {
				t = f.Type("T", TFirstCl)
			}
			as := f.Alt("addrspace", "", " addrspace(1)")
			p := f.Param(t + as + "*")
			if atomic {
				r := f.Res()
				defer func() { f.Use(t, r) }()
				f.Line("%s = load atomic%s %s, %s%s* %s%s %s, align 4%s", r, f.Opt("volatile", " volatile"), t, t, as, p, f.Opt("syncscope", ` syncscope("singlethread")`), f.Alt("ordering", "seq_cst", "monotonic", "acquire", "unordered"), f.instMD())
			} else {
				r := f.Res()
				defer func() { f.Use(t, r) }()
				f.Line("%s = load%s %s, %s%s* %s%s%s", r, f.Opt("volatile", " volatile"), t, t, as, p, f.Opt("align", ", align 4"), f.instMD())
			}
			f.End("")
		}},
		{Name: "store", Build: func(f *Frag) {
			f.Kind("InstStore")
			f.Func("void")
			atomic := f.Flip("atomic")
			var t string
			if atomic {
				t = f.Type("T", []string{"i32", "i8", "i64", "float", "i32*"})
			} else {
				t = f.Type("T", TFirstCl)
			}
			v := f.Param(t)
			p := f.Param(t + "*")
			if atomic {
				f.Line("store atomic%s %s %s, %s* %s%s %s, align 4%s", f.Opt("volatile", " volatile"), t, v, t, p, f.Opt("syncscope", ` syncscope("agent")`), f.Alt("ordering", "seq_cst", "monotonic", "release", "unordered"), f.instMD())
			} else {
				f.Line("store%s %s %s, %s* %s%s%s", f.Opt("volatile", " volatile"), t, v, t, p, f.Opt("align", ", align 4"), f.instMD())
			}
			f.End("")
		}},
		{Name: "fence", Build: func(f *Frag) {
			f.Kind("InstFence")
			f.Func("void")
			f.Line("fence%s %s%s", f.Opt("syncscope", ` syncscope("singlethread")`), f.Alt("ordering", "seq_cst", "acquire", "release", "acq_rel"), f.instMD())
			f.End("")
		}},
		{Name: "cmpxchg", Build: func(f *Frag) {
			f.Kind("InstCmpXchg")
			f.Func("void")
			t := f.Type("T", []string{"i32", "i8", "i64", "i32*"})
			p, c, n := f.Param(t+"*"), f.Param(t), f.Param(t)
			ords := []string{"seq_cst seq_cst", "monotonic monotonic", "acquire monotonic", "acq_rel acquire", "release monotonic", "seq_cst acquire", "acquire acquire"}
			r := f.Res()
			defer func() { f.Use("{ "+t+", i1 }", r) }()
			f.Line("%s = cmpxchg%s%s %s* %s, %s %s, %s %s%s %s%s", r, f.Opt("weak", " weak"), f.Opt("volatile", " volatile"), t, p, t, c, t, n, f.Opt("syncscope", ` syncscope("x")`), f.Alt("orderings", ords...), f.instMD())
			f.End("")
		}},
		{Name: "atomicrmw", Build: func(f *Frag) {
			f.Kind("InstAtomicRMW")
			f.Func("void")
			op := f.Alt("op", "add", "xchg", "sub", "and", "nand", "or", "xor", "max", "min", "umax", "umin", "fadd", "fsub")
			t := "i32"
			switch op {
			case "fadd", "fsub":
				t = f.Alt("T", "float", "double")
			case "xchg":
				t = f.Alt("T", "i32", "float", "i8")
			default:
				t = f.Alt("T", "i32", "i8", "i64")
			}
			p, v := f.Param(t+"*"), f.Param(t)
			r := f.Res()
			defer func() { f.Use(t, r) }()
			f.Line("%s = atomicrmw%s %s %s* %s, %s %s%s %s%s", r, f.Opt("volatile", " volatile"), op, t, p, t, v, f.Opt("syncscope", ` syncscope("x")`), f.Alt("ordering", "seq_cst", "monotonic", "acquire", "release", "acq_rel"), f.instMD())
			f.End("")
		}},
		{Name: "getelementptr", Build: func(f *Frag) {
			f.Kind("InstGetElementPtr")
			f.Func("void")
			type g struct{ et, idx, rt string }
			gs := []g{{"i32", "", "i32"}, {"i32", ", i32 1", "i32"}, {"i32", ", i64 %i", "i32"}, {"%S", ", i32 0, i32 1, i32 1", "float"}, {"[4 x i32]", ", i64 0, i64 %i", "i32"}, {"{ i32, [2 x i8] }", ", i32 %j, i32 1, i32 1", "i8"}, {"i8", ", i8 3", "i8"}, {"<4 x i32>", ", i32 0, i32 2", "i32"}}
			x := gs[f.N("elem+indices", len(gs))]
			if strings.Contains(x.et, "%S") {
				f.Need(declS)
			}
			as := f.Alt("addrspace", "", " addrspace(3)")
			p := f.Param(x.et + as + "*")
			idx := x.idx
			if strings.Contains(idx, "%i") {
				idx = strings.Replace(idx, "%i", f.Param("i64"), 1)
			}
			if strings.Contains(idx, "%j") {
				idx = strings.Replace(idx, "%j", f.Param("i32"), 1)
			}
			r := f.Res()
			f.Line("%s = getelementptr%s %s, %s%s* %s%s%s", r, f.Opt("inbounds", " inbounds"), x.et, x.et, as, p, idx, f.instMD())
			f.Use(x.rt+as+"*", r)
			f.End("")
		}},
		{Name: "getelementptr-vector", Build: func(f *Frag) {
			f.Kind("InstGetElementPtr")
			f.Func("void")
			switch f.N("form", 7) {
			case 4: // scalar base, NON-CONSTANT scalable index
				p, i := f.Param("i32*"), f.Param("<vscale x 4 x i64>")
				r := f.Res()
				f.Line("%s = getelementptr i32, i32* %s, <vscale x 4 x i64> %s", r, p, i)
				f.Use("<vscale x 4 x i32*>", r)
			case 5: // scalable base, scalar index
				p, i := f.Param("<vscale x 2 x i32*>"), f.Param("i64")
				r := f.Res()
				f.Line("%s = getelementptr i32, <vscale x 2 x i32*> %s, i64 %s", r, p, i)
				f.Use("<vscale x 2 x i32*>", r)
			case 6: // scalar base, struct path after a non-constant scalable index
				f.Need(declS)
				p, i := f.Param("%S*"), f.Param("<vscale x 2 x i32>")
				r := f.Res()
				f.Line("%s = getelementptr %%S, %%S* %s, <vscale x 2 x i32> %s, i32 1, i32 0", r, p, i)
				f.Use("<vscale x 2 x i8*>", r)
			case 0:
				p, i := f.Param("<2 x i32*>"), f.Param("<2 x i64>")
				r := f.Res()
				f.Line("%s = getelementptr i32, <2 x i32*> %s, <2 x i64> %s", r, p, i)
				f.Use("<2 x i32*>", r)
			case 1:
				p, i := f.Param("i32*"), f.Param("<2 x i64>")
				r := f.Res()
				f.Line("%s = getelementptr i32, i32* %s, <2 x i64> %s", r, p, i)
				f.Use("<2 x i32*>", r)
			case 2:
				p := f.Param("<2 x i32*>")
				r := f.Res()
				f.Line("%s = getelementptr i32, <2 x i32*> %s, i64 1", r, p)
				f.Use("<2 x i32*>", r)
			case 3:
				f.Need(declS)
				p, i := f.Param("%S addrspace(1)*"), f.Param("<4 x i32>")
				r := f.Res()
				f.Line("%s = getelementptr %%S, %%S addrspace(1)* %s, <4 x i32> %s, i32 1, i32 0", r, p, i)
				f.Use("<4 x i8 addrspace(1)*>", r)
			}
			f.End("")
		}},
	}
	ints := []string{"i32", "i8", "i64", "i1"}
	wide := []string{"i64", "i128"}
	narrow := []string{"i8", "i1", "i16"}
	fps := []string{"float", "double", "half"}
	es = append(es,
		castEntry("trunc", "InstTrunc", func(f *Frag) (string, string) { return shapePair(f, []string{"i32", "i64"}, narrow) }, nil),
		castEntry("zext", "InstZExt", func(f *Frag) (string, string) { return shapePair(f, []string{"i32", "i8", "i1"}, wide) }, nil),
		castEntry("sext", "InstSExt", func(f *Frag) (string, string) { return shapePair(f, []string{"i32", "i8", "i1"}, wide) }, nil),
		castEntry("fptrunc", "InstFPTrunc", func(f *Frag) (string, string) {
			return shapePair(f, []string{"double", "fp128", "x86_fp80"}, []string{"float", "half"})
		}, nil),
		castEntry("fpext", "InstFPExt", func(f *Frag) (string, string) {
			return shapePair(f, []string{"float", "half"}, []string{"double", "fp128", "x86_fp80"})
		}, nil),
		castEntry("fptoui", "InstFPToUI", func(f *Frag) (string, string) { return shapePair(f, fps, ints) }, nil),
		castEntry("fptosi", "InstFPToSI", func(f *Frag) (string, string) { return shapePair(f, fps, ints) }, nil),
		castEntry("uitofp", "InstUIToFP", func(f *Frag) (string, string) { return shapePair(f, ints, fps) }, nil),
		castEntry("sitofp", "InstSIToFP", func(f *Frag) (string, string) { return shapePair(f, ints, fps) }, nil),
		castEntry("ptrtoint", "InstPtrToInt", func(f *Frag) (string, string) {
			return shapePair(f, []string{"i8*", "i32 addrspace(1)*"}, []string{"i64", "i32"})
		}, nil),
		castEntry("inttoptr", "InstIntToPtr", func(f *Frag) (string, string) {
			return shapePair(f, []string{"i64", "i32"}, []string{"i8*", "i32 addrspace(1)*"})
		}, nil),
		castEntry("bitcast", "InstBitCast", func(f *Frag) (string, string) {
			switch f.N("form", 5) {
			case 1:
				return "i32", "float"
			case 2:
				return "<2 x i32>", "i64"
			case 3:
				return "<2 x i8*>", "<2 x i32*>"
			case 4:
				return "double", "<2 x float>"
			}
			return "i8*", "i32*"
		}, nil),
		castEntry("addrspacecast", "InstAddrSpaceCast", func(f *Frag) (string, string) {
			return shapePair(f, []string{"i8*", "i32 addrspace(2)*"}, []string{"i8 addrspace(1)*", "i32 addrspace(3)*"})
		}, nil),
	)
	es = append(es,
		Entry{Name: "icmp", Build: func(f *Frag) {
			f.Kind("InstICmp")
			f.Func("void")
			t := f.Type("T", TInt, TIntVec, []string{"i8*", "<2 x i8*>"})
			a, b := f.Param(t), f.Param(t)
			pred := f.Alt("pred", "eq", "ne", "ugt", "uge", "ult", "ule", "sgt", "sge", "slt", "sle")
			r := f.Res()
			f.Line("%s = icmp %s %s %s, %s%s", r, pred, t, a, b, f.instMD())
			f.Use(vecOf(t, "i1"), r)
			f.End("")
		}},
		Entry{Name: "fcmp", Build: func(f *Frag) {
			f.Kind("InstFCmp")
			f.Func("void")
			t := f.Type("T", TFP, TFPVec)
			a, b := f.Param(t), f.Param(t)
			pred := f.Alt("pred", "oeq", "false", "ogt", "oge", "olt", "ole", "one", "ord", "ueq", "ugt", "uge", "ult", "ule", "une", "uno", "true")
			r := f.Res()
			f.Line("%s = fcmp%s %s %s %s, %s%s", r, f.Alt("fast-math", fastMath...), pred, t, a, b, f.instMD())
			f.Use(vecOf(t, "i1"), r)
			f.End("")
		}},
		Entry{Name: "select", Build: func(f *Frag) {
			f.Kind("InstSelect")
			f.Func("void")
			t := f.Type("T", TFirstCl)
			ct := "i1"
			if isVec(t) && f.Flip("vector-cond") {
				ct = vecOf(t, "i1")
			}
			c, a, b := f.Param(ct), f.Param(t), f.Param(t)
			fm := ""
			if t == "float" || t == "double" {
				fm = f.Alt("fast-math", fastMath...)
			}
			r := f.Res()
			f.Line("%s = select%s %s %s, %s %s, %s %s%s", r, fm, ct, c, t, a, t, b, f.instMD())
			f.Use(t, r)
			f.End("")
		}},
		Entry{Name: "freeze", Build: func(f *Frag) {
			f.Kind("InstFreeze")
			f.Func("void")
			t := f.Type("T", TFirstCl)
			a := f.Param(t)
			r := f.Res()
			f.Line("%s = freeze %s %s%s", r, t, a, f.instMD())
			f.Use(t, r)
			f.End("")
		}},
		Entry{Name: "va_arg", Build: func(f *Frag) {
			f.Kind("InstVAArg")
			f.Func("void")
			t := f.Type("T", []string{"i32", "double", "i8*"})
			a := f.Param("i8*")
			r := f.Res()
			f.Line("%s = va_arg i8* %s, %s%s", r, a, t, f.instMD())
			f.Use(t, r)
			f.End("")
		}},
		Entry{Name: "phi", Build: func(f *Frag) {
			f.Kind("InstPhi", "TermCondBr", "TermBr")
			t := f.Type("T", TFirstCl)
			f.Func(t)
			c, a, b := f.Param("i1"), f.Param(t), f.Param(t)
			n := 1 + f.N("incomings", 3)
			fm := ""
			if t == "float" || t == "double" {
				fm = f.Alt("fast-math", fastMath...)
			}
			r := f.Res()
			switch n {
			case 1:
				f.Line("br label %%join")
				f.Label("join")
				f.Line("%s = phi%s %s [ %s, %%0 ]", r, fm, t, a)
			case 2:
				f.Line("br i1 %s, label %%l, label %%join", c)
				f.Label("l")
				f.Line("br label %%join")
				f.Label("join")
				f.Line("%s = phi%s %s [ %s, %%l ], [ %s, %%0 ]", r, fm, t, a, b)
			case 3:
				f.Line("br i1 %s, label %%l, label %%m", c)
				f.Label("l")
				f.Line("br i1 %s, label %%join, label %%m", c)
				f.Label("m")
				f.Line("%%fwd = phi %s [ %s, %%0 ], [ %s, %%l ]", t, a, b)
				f.Line("br label %%join")
				f.Label("join")
				f.Line("%s = phi%s %s [ %s, %%l ], [ %%fwd, %%m ]", r, fm, t, a)
			}
			f.End("ret " + t + " " + r)
		}},
	)
	return es
}

// SetWide extends the type universe (used by C06/C07, which are about typing): more widths, all
// floating-point kinds in vectors, more address spaces, more vector lengths and scalable shapes.
func SetWide() {
	TInt = append(TInt, "i7", "i16", "i65", "i1024")
	TIntVec = append(TIntVec, "<1 x i64>", "<16 x i1>", "<vscale x 1 x i8>", "<vscale x 16 x i64>", "<3 x i128>", "%VA4i32", "%VAs2i64")
	TFPVec = append(TFPVec, "<4 x half>", "<2 x fp128>", "<vscale x 4 x float>", "<1 x x86_fp80>", "%VA2f")
	TPtr = append(TPtr, "i8 addrspace(5)*", "{ i32, i8 }*", "[4 x i32]*", "void ()*", "i32 (i8*, ...)*", "<2 x i32>*", "%S addrspace(2)*")
	TPtrVec = append(TPtrVec, "<4 x i8 addrspace(1)*>", "<1 x %S*>", "<vscale x 4 x i32 addrspace(3)*>")
	TAgg = append(TAgg, "[0 x i8]", "{}", "{ %S, [2 x %S] }", "[3 x <2 x i32>]", "{ i8*, i32 (i32)* }")
	TFirstCl = append(TFirstCl, "i1", "half", "fp128", "i8 addrspace(1)*", "<2 x i8*>", "<vscale x 2 x double>", "[2 x %S]", "<{ i8, i32 }>", "i32 (i32)*", "x86_fp80", "{ i32, { i8, [2 x float] } }", "i1024")
}
