package gen

import "fmt"

// ConstEntries: constants and constant expressions (as global initialisers and operands).
func ConstEntries() []Entry {
	type tc struct{ t, c string }
	glob := func(name string, kinds []string, list []tc) Entry {
		return Entry{Name: name, Build: func(f *Frag) {
			f.Kind(kinds...)
			x := list[f.N("constant", len(list))]
			f.Need(declS, "@G = global i32 0", "@H = global i8 0", declF1, "@GF = global float 0.0")
			f.TopLine("@%s = %s %s %s", f.Uniq("g"), f.Alt("mutability", "global", "constant"), x.t, x.c)
		}}
	}
	return []Entry{
		glob("const-simple", nil, []tc{
			{"i32", "42"}, {"i32", "-1"}, {"i1", "true"}, {"i1", "false"}, {"i8", "255"}, {"i64", "u0xFFFFFFFFFFFFFFFF"}, {"i128", "170141183460469231731687303715884105727"},
			{"float", "1.5"}, {"float", "0x3FB99999A0000000"}, {"double", "1.0e+10"}, {"double", "0x7FF0000000000000"}, {"double", "-0.0"}, {"half", "0xH3C00"}, {"x86_fp80", "0xK3FFF8000000000000000"}, {"fp128", "0xL00000000000000003FFF000000000000"}, {"ppc_fp128", "0xM3FF00000000000000000000000000000"},
			{"i32*", "null"}, {"i8 addrspace(1)*", "null"}, {"%S", "zeroinitializer"}, {"[2 x i32]", "zeroinitializer"}, {"<2 x i32>", "zeroinitializer"}, {"i32", "undef"}, {"<2 x float>", "undef"}, {"i32", "poison"}, {"%S", "poison"},
			{"i32*", "@G"}, {"i32 (i32)*", "@f1"},
		}),
		glob("const-aggregate", nil, []tc{
			{"{ i32, float }", "{ i32 1, float 2.0 }"}, {"<{ i8, i32 }>", "<{ i8 1, i32 2 }>"}, {"[2 x i32]", "[i32 1, i32 2]"}, {"[3 x i8]", `c"ab\00"`}, {"[4 x i8]", `c"\22\5C\FF\01"`}, {"[0 x i32]", "zeroinitializer"}, {"[0 x i32]", "[]"}, {"{}", "{}"}, {"{}", "zeroinitializer"},
			{"<2 x i32>", "<i32 1, i32 2>"}, {"<2 x float>", "<float 1.0, float 2.0>"}, {"<2 x i32*>", "<i32* @G, i32* null>"}, {"%S", "{ i32 1, { i8, float } { i8 2, float 3.0 } }"}, {"[2 x [2 x i8]]", `[[2 x i8] c"ab", [2 x i8] zeroinitializer]`}, {"{ i32*, [2 x %S] }", "{ i32* @G, [2 x %S] zeroinitializer }"}, {"[2 x { i8, i8 }]", "[{ i8, i8 } { i8 1, i8 2 }, { i8, i8 } undef]"}, {"<4 x i1>", "<i1 true, i1 false, i1 true, i1 undef>"},
		}),
		glob("constexpr-binary", []string{"ExprAdd", "ExprSub", "ExprMul", "ExprShl", "ExprLShr", "ExprAShr", "ExprAnd", "ExprOr", "ExprXor"}, []tc{
			{"i64", "add (i64 ptrtoint (i32* @G to i64), i64 1)"}, {"i64", "add nuw nsw (i64 ptrtoint (i32* @G to i64), i64 1)"}, {"i64", "sub (i64 ptrtoint (i32* @G to i64), i64 1)"}, {"i64", "sub nsw (i64 ptrtoint (i32* @G to i64), i64 1)"}, {"i64", "mul (i64 ptrtoint (i32* @G to i64), i64 3)"}, {"i64", "mul nuw (i64 ptrtoint (i32* @G to i64), i64 3)"},
			{"i64", "shl (i64 ptrtoint (i32* @G to i64), i64 1)"}, {"i64", "shl nuw (i64 ptrtoint (i32* @G to i64), i64 1)"}, {"i64", "lshr (i64 ptrtoint (i32* @G to i64), i64 1)"}, {"i64", "lshr exact (i64 ptrtoint (i32* @G to i64), i64 1)"}, {"i64", "ashr (i64 ptrtoint (i32* @G to i64), i64 1)"}, {"i64", "ashr exact (i64 ptrtoint (i32* @G to i64), i64 1)"},
			{"i64", "and (i64 ptrtoint (i32* @G to i64), i64 7)"}, {"i64", "or (i64 ptrtoint (i32* @G to i64), i64 7)"}, {"i64", "xor (i64 ptrtoint (i32* @G to i64), i64 7)"},
			{"<2 x i64>", "add (<2 x i64> <i64 ptrtoint (i32* @G to i64), i64 1>, <2 x i64> <i64 1, i64 2>)"},
		}),
		glob("constexpr-cast", []string{"ExprTrunc", "ExprZExt", "ExprSExt", "ExprFPTrunc", "ExprFPExt", "ExprFPToUI", "ExprFPToSI", "ExprUIToFP", "ExprSIToFP", "ExprPtrToInt", "ExprIntToPtr", "ExprBitCast", "ExprAddrSpaceCast"}, []tc{
			{"i8", "trunc (i64 ptrtoint (i32* @G to i64) to i8)"}, {"i128", "zext (i64 ptrtoint (i32* @G to i64) to i128)"}, {"i128", "sext (i64 ptrtoint (i32* @G to i64) to i128)"},
			{"float", "fptrunc (double bitcast (i64 ptrtoint (i32* @G to i64) to double) to float)"}, {"double", "fpext (float bitcast (i32 ptrtoint (i32* @G to i32) to float) to double)"},
			{"i32", "fptoui (float bitcast (i32 ptrtoint (i32* @G to i32) to float) to i32)"}, {"i32", "fptosi (float bitcast (i32 ptrtoint (i32* @G to i32) to float) to i32)"}, {"float", "uitofp (i64 ptrtoint (i32* @G to i64) to float)"}, {"float", "sitofp (i64 ptrtoint (i32* @G to i64) to float)"},
			{"i64", "ptrtoint (i32* @G to i64)"}, {"i8*", "inttoptr (i64 add (i64 ptrtoint (i32* @G to i64), i64 4) to i8*)"}, {"i8*", "bitcast (i32* @G to i8*)"}, {"i8 addrspace(1)*", "addrspacecast (i8* @H to i8 addrspace(1)*)"}, {"<2 x i64>", "ptrtoint (<2 x i32*> <i32* @G, i32* @G> to <2 x i64>)"},
		}),
		glob("constexpr-other", []string{"ExprGetElementPtr", "ExprICmp", "ExprFCmp", "ExprSelect", "ExprFNeg", "ExprExtractElement", "ExprInsertElement", "ExprShuffleVector"}, []tc{
			{"i32*", "getelementptr (i32, i32* @G, i64 1)"}, {"i32*", "getelementptr inbounds (i32, i32* @G, i64 1)"}, {"i32*", "getelementptr (i32, i32* @G)"}, {"i8*", "getelementptr inbounds (i8, i8* @H, i32 2)"}, {"i32*", "getelementptr inbounds ({ i32, i32 }, { i32, i32 }* bitcast (i32* @G to { i32, i32 }*), i32 0, i32 1)"}, {"i32*", "getelementptr ([4 x i32], [4 x i32]* bitcast (i32* @G to [4 x i32]*), i64 0, inrange i64 1)"}, {"<2 x i32*>", "getelementptr (i32, <2 x i32*> <i32* @G, i32* @G>, <2 x i64> <i64 1, i64 2>)"}, {"<2 x i32*>", "getelementptr (i32, i32* @G, <2 x i64> <i64 1, i64 2>)"},
			{"i1", "icmp eq (i32* @G, i32* null)"}, {"i1", "icmp ult (i64 ptrtoint (i32* @G to i64), i64 8)"}, {"<2 x i1>", "icmp ne (<2 x i32*> <i32* @G, i32* null>, <2 x i32*> zeroinitializer)"}, {"i1", "fcmp oeq (float bitcast (i32 ptrtoint (i32* @G to i32) to float), float 1.0)"}, {"i1", "fcmp uno (float bitcast (i32 ptrtoint (i32* @G to i32) to float), float 1.0)"},
			{"i32", "select (i1 icmp eq (i32* @G, i32* null), i32 1, i32 2)"}, {"float", "fneg (float bitcast (i32 ptrtoint (i32* @G to i32) to float))"},
			{"i64", "extractelement (<2 x i64> <i64 ptrtoint (i32* @G to i64), i64 1>, i32 0)"}, {"<2 x i64>", "insertelement (<2 x i64> <i64 ptrtoint (i32* @G to i64), i64 1>, i64 5, i32 1)"}, {"<2 x i64>", "shufflevector (<2 x i64> <i64 ptrtoint (i32* @G to i64), i64 1>, <2 x i64> undef, <2 x i32> <i32 1, i32 0>)"}, {"<4 x i64>", "shufflevector (<2 x i64> <i64 ptrtoint (i32* @G to i64), i64 1>, <2 x i64> undef, <4 x i32> <i32 1, i32 0, i32 1, i32 0>)"},
		}),
		{Name: "const-special", Build: func(f *Frag) {
			f.Need(declF1, declVF)
			switch f.N("form", 4) {
			case 0: // blockaddress
				f.Func("void")
				f.Line("br label %%bb")
				f.Label("bb")
				fn := f.End("")
				f.TopLine("@%s = global i8* blockaddress(%s, %%bb)", f.Uniq("g"), fn)
			case 1:
				f.TopLine("@%s = global i32 (i32)* dso_local_equivalent @f1", f.Uniq("g"))
			case 2:
				f.TopLine("@%s = global void ()* no_cfi @vf", f.Uniq("g"))
			case 3: // token none / operands as constants in instructions
				f.Func("void")
				f.Need(declSEH)
				f.FuncAttrs("personality i8* bitcast (i32 (...)* @__CxxFrameHandler3 to i8*)")
				f.Line("invoke void @vf() to label %%d unwind label %%c")
				f.Label("c")
				f.Line("%%p = cleanuppad within none []")
				f.Line("cleanupret from %%p unwind to caller")
				f.Label("d")
				f.End("")
			}
		}},
		{Name: "const-operands", Build: func(f *Frag) {
			// constants and constant expressions as instruction operands.
			f.Need("@G = global i32 0", declS)
			f.Func("void")
			ops := []tc{{"i64", "ptrtoint (i32* @G to i64)"}, {"i64", "add (i64 ptrtoint (i32* @G to i64), i64 1)"}, {"i64", "undef"}, {"i64", "poison"}, {"i64", "u0x8000000000000000"}, {"<2 x i64>", "<i64 1, i64 ptrtoint (i32* @G to i64)>"}, {"<2 x i64>", "zeroinitializer"}}
			x := ops[f.N("operand", len(ops))]
			a := f.Param(x.t)
			r := f.Res()
			f.Line("%s = add %s %s, %s", r, x.t, a, x.c)
			f.Use(x.t, r)
			f.End("")
		}},
		{Name: "int-literals", Build: func(f *Frag) {
			// spellings of integer constants, also OUT OF RANGE for their type (LLVM and the
			// library accept them; LLVM keeps the low bits) and values the printer renders in
			// hexadecimal; as a global initialiser and as an instruction operand.
			lits := []tc{{"i32", "7"}, {"i8", "4096"}, {"i8", "300"}, {"i8", "256"}, {"i8", "-129"}, {"i8", "-4096"}, {"i8", "8192"}, {"i16", "1048576"}, {"i16", "65536"}, {"i32", "4294967296"}, {"i32", "4096"}, {"i32", "u0x1000"}, {"i32", "-4096"}, {"i64", "65536"}, {"i64", "18446744073709551616"}, {"i8", "u0xFF"}, {"i8", "s0xFF"}, {"i8", "u0x1FF"}, {"i4", "s0xFF"}, {"i4", "u0x1F"}, {"i1", "1"}, {"i1", "0"}, {"i1", "2"}, {"i33", "8589934591"}, {"i128", "340282366920938463463374607431768211456"}, {"i32", "007"}, {"i32", "-0"}, {"i32", "010"}, {"i32", "0755"}, {"i8", "09"}, {"i64", "0100"}, {"i32", "-010"}, {"i32", "00"}, {"i16", "u0x0010"}, {"i16", "s0x8010"}, {"i16", "s0x0FFF0"}}
			x := lits[f.N("literal", len(lits))]
			if f.Flip("operand") {
				f.Func("void")
				a := f.Param(x.t)
				r := f.Res()
				f.Line("%s = add %s %s, %s", r, x.t, a, x.c)
				f.Use(x.t, r)
				f.End("")
			} else {
				f.TopLine("@%s = global %s %s", f.Uniq("g"), x.t, x.c)
			}
		}},
		{Name: "alias-typed-constants", Build: func(f *Frag) {
			// a constant whose type is written through a type alias (`%b = type i1`): the alias
			// belongs to this module; the constant objects of other modules (and the shared
			// singletons of the library) must not learn it.
			alts := []tc{{"i1", "true"}, {"i1", "false"}, {"i32", "5"}, {"float", "1.5"}, {"double", "0x7FF0000000000000"}, {"i8*", "null"}, {"<2 x i32>", "zeroinitializer"}, {"<2 x i32>", "<i32 1, i32 2>"}, {"[2 x i8]", `c"ab"`}, {"i32", "undef"}, {"i32", "poison"}, {"half", "0xH3C00"}}
			x := alts[f.N("constant", len(alts))]
			al := "%" + f.P + "al"
			f.TopLine("%s = type %s", al, x.t)
			switch f.N("position", 4) {
			case 0:
				f.TopLine("@%s = global %s %s", f.Uniq("g"), al, x.c)
			case 1:
				f.TopLine("define %s @%s() {\n  ret %s %s\n}", al, f.Uniq("f"), al, x.c)
			case 2:
				f.TopLine("@%s = global { %s, i8 } { %s %s, i8 1 }", f.Uniq("g"), al, al, x.c)
			case 3:
				f.TopLine("define %s @%s(i1 %%c, %s %%x) {\n  %%r = select i1 %%c, %s %%x, %s %s\n  ret %s %%r\n}", al, f.Uniq("f"), al, al, al, x.c, al)
			}
		}},
		{Name: "float-literals", Build: func(f *Frag) {
			lits := []tc{{"float", "0.0"}, {"float", "-0.0"}, {"float", "1.0"}, {"float", "3.5e+00"}, {"float", "0x36A0000000000000"}, {"float", "0x7FF8000000000000"}, {"float", "0x47EFFFFFE0000000"}, {"double", "0.1"}, {"double", "1.0e-320"}, {"double", "0xFFF0000000000000"}, {"double", "1.7976931348623157e+308"}, {"double", "123456789.0"}, {"half", "0xH0001"}, {"half", "0xH7C00"}, {"half", "1.0"}, {"half", "0x3F00000000000000"}, {"x86_fp80", "0xK00000000000000000001"}, {"x86_fp80", "0xK7FFF8000000000000000"}, {"fp128", "0xL00000000000000007FFF000000000000"}, {"ppc_fp128", "0xM00000000000000000000000000000000"}}
			x := lits[f.N("literal", len(lits))]
			f.TopLine("@%s = global %s %s", f.Uniq("g"), x.t, x.c)
		}},
	}
}

var _ = fmt.Sprintf
