package gen

import (
	"fmt"
	"strings"
)

const (
	mdFlags1 = "!llvm.module.flags = !{!99999}"
	mdFlags2 = `!99999 = !{i32 2, !"Debug Info Version", i32 3}`
)

// diPrelude emits file, compile unit and a subprogram for the fragment and returns their IDs.
func diPrelude(f *Frag) (file, cu, sp, bt int) {
	f.Need(mdFlags1, mdFlags2)
	file, cu, sp, bt = f.MDID(), f.MDID(), f.MDID(), f.MDID()
	f.TailLine(`!%d = !DIFile(filename: "a.c", directory: "/d")`, file)
	f.TailLine(`!%d = distinct !DICompileUnit(language: DW_LANG_C99, file: !%d, producer: "p", isOptimized: false, runtimeVersion: 0, emissionKind: FullDebug)`, cu, file)
	f.TailLine(`!%d = distinct !DISubprogram(name: "f", scope: !%d, file: !%d, line: 1, type: !%d, spFlags: DISPFlagDefinition, unit: !%d)`, sp, file, file, bt+1, cu)
	f.TailLine(`!%d = !DIBasicType(name: "int", size: 32, encoding: DW_ATE_signed)`, bt)
	st := f.MDID() // == bt+1
	f.TailLine(`!%d = !DISubroutineType(types: !{!%d})`, st, bt)
	f.TailLine("!llvm.dbg.cu = !{!%d}", cu)
	return
}

// keep lists the nodes in a named metadata node so that the bitcode round trip retains them.
func keep(f *Frag, ids ...int) {
	var s []string
	for _, id := range ids {
		s = append(s, fmt.Sprintf("!%d", id))
	}
	f.TailLine("!%skeep = !{%s}", f.P, strings.Join(s, ", "))
}

// MDEntries: metadata tuples, strings, values, named metadata and the specialised nodes.
func MDEntries() []Entry {
	di := func(name string, body func(f *Frag, file, cu, sp, bt int) string) Entry {
		return Entry{Name: "md-" + name, Build: func(f *Frag) {
			file, cu, sp, bt := diPrelude(f)
			id := f.MDID()
			text := body(f, file, cu, sp, bt)
			if f.Flip("inline") {
				// the node written inline as an operand of a tuple (every specialised kind may
				// be; placement must survive parse and print).
				f.TailLine("!%d = !{%s}", id, text)
			} else {
				f.TailLine("!%d = %s%s", id, f.Opt("distinct", "distinct "), text)
			}
			keep(f, id, sp)
		}}
	}
	return []Entry{
		{Name: "md-tuple", Build: func(f *Frag) {
			a, b, c := f.MDID(), f.MDID(), f.MDID()
			f.Need("@G = global i32 0")
			switch f.N("form", 8) {
			case 0:
				f.TailLine("!%d = !{}", a)
				f.TailLine("!%d = !{!%d}", b, a)
				f.TailLine("!%d = !{!%d, !%d}", c, a, b)
			case 1: // strings and values
				f.TailLine(`!%d = !{!"str", !"a\22b\5C\00\FF", i32 7, i64 -1, float 1.5, i1 true}`, a)
				f.TailLine("!%d = !{i32* @G, null, !%d}", b, a)
				f.TailLine("!%d = !{!%d}", c, b)
			case 2: // cycle through distinct, forward reference
				f.TailLine("!%d = !{!%d}", a, b)
				f.TailLine("!%d = distinct !{!%d, !%d}", b, b, c)
				f.TailLine("!%d = !{!%d}", c, a)
			case 3: // inline tuple
				f.TailLine("!%d = !{!{i32 1}, !{!{}}}", a)
				f.TailLine("!%d = !{!%d, !{!%d}}", b, a, a)
				f.TailLine("!%d = distinct !{}", c)
			case 4: // sparse explicit ids are exercised through MDBase; definition order reversed
				f.TailLine("!%d = !{!%d}", c, a)
				f.TailLine("!%d = !{i32 2}", b)
				f.TailLine("!%d = !{!%d}", a, b)
			case 5: // distinct duplicates
				f.TailLine("!%d = distinct !{i32 1}", a)
				f.TailLine("!%d = distinct !{i32 1}", b)
				f.TailLine("!%d = !{i32 1}", c)
			case 6: // self reference
				f.TailLine("!%d = distinct !{!%d}", a, a)
				f.TailLine("!%d = distinct !{!%d, !%d}", b, b, a)
				f.TailLine("!%d = !{!%d}", c, b)
			case 7: // constant expression value
				f.TailLine("!%d = !{i64 ptrtoint (i32* @G to i64)}", a)
				f.TailLine("!%d = !{<2 x i32> <i32 1, i32 2>, [2 x i8] c\"ab\"}", b)
				f.TailLine("!%d = !{!%d, !%d}", c, a, b)
			}
			keep(f, a, b, c)
		}},
		{Name: "md-named", Build: func(f *Frag) {
			a, b := f.MDID(), f.MDID()
			f.TailLine("!%d = !{i32 1}", a)
			f.TailLine("!%d = !{i32 2}", b)
			switch f.N("form", 5) {
			case 0:
				f.TailLine("!%sn = !{!%d, !%d}", f.P, a, b)
			case 1: // defined twice: merged in textual order
				f.TailLine("!%sn = !{!%d}", f.P, b)
				f.TailLine("!%sn = !{!%d}", f.P, a)
			case 2: // empty and repeated operand
				f.TailLine("!%sn = !{}", f.P)
				f.TailLine("!%sm = !{!%d, !%d, !%d}", f.P, a, a, b)
			case 3: // escaped name
				f.TailLine(`!%sn\20x.y = !{!%d, !%d}`, f.P, a, b)
			case 4: // three definitions, repeated node
				f.TailLine("!%sn = !{!%d}", f.P, a)
				f.TailLine("!%sn = !{!%d}", f.P, b)
				f.TailLine("!%sn = !{!%d}", f.P, a)
			}
		}},
		{Name: "md-attachments", Build: func(f *Frag) {
			a, b := f.MDID(), f.MDID()
			f.TailLine("!%d = !{i32 1}", a)
			f.TailLine("!%d = distinct !{}", b)
			f.Need(declVF)
			switch f.N("form", 5) {
			case 0: // instruction + terminator
				f.TopLine("define void @%s(i32 %%a) {\n  %%x = add i32 %%a, 1, !foo !%d, !bar !%d\n  ret void, !foo !%d\n}", f.Uniq("f"), a, b, b)
			case 1: // function definition
				f.TopLine("define void @%s() !foo !%d !bar !%d {\n  ret void\n}", f.Uniq("f"), a, b)
			case 2: // function declaration
				f.TopLine("declare !foo !%d void @%s()", a, f.Uniq("f"))
			case 3: // global
				f.TopLine("@%s = global i32 0, !foo !%d, !bar !%d", f.Uniq("g"), a, b)
				f.TailLine("!%skeep = !{!%d}", f.P, b)
			case 4: // inline node and metadata-as-value argument
				f.Need("declare void @llvm.dbg.value(metadata, metadata, metadata)")
				f.TopLine("define void @%s(i32 %%a) {\n  call void @vf(), !foo !{i32 3}\n  call void @vf(), !foo !{!%d, !{!%d}}\n  ret void\n}", f.Uniq("f"), a, b)
			}
		}},
		{Name: "md-as-value", Build: func(f *Frag) {
			file, cu, sp, bt := diPrelude(f)
			_, _ = file, cu
			v, loc := f.MDID(), f.MDID()
			f.Need("declare void @llvm.dbg.value(metadata, metadata, metadata)", "declare void @llvm.dbg.declare(metadata, metadata, metadata)")
			f.TailLine(`!%d = !DILocalVariable(name: "x", scope: !%d, file: !%d, line: 2, type: !%d)`, v, sp, file, bt)
			f.TailLine("!%d = !DILocation(line: 2, column: 3, scope: !%d)", loc, sp)
			expr := f.Alt("expr", "!DIExpression()", "!DIExpression(DW_OP_deref)", "!DIExpression(DW_OP_plus_uconst, 8, DW_OP_stack_value)", "!DIExpression(DW_OP_LLVM_fragment, 0, 16)", "!DIExpression(DW_OP_constu, 4, DW_OP_minus)")
			val := f.Alt("value", "i32 %a", "i32 7", "i32 undef", "!DIArgList(i32 %a, i32 7)")
			if strings.HasPrefix(val, "!DIArgList") {
				expr = "!DIExpression(DW_OP_LLVM_arg, 0, DW_OP_LLVM_arg, 1, DW_OP_plus)"
			}
			f.TopLine("define void @%s(i32 %%a) !dbg !%d {\n  call void @llvm.dbg.value(metadata %s, metadata !%d, metadata %s), !dbg !%d\n  ret void, !dbg !%d\n}", f.Uniq("f"), sp, val, v, expr, loc, loc)
		}},
		di("DIFlags", func(f *Frag, file, cu, sp, bt int) string {
			// flag SETS: members of the three packed groups (accessibility, inheritance, and the
			// two-bit IndirectVirtualBase) next to each other and next to single-bit flags; the
			// simplest form already holds two packed groups and a single-bit flag.
			fl := []string{"DIFlagPublic", "DIFlagProtected", "DIFlagPrivate", "DIFlagIndirectVirtualBase", "DIFlagFwdDecl", "DIFlagVirtual", "DIFlagSingleInheritance", "DIFlagMultipleInheritance", "DIFlagVirtualInheritance", "DIFlagArtificial", "DIFlagBitField", "DIFlagStaticMember", "DIFlagIntroducedVirtual", "DIFlagNoReturn", "DIFlagTypePassByValue", "DIFlagTypePassByReference", "DIFlagEnumClass", "DIFlagThunk", "DIFlagNonTrivial", "DIFlagBigEndian", "DIFlagLittleEndian", "DIFlagAllCallsDescribed", "DIFlagExplicit", "DIFlagPrototyped", "DIFlagObjcClassComplete", "DIFlagObjectPointer", "DIFlagVector", "DIFlagLValueReference", "DIFlagRValueReference", "DIFlagAppleBlock", "DIFlagReservedBit4", "DIFlagExportSymbols"}
			a := fl[f.N("flagA", len(fl))]
			b := append([]string{"DIFlagIndirectVirtualBase"}, fl...)[f.N("flagB", len(fl)+1)]
			c := append([]string{"DIFlagArtificial", ""}, fl...)[f.N("flagC", len(fl)+2)]
			set := a + " | " + b
			if c != "" {
				set += " | " + c
			}
			return fmt.Sprintf("!DIDerivedType(tag: DW_TAG_inheritance, scope: !%d, baseType: !%d, flags: %s)", bt, bt, set)
		}),
		di("DIBasicType", func(f *Frag, file, cu, sp, bt int) string {
			return "!DIBasicType(" + f.Alt("fields", `name: "char", size: 8, encoding: DW_ATE_signed_char`, `tag: DW_TAG_unspecified_type, name: "decltype(nullptr)"`, `name: "u", size: 64, align: 32, encoding: DW_ATE_unsigned, flags: DIFlagBigEndian`, `name: "f", size: 32, encoding: DW_ATE_float`, `name: "b", size: 8, encoding: DW_ATE_boolean`) + ")"
		}),
		di("DIDerivedType", func(f *Frag, file, cu, sp, bt int) string {
			return fmt.Sprintf("!DIDerivedType(%s)", f.Alt("fields", fmt.Sprintf("tag: DW_TAG_pointer_type, baseType: !%d, size: 64", bt), fmt.Sprintf("tag: DW_TAG_typedef, name: \"T\", file: !%d, line: 3, baseType: !%d", file, bt), fmt.Sprintf("tag: DW_TAG_member, name: \"m\", scope: !%d, file: !%d, line: 4, baseType: !%d, size: 32, offset: 32, flags: DIFlagPublic", sp, file, bt), fmt.Sprintf("tag: DW_TAG_const_type, baseType: !%d", bt), "tag: DW_TAG_pointer_type, baseType: null, size: 64, dwarfAddressSpace: 1", fmt.Sprintf("tag: DW_TAG_member, name: \"bf\", baseType: !%d, size: 3, offset: 5, flags: DIFlagBitField, extraData: i64 0", bt), fmt.Sprintf("tag: DW_TAG_reference_type, baseType: !%d, size: 64, align: 64", bt)))
		}),
		di("DICompositeType", func(f *Frag, file, cu, sp, bt int) string {
			return fmt.Sprintf("!DICompositeType(%s)", f.Alt("fields", fmt.Sprintf("tag: DW_TAG_structure_type, name: \"S\", file: !%d, line: 1, size: 64, elements: !{}", file), fmt.Sprintf("tag: DW_TAG_array_type, baseType: !%d, size: 128, elements: !{!DISubrange(count: 4)}", bt), fmt.Sprintf("tag: DW_TAG_enumeration_type, name: \"E\", file: !%d, line: 2, baseType: !%d, size: 32, elements: !{!DIEnumerator(name: \"A\", value: 0)}", file, bt), "tag: DW_TAG_class_type, name: \"C\", size: 8, flags: DIFlagFwdDecl, identifier: \"_ZTS1C\"", "tag: DW_TAG_union_type, name: \"U\", size: 32, align: 32, runtimeLang: DW_LANG_C_plus_plus, elements: !{}", fmt.Sprintf("tag: DW_TAG_structure_type, name: \"V\", scope: !%d, file: !%d, line: 9, size: 8, flags: DIFlagTypePassByValue | DIFlagNonTrivial, elements: !{}, templateParams: !{}", sp, file)))
		}),
		di("DISubroutineType", func(f *Frag, file, cu, sp, bt int) string {
			return "!DISubroutineType(" + f.Alt("fields", fmt.Sprintf("types: !{!%d, !%d}", bt, bt), "types: !{null}", fmt.Sprintf("flags: DIFlagPrototyped, cc: DW_CC_normal, types: !{!%d}", bt), "cc: DW_CC_BORLAND_stdcall, types: !{}", "flags: DIFlagLValueReference, types: !{null}") + ")"
		}),
		di("DIFile", func(f *Frag, file, cu, sp, bt int) string {
			return "!DIFile(" + f.Alt("fields", `filename: "b.c", directory: "/x"`, `filename: "b.c", directory: ""`, `filename: "c.c", directory: "/y", checksumkind: CSK_MD5, checksum: "0123456789abcdef0123456789abcdef"`, `filename: "d.c", directory: "/z", source: "int x;\0A"`, `filename: "e \22q\22.c", directory: "/w", checksumkind: CSK_SHA1, checksum: "0123456789abcdef0123456789abcdef01234567"`) + ")"
		}),
		di("DICompileUnit", func(f *Frag, file, cu, sp, bt int) string {
			// a second compile unit must be distinct and listed in llvm.dbg.cu: emit it as its own line.
			id := f.MDID()
			f.TailLine("!%d = distinct !DICompileUnit(%s)", id, f.Alt("fields", fmt.Sprintf("language: DW_LANG_C_plus_plus_14, file: !%d", file), fmt.Sprintf("language: DW_LANG_Rust, file: !%d, producer: \"rustc\", isOptimized: true, flags: \"-O2\", runtimeVersion: 2, splitDebugFilename: \"a.dwo\", emissionKind: LineTablesOnly, enums: !{}, retainedTypes: !{}, globals: !{}, imports: !{}, macros: !{}, dwoId: 42, splitDebugInlining: false, debugInfoForProfiling: true, nameTableKind: GNU, rangesBaseAddress: true, sysroot: \"/s\", sdk: \"sdk\"", file), fmt.Sprintf("language: DW_LANG_C99, file: !%d, emissionKind: NoDebug, nameTableKind: None", file), fmt.Sprintf("language: DW_LANG_Swift, file: !%d, emissionKind: DebugDirectivesOnly", file)))
			f.TailLine("!llvm.dbg.cu = !{!%d}", id)
			return fmt.Sprintf("!{!%d}", id)
		}),
		di("DISubprogram", func(f *Frag, file, cu, sp, bt int) string {
			// non-distinct declarations only (definitions must be distinct and have a unit).
			return "!DISubprogram(" + f.Alt("fields", fmt.Sprintf(`name: "g", scope: !%d, file: !%d, line: 7, type: !%d, spFlags: 0`, file, file, bt+1), fmt.Sprintf(`name: "h", linkageName: "_Z1hv", scope: !%d, file: !%d, line: 8, type: !%d, scopeLine: 8, flags: DIFlagPrototyped, spFlags: DISPFlagOptimized`, file, file, bt+1), fmt.Sprintf(`name: "v", scope: !%d, file: !%d, line: 9, type: !%d, virtualIndex: 2, thisAdjustment: 8, flags: DIFlagPublic | DIFlagVirtual, spFlags: DISPFlagVirtual | DISPFlagLocalToUnit`, file, file, bt+1), fmt.Sprintf(`name: "p", scope: !%d, file: !%d, line: 10, type: !%d, spFlags: DISPFlagPureVirtual, virtualIndex: 0`, file, file, bt+1), fmt.Sprintf(`name: "d", scope: !%d, file: !%d, type: !%d, spFlags: DISPFlagDeleted`, file, file, bt+1), fmt.Sprintf(`scope: !%d, file: !%d, type: !%d, spFlags: DISPFlagElemental | DISPFlagRecursive | DISPFlagPure`, file, file, bt+1)) + ")"
		}),
		di("DILexicalBlock", func(f *Frag, file, cu, sp, bt int) string {
			return fmt.Sprintf("!DILexicalBlock(scope: !%d, file: !%d%s)", sp, file, f.Alt("fields", ", line: 3, column: 5", "", ", line: 1"))
		}),
		di("DILexicalBlockFile", func(f *Frag, file, cu, sp, bt int) string {
			return fmt.Sprintf("!DILexicalBlockFile(scope: !%d, file: !%d, discriminator: %s)", sp, file, f.Alt("disc", "0", "7"))
		}),
		di("DILocation", func(f *Frag, file, cu, sp, bt int) string {
			return fmt.Sprintf("!DILocation(%s)", f.Alt("fields", fmt.Sprintf("line: 4, column: 2, scope: !%d", sp), fmt.Sprintf("line: 0, scope: !%d", sp), fmt.Sprintf("line: 5, column: 1, scope: !%d, isImplicitCode: true", sp)))
		}),
		di("DILocalVariable", func(f *Frag, file, cu, sp, bt int) string {
			return fmt.Sprintf("!DILocalVariable(%s)", f.Alt("fields", fmt.Sprintf("name: \"v\", scope: !%d, file: !%d, line: 3, type: !%d", sp, file, bt), fmt.Sprintf("name: \"a\", arg: 1, scope: !%d, file: !%d, line: 1, type: !%d, flags: DIFlagArtificial | DIFlagObjectPointer", sp, file, bt), fmt.Sprintf("name: \"al\", scope: !%d, type: !%d, align: 64", sp, bt), fmt.Sprintf("scope: !%d", sp)))
		}),
		di("DIGlobalVariable", func(f *Frag, file, cu, sp, bt int) string {
			return fmt.Sprintf("!DIGlobalVariable(%s)", f.Alt("fields", fmt.Sprintf("name: \"gv\", scope: !%d, file: !%d, line: 1, type: !%d, isLocal: false, isDefinition: true", cu, file, bt), fmt.Sprintf("name: \"s\", linkageName: \"_ZL1s\", scope: !%d, file: !%d, line: 2, type: !%d, isLocal: true, isDefinition: true, align: 32", cu, file, bt), fmt.Sprintf("name: \"d\", scope: !%d, file: !%d, line: 3, type: !%d, isLocal: false, isDefinition: false, templateParams: !{}", cu, file, bt)))
		}),
		di("DIGlobalVariableExpression", func(f *Frag, file, cu, sp, bt int) string {
			gv := f.MDID()
			f.TailLine(`!%d = distinct !DIGlobalVariable(name: "gve", scope: !%d, file: !%d, line: 1, type: !%d, isLocal: false, isDefinition: true)`, gv, cu, file, bt)
			return fmt.Sprintf("!DIGlobalVariableExpression(var: !%d, expr: %s)", gv, f.Alt("expr", "!DIExpression()", "!DIExpression(DW_OP_constu, 1, DW_OP_stack_value)"))
		}),
		di("DIExpression", func(f *Frag, file, cu, sp, bt int) string {
			return "!{" + f.Alt("expr", "!DIExpression()", "!DIExpression(DW_OP_deref)", "!DIExpression(DW_OP_plus_uconst, 3)", "!DIExpression(DW_OP_LLVM_convert, 16, DW_ATE_signed, DW_OP_LLVM_convert, 32, DW_ATE_signed)", "!DIExpression(DW_OP_breg0, 4, DW_OP_swap, DW_OP_xderef)", "!DIExpression(DW_OP_LLVM_tag_offset, 1)", "!DIExpression(DW_OP_LLVM_entry_value, 1)") + "}"
		}),
		di("DIEnumerator", func(f *Frag, file, cu, sp, bt int) string {
			return "!DIEnumerator(" + f.Alt("fields", `name: "A", value: 0`, `name: "B", value: -5`, `name: "C", value: 18446744073709551615, isUnsigned: true`, `name: "D", value: 7, isUnsigned: true`, `name: "E", value: 9223372036854775807`) + ")"
		}),
		di("DISubrange", func(f *Frag, file, cu, sp, bt int) string {
			return "!DISubrange(" + f.Alt("fields", "count: 4", "count: -1", "count: 3, lowerBound: 1", "lowerBound: 0, upperBound: 9, stride: 2") + ")"
		}),
		di("DINamespace", func(f *Frag, file, cu, sp, bt int) string {
			return "!DINamespace(" + f.Alt("fields", `name: "ns", scope: null`, `scope: null`, `name: "in", scope: null, exportSymbols: true`) + ")"
		}),
		di("DIModule", func(f *Frag, file, cu, sp, bt int) string {
			return fmt.Sprintf("!DIModule(%s)", f.Alt("fields", fmt.Sprintf(`scope: !%d, name: "M"`, file), `scope: null, name: "N", configMacros: "-DX", includePath: "/i", apinotes: "n.apinotes"`, fmt.Sprintf(`scope: null, name: "L", file: !%d, line: 3, isDecl: true`, file)))
		}),
		di("DITemplateTypeParameter", func(f *Frag, file, cu, sp, bt int) string {
			return fmt.Sprintf("!DITemplateTypeParameter(%s)", f.Alt("fields", fmt.Sprintf(`name: "T", type: !%d`, bt), fmt.Sprintf(`type: !%d`, bt), fmt.Sprintf(`name: "U", type: !%d, defaulted: true`, bt)))
		}),
		di("DITemplateValueParameter", func(f *Frag, file, cu, sp, bt int) string {
			return fmt.Sprintf("!DITemplateValueParameter(%s)", f.Alt("fields", fmt.Sprintf(`name: "N", type: !%d, value: i32 3`, bt), fmt.Sprintf(`tag: DW_TAG_GNU_template_template_param, name: "TT", type: !%d, value: !"x"`, bt), fmt.Sprintf(`type: !%d, defaulted: true, value: i32 0`, bt)))
		}),
		di("DIImportedEntity", func(f *Frag, file, cu, sp, bt int) string {
			return fmt.Sprintf("!DIImportedEntity(%s)", f.Alt("fields", fmt.Sprintf(`tag: DW_TAG_imported_module, scope: !%d, entity: !%d, file: !%d, line: 2`, cu, sp, file), fmt.Sprintf(`tag: DW_TAG_imported_declaration, name: "alias", scope: !%d, entity: !%d`, cu, sp)))
		}),
		di("DILabel", func(f *Frag, file, cu, sp, bt int) string {
			return fmt.Sprintf(`!DILabel(scope: !%d, name: "L", file: !%d, line: %s)`, sp, file, f.Alt("line", "3", "0"))
		}),
		di("DIMacro+DIMacroFile", func(f *Frag, file, cu, sp, bt int) string {
			mf := f.MDID()
			f.TailLine("!%d = !DIMacroFile(%sfile: !%d, nodes: !{!DIMacro(type: DW_MACINFO_undef, line: 2, name: \"U\")})", mf, f.Alt("mf-fields", "", "line: 3, ", "type: DW_MACINFO_start_file, line: 1, "), file)
			return fmt.Sprintf("!{!DIMacro(%s), !%d}", f.Alt("fields", `type: DW_MACINFO_define, line: 1, name: "M", value: "1"`, `type: DW_MACINFO_define, name: "N"`, `type: DW_MACINFO_undef, line: 9, name: "O"`), mf)
		}),
		di("DIObjCProperty", func(f *Frag, file, cu, sp, bt int) string {
			return fmt.Sprintf("!DIObjCProperty(%s)", f.Alt("fields", fmt.Sprintf(`name: "p", file: !%d, line: 1, getter: "g", setter: "s", attributes: 7, type: !%d`, file, bt), `name: "q"`))
		}),
		di("DICommonBlock", func(f *Frag, file, cu, sp, bt int) string {
			return fmt.Sprintf("!DICommonBlock(scope: !%d, declaration: null, name: \"cb\"%s)", sp, f.Alt("fields", "", fmt.Sprintf(", file: !%d, line: 4", file)))
		}),
		di("DIStringType", func(f *Frag, file, cu, sp, bt int) string {
			return "!DIStringType(" + f.Alt("fields", `name: "character(5)", size: 40`, `name: "s", size: 8, align: 8, encoding: DW_ATE_ASCII`, `name: "t", stringLengthExpression: !DIExpression(), size: 32`) + ")"
		}),
		di("GenericDINode", func(f *Frag, file, cu, sp, bt int) string {
			return "!GenericDINode(" + f.Alt("fields", `tag: DW_TAG_entry_point, header: "h"`, `tag: 3, header: "x\00y", operands: {!"a", null}`, fmt.Sprintf(`tag: DW_TAG_label, operands: {!%d}`, bt)) + ")"
		}),
	}
}
