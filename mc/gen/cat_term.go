package gen

import (
	"fmt"
	"strings"
)

const (
	declVF    = "declare void @vf()"
	declF1    = "declare i32 @f1(i32)"
	declF2    = "declare i32 @f2(i32, float)"
	declFV    = "declare i32 @fv(i32, ...)"
	declF1def = "define i32 @f1def(i32 %a) {\n  ret i32 %a\n}"
	declF1res = "define i32 (i32)* @f1resolver() {\n  ret i32 (i32)* @f1def\n}"
	declFVdef = "define i32 @fvdef(i32 %a, ...) {\n  ret i32 %a\n}"
	declPers  = "declare i32 @__gxx_personality_v0(...)"
	declSEH   = "declare i32 @__CxxFrameHandler3(...)"
	declTI    = "@TI = external constant i8"
)

var callConvs = []string{"", "ccc ", "cc 0 ", "cc 1 ", "cc 8 ", "fastcc ", "coldcc ", "cc 10 ", "cc 11 ", "cc 99 ", "webkit_jscc ", "swiftcc ", "x86_stdcallcc ", "x86_64_sysvcc ", "win64cc ", "cc 1023 ", "tailcc ", "swifttailcc ", "cfguard_checkcc ", "preserve_mostcc ", "x86_vectorcallcc ", "arm_aapcs_vfpcc ", "spir_func "}

// callSite builds the text of a call-like site (shared by call, invoke, callbr).
func callSite(f *Frag, kw string) (text string, retType string) {
	cc := f.Alt("callconv", callConvs...)
	retAttrs := f.Alt("ret-attrs", "", "zeroext ", "signext ", "inreg ", "noundef ")
	as := f.Opt("addrspace", "addrspace(0) ")
	form := f.N("callee", 14)
	var callee, args, ty string
	retType = "i32"
	a := f.Param("i32")
	x := f.Param("float")
	switch form {
	case 0:
		f.Need(declF1)
		ty, callee, args = "i32", "@f1", "i32 "+f.Alt("arg-attrs", "", "signext ", "zeroext ", "noundef ", "inreg ")+a
	case 1:
		f.Need(declVF)
		ty, callee, args, retType = "void", "@vf", "", "void"
		retAttrs = ""
	case 2:
		f.Need(declF2)
		ty, callee, args = "i32", "@f2", "i32 "+a+", float "+x
	case 3:
		f.Need(declFV)
		ty, callee, args = "i32 (i32, ...)", "@fv", "i32 "+a+", i32 7, float "+x
	case 4:
		fp := f.Param("i32 (i32)*")
		ty, callee, args = "i32", fp, "i32 "+a
	case 5:
		f.Need(declF1)
		ty, callee, args = "i32 (i32)", "@f1", "i32 "+a
	case 6: // variadic callee that is not a function: a function pointer held in a local
		fp := f.Param("i32 (i32, ...)*")
		ty, callee, args = "i32 (i32, ...)", fp, "i32 "+a+", i32 7, float "+x
	case 7: // variadic callee reached through a constant expression
		f.Need(declFV)
		ty, callee, args = "i32 (i32, ...)", "bitcast (i32 (i32, ...)* @fv to i32 (i32, ...)*)", "i32 "+a+", float "+x
	case 8: // variadic callee reached through an alias
		f.Need(declFVdef, "@fvalias = alias i32 (i32, ...), i32 (i32, ...)* @fvdef")
		ty, callee, args = "i32 (i32, ...)", "@fvalias", "i32 "+a+", i32 7"
	}
	switch form {
	case 9: // callee is an ifunc
		f.Need(declF1def, declF1res, "@f1ifunc = ifunc i32 (i32), i32 (i32)* ()* @f1resolver")
		ty, callee, args = "i32", "@f1ifunc", "i32 "+a
	case 10: // callee is an alias of a defined function
		f.Need(declF1def, "@f1alias = alias i32 (i32), i32 (i32)* @f1def")
		ty, callee, args = "i32", "@f1alias", "i32 "+a
	case 11: // variadic callee that is an ifunc, explicit function type
		f.Need(declFVdef, "define i32 (i32, ...)* @fvresolver() {\n  ret i32 (i32, ...)* @fvdef\n}", "@fvifunc = ifunc i32 (i32, ...), i32 (i32, ...)* ()* @fvresolver")
		ty, callee, args = "i32 (i32, ...)", "@fvifunc", "i32 "+a+", float "+x
	case 12: // callee is a constant expression that changes the function type
		f.Need(declF1)
		ty, callee, args, retType = "float (i32)", "bitcast (i32 (i32)* @f1 to float (i32)*)", "i32 "+a, "float"
		retAttrs = ""
	}
	if form == 13 { // callee is a function pointer in a non-default address space
		fp := f.Param("i32 (i32) addrspace(1)*")
		ty, callee, args = "i32", fp, "i32 "+a
		as = "addrspace(1) "
	}
	if cc != "" && (form != 4 && form != 6 && form != 13) {
		// a calling convention on the call must match the callee: use an indirect callee.
		fp := f.Param("i32 (i32)*")
		ty, callee, args, retType = "i32", fp, "i32 "+a, "i32"
	}
	fattrs := f.Alt("func-attrs", "", " nounwind", " noreturn nounwind", " \"k\"=\"v\"", " \"s\"", " readnone willreturn")
	if f.Flip("attr-group") {
		id := f.AttrID()
		f.TailLine("attributes #%d = { nounwind \"k\"=\"v\" }", id)
		fattrs += fmt.Sprintf(" #%d", id)
	}
	bundles := ""
	switch f.N("bundles", 4) {
	case 1:
		bundles = ` [ "tag"() ]`
	case 2:
		bundles = ` [ "tag"(i32 ` + a + `) ]`
	case 3:
		bundles = ` [ "tag"(i32 ` + a + `, float ` + x + `), "other"(i1 true) ]`
	}
	text = fmt.Sprintf("%s %s%s%s%s %s(%s)%s%s", kw, cc, retAttrs, as, ty, callee, args, fattrs, bundles)
	return
}

// TermEntries is the terminator / call / exception-handling part of the catalogue.
func TermEntries() []Entry {
	return []Entry{
		{Name: "ret", Build: func(f *Frag) {
			f.Kind("TermRet")
			if f.Flip("value") {
				t := f.Type("T", TFirstCl)
				f.Func(t)
				a := f.Param(t)
				v := a
				if f.Flip("const") {
					v = "zeroinitializer"
				}
				f.End("ret " + t + " " + v + f.instMD())
			} else {
				f.Func("void")
				f.End("ret void" + f.instMD())
			}
		}},
		{Name: "br", Build: func(f *Frag) {
			f.Kind("TermBr", "TermCondBr")
			f.Func("void")
			c := f.Param("i1")
			if f.Flip("conditional") {
				cond := c
				if f.Flip("const-cond") {
					cond = "true"
				}
				f.Line("br i1 %s, label %%a, label %s%s", cond, f.Alt("same-target", "%b", "%a"), f.instMD())
			} else {
				f.Line("br label %%a%s", f.instMD())
			}
			f.Label("a")
			f.Line("br label %%b")
			f.Label("b")
			f.End("")
		}},
		{Name: "switch", Build: func(f *Frag) {
			f.Kind("TermSwitch")
			f.Func("void")
			t := f.Alt("T", "i32", "i8", "i64", "i1")
			a := f.Param(t)
			n := f.N("cases", 4)
			vals := []string{"1", "2", "-3"}
			if t == "i1" {
				vals = []string{"true", "false", "true"}
				if n > 2 {
					n = 2
				}
			}
			var cs []string
			for i := 0; i < n; i++ {
				cs = append(cs, fmt.Sprintf("%s %s, label %%c%d", t, vals[i], i%2))
			}
			f.Line("switch %s %s, label %%d [ %s ]%s", t, a, strings.Join(cs, " "), f.instMD())
			f.Label("c0")
			f.Line("br label %%d")
			f.Label("c1")
			f.Line("br label %%d")
			f.Label("d")
			f.End("")
		}},
		{Name: "indirectbr", Build: func(f *Frag) {
			f.Kind("TermIndirectBr")
			f.Func("void")
			a := f.Param("i8*")
			n := f.N("targets", 3)
			var ts []string
			for i := 0; i < n; i++ {
				ts = append(ts, fmt.Sprintf("label %%t%d", i))
			}
			f.Line("indirectbr i8* %s, [%s]%s", a, strings.Join(ts, ", "), f.instMD())
			f.Label("t0")
			f.Line("ret void")
			f.Label("t1")
			f.End("")
		}},
		{Name: "unreachable+resume", Build: func(f *Frag) {
			f.Kind("TermUnreachable")
			f.Func("void")
			f.End("unreachable" + f.instMD())
		}},
		{Name: "call", Build: func(f *Frag) {
			f.Kind("InstCall")
			f.Func("void")
			tail := f.Alt("tail", "", "tail ", "musttail-form", "notail ")
			fm := ""
			if tail == "musttail-form" {
				// musttail must be followed by ret of the same value and matching prototypes.
				f.Need(declVF)
				f.Line("musttail call void @vf()")
				f.End("ret void")
				return
			}
			site, rt := callSite(f, tail+"call"+fm)
			if rt == "void" {
				f.Line("%s%s", site, f.instMD())
			} else {
				r := f.Res()
				f.Line("%s = %s%s", r, site, f.instMD())
				f.Use(rt, r)
			}
			f.End("")
		}},
		{Name: "call-fp-fastmath", Build: func(f *Frag) {
			f.Kind("InstCall")
			f.Func("void")
			f.Need("declare float @ff(float)")
			a := f.Param("float")
			r := f.Res()
			f.Line("%s = call%s float @ff(float %s)", r, f.Alt("fast-math", fastMath...), a)
			f.Use("float", r)
			f.End("")
		}},
		{Name: "call-inline-asm", Build: func(f *Frag) {
			f.Kind("InstCall")
			f.Func("void")
			a := f.Param("i32")
			flags := f.Opt("sideeffect", " sideeffect") + f.Opt("alignstack", " alignstack") + f.Opt("inteldialect", " inteldialect") + f.Opt("unwind", " unwind")
			if f.Flip("value") {
				r := f.Res()
				f.Line(`%s = call i32 asm%s "mov $1, $0", "=r,r"(i32 %s)`, r, flags, a)
				f.Use("i32", r)
				if f.Flip("same-asm-other-type") {
					// the same assembly, constraints and flags at ANOTHER function type
					b := f.Param("i64")
					r2 := f.Res()
					f.Line(`%s = call i64 asm%s "mov $1, $0", "=r,r"(i64 %s)`, r2, flags, b)
					f.Use("i64", r2)
				}
			} else {
				f.Line(`call void asm%s "nop", ""()`, flags)
			}
			f.End("")
		}},
		{Name: "invoke+landingpad", Build: func(f *Frag) {
			f.Kind("TermInvoke", "InstLandingPad", "TermResume")
			f.Func("void")
			f.Need(declPers, declTI)
			f.FuncAttrs("personality i8* bitcast (i32 (...)* @__gxx_personality_v0 to i8*)")
			site, rt := callSite(f, "invoke")
			if rt == "void" {
				f.Line("%s to label %%ok unwind label %%lp%s", site, f.instMD())
			} else {
				f.Line("%%iv = %s to label %%ok unwind label %%lp%s", site, f.instMD())
			}
			f.Label("ok")
			f.Line("ret void")
			f.Label("lp")
			clauses := f.Alt("clauses", " cleanup", " catch i8* @TI", " cleanup catch i8* @TI", " catch i8* null filter [1 x i8*] [i8* @TI]", " filter [0 x i8*] zeroinitializer", " catch i8* @TI catch i8* null")
			f.Line("%%l = landingpad { i8*, i32 }%s", clauses)
			f.End("resume { i8*, i32 } %l")
		}},
		{Name: "seh", Build: func(f *Frag) {
			f.Kind("TermCatchSwitch", "InstCatchPad", "TermCatchRet", "InstCleanupPad", "TermCleanupRet", "TermInvoke")
			f.Func("void")
			f.Need(declSEH, declVF)
			f.FuncAttrs("personality i8* bitcast (i32 (...)* @__CxxFrameHandler3 to i8*)")
			a := f.Param("i32")
			f.Line("invoke void @vf() to label %%done unwind label %%cs")
			f.Label("cs")
			two := f.Flip("two-handlers")
			unwind := f.Alt("catchswitch-unwind", "to caller", "label %cu", "label %outer")
			hs := "label %h1"
			if two {
				hs += ", label %h2"
			}
			f.Line("%%s = catchswitch within none [%s] unwind %s", hs, unwind)
			f.Label("h1")
			f.Line("%%c1 = catchpad within %%s [%s]", f.Alt("catchpad-args", "", "i32 "+a, "i32 "+a+", i8* null"))
			if f.Flip("funclet-call") {
				f.Line(`call void @vf() [ "funclet"(token %%c1) ]`)
			}
			f.Line("catchret from %%c1 to label %%done")
			if two {
				f.Label("h2")
				f.Line("%%c2 = catchpad within %%s [i8* null, i32 64, i8* null]")
				f.Line("catchret from %%c2 to label %%done")
			}
			if unwind == "label %outer" {
				// nested scopes: the inner catchswitch unwinds to the dispatch block of an outer one
				f.Label("outer")
				f.Line("%%so = catchswitch within none [label %%ho, label %%ho2] unwind to caller")
				f.Label("ho")
				f.Line("%%co = catchpad within %%so [i8* null, i32 64, i8* null]")
				f.Line("catchret from %%co to label %%done")
				f.Label("ho2")
				f.Line("%%co2 = catchpad within %%so [i32 %s]", a)
				f.Line("catchret from %%co2 to label %%done")
			} else if unwind != "to caller" {
				f.Label("cu")
				f.Line("%%u = cleanuppad within none [%s]", f.Alt("cleanuppad-args", "", "i32 "+a))
				f.Line("cleanupret from %%u unwind %s", f.Alt("cleanupret-unwind", "to caller", "label %cu2"))
				f.Label("cu2")
				f.Line("%%u2 = cleanuppad within none []")
				f.Line("cleanupret from %%u2 unwind to caller")
			}
			f.Label("done")
			f.End("")
		}},
		{Name: "callbr", Build: func(f *Frag) {
			f.Kind("TermCallBr")
			f.Func("void")
			a := f.Param("i32")
			t2 := false
			switch f.N("form", 3) {
			case 0:
				f.Line(`callbr void asm sideeffect "", "X"(i8* blockaddress(@%sf1, %%t1)) to label %%n [label %%t1]`, f.P)
			case 1:
				f.Line(`%%r = callbr i32 asm "", "=r,r,X,X"(i32 %s, i8* blockaddress(@%sf1, %%t1), i8* blockaddress(@%sf1, %%t2)) to label %%n [label %%t1, label %%t2]`, a, f.P, f.P)
				t2 = true
			case 2:
				f.Line(`callbr void asm sideeffect "", ""() to label %%n []`)
			}
			f.Label("n")
			f.Line("ret void")
			if t2 {
				f.Label("t2")
				f.Line("ret void")
			}
			f.Label("t1")
			f.End("")
		}},
	}
}
