// Package sched is the harness side of the vhook scheduler: a stateless depth-first explorer of
// all schedules (optionally preemption-bounded) plus race-log attribution.
package sched

import (
	"fmt"
	"os"
	"path/filepath"
	"regexp"
	"sort"
	"strings"

	"github.com/llir/llvm/vhook"
)

// Explorer enumerates schedules.
type Explorer struct {
	Bound   int // max preemptions; <0 = unbounded
	MaxExec int // cap on executions (0 = none); hitting it sets Capped
	Execs   int
	Points  int64
	Capped  bool
	MaxLen  int
	// Shard/Shards split the schedule tree between processes: every shard runs the root
	// execution (choice 0 everywhere) to learn its choice points, shard 0 alone evaluates it, and
	// the subtree below the k-th child of the root belongs to shard k mod Shards. The union over
	// all shards is exactly the unsharded exploration.
	Shard, Shards int
	OnSkip        func()
	// BoundCompleted is the preemption bound fully explored (== Bound unless capped).
}

// Body factory: returns fresh thread bodies and a function called after the execution.
type Factory func() (bodies []func(), after func(res vhook.Result, tr vhook.Trace))

// Explore runs the DFS. It returns an error for machinery problems (replay divergence).
//
// Sharding (Shards > 1): nodes reached by fewer than two alternatives (the root and its children)
// are executed by EVERY shard, in the same order, because their traces are needed to enumerate the
// level-2 nodes; each of them is evaluated by exactly one shard (the root by shard 0, the k-th
// child of the root by shard k mod Shards). The j-th level-2 node generated (a running count that
// is identical in all shards) and everything below it belongs to shard j mod Shards. The union of
// the evaluated executions over all shards is exactly the unsharded exploration.
func (e *Explorer) Explore(mk Factory) error {
	type node struct {
		prefix []int
		cost   int
		depth  int // alternatives taken
		owned  bool
	}
	stack := []node{{nil, 0, 0, e.Shards <= 1 || e.Shard == 0}}
	n1, n2 := 0, 0
	for len(stack) > 0 {
		nd := stack[len(stack)-1]
		stack = stack[:len(stack)-1]
		if e.MaxExec > 0 && e.Execs >= e.MaxExec {
			e.Capped = true
			return nil
		}
		bodies, after := mk()
		vhook.SetPrefix(nd.prefix)
		res := vhook.RunRecorded(bodies)
		tr := vhook.LastTrace()
		if tr.Diverged {
			return fmt.Errorf("replay divergence at prefix %v (nondeterminism not owned by the scheduler)", nd.prefix)
		}
		if res.Overrun {
			return fmt.Errorf("execution exceeded the horizon at prefix %v", nd.prefix)
		}
		for i := 0; i < len(nd.prefix); i++ {
			if tr.Choice[i] != nd.prefix[i] {
				return fmt.Errorf("replay divergence: choice %d", i)
			}
		}
		if nd.owned {
			e.Execs++
			e.Points += int64(res.Points)
			if len(tr.Choice) > e.MaxLen {
				e.MaxLen = len(tr.Choice)
			}
			after(res, tr)
		} else if e.OnSkip != nil {
			e.OnSkip() // e.g. drain the race log of an execution another shard evaluates
		}
		// Children, pushed in reverse so that the DFS visits low alternatives first.
		for i := len(tr.Choice) - 1; i >= len(nd.prefix); i-- {
			for alt := tr.N[i] - 1; alt >= 1; alt-- {
				c := nd.cost
				if tr.CurEn[i] {
					c++
				}
				if e.Bound >= 0 && c > e.Bound {
					continue
				}
				owned := nd.owned
				if e.Shards > 1 {
					switch nd.depth {
					case 0:
						owned = n1%e.Shards == e.Shard
						n1++
					case 1:
						owned = n2%e.Shards == e.Shard
						n2++
						if !owned {
							continue // another shard explores this subtree
						}
					}
				}
				p := make([]int, i+1)
				copy(p, tr.Choice[:i])
				p[i] = alt
				stack = append(stack, node{p, c, nd.depth + 1, owned})
			}
		}
	}
	return nil
}

// ---- race log ------------------------------------------------------------------------------------

// RaceLog follows the file(s) the Go race detector writes (GORACE=log_path=<prefix>).
type RaceLog struct {
	prefix string
	off    map[string]int64
}

// NewRaceLog follows log files with the given path prefix.
func NewRaceLog(prefix string) *RaceLog { return &RaceLog{prefix: prefix, off: map[string]int64{}} }

// Race is one parsed data race report.
type Race struct {
	Signature string // sorted pair of the innermost library frames of the two accesses
	Report    string
	InLibrary bool // both stacks contain a library frame
}

// Poll returns the race reports written since the last call.
func (l *RaceLog) Poll() []Race {
	files, _ := filepath.Glob(l.prefix + ".*")
	sort.Strings(files)
	var out []Race
	for _, f := range files {
		st, err := os.Stat(f)
		if err != nil || st.Size() == l.off[f] {
			continue
		}
		b, err := os.ReadFile(f)
		if err != nil {
			continue
		}
		chunk := string(b[l.off[f]:])
		l.off[f] = int64(len(b))
		out = append(out, ParseRaces(chunk)...)
	}
	return out
}

var frameRe = regexp.MustCompile(`^\s+(github\.com/llir/llvm/[^\s(]+(?:\([^)]*\))?[^\s(]*)\(`)

// ParseRaces splits a race log chunk into reports and computes signatures.
func ParseRaces(chunk string) []Race {
	var out []Race
	parts := strings.Split(chunk, "WARNING: DATA RACE")
	for _, p := range parts[1:] {
		if i := strings.Index(p, "=================="); i >= 0 {
			p = p[:i]
		}
		// Sections: the two access stacks come first ("Write at"/"Read at"/"Previous ...").
		secs := strings.Split(p, "\n\n")
		type acc struct {
			write        bool
			inner, outer string
		}
		var accs []acc
		for _, s := range secs {
			h := strings.TrimSpace(s)
			if !(strings.HasPrefix(h, "Write at") || strings.HasPrefix(h, "Read at") || strings.HasPrefix(h, "Previous write at") || strings.HasPrefix(h, "Previous read at") || strings.HasPrefix(h, "Atomic") || strings.HasPrefix(h, "Previous atomic")) {
				continue
			}
			a := acc{write: strings.Contains(strings.ToLower(strings.SplitN(h, "\n", 2)[0]), "write")}
			for _, ln := range strings.Split(s, "\n") {
				t := strings.TrimSpace(ln)
				if strings.HasPrefix(t, "github.com/llir/llvm/") && !strings.HasPrefix(t, "github.com/llir/llvm/vhook") {
					fn := t
					if j := strings.LastIndex(fn, "("); j > 0 {
						fn = fn[:j]
					}
					fn = strings.TrimPrefix(fn, "github.com/llir/llvm/")
					if a.inner == "" {
						a.inner = fn
					}
					a.outer = fn
				}
			}
			if a.outer == "ir.(*Module).String" {
				a.outer = "ir.(*Module).WriteTo"
			}
			accs = append(accs, a)
		}
		r := Race{Report: strings.TrimSpace(p)}
		if len(r.Report) > 2500 {
			r.Report = r.Report[:2500]
		}
		r.InLibrary = len(accs) >= 2 && accs[0].inner != "" && accs[1].inner != ""
		if len(accs) >= 2 {
			// signature: the function performing the write (both, if write/write) and the two
			// library entry points the threads were in.
			var ws, es []string
			for _, a := range accs[:2] {
				if a.write {
					ws = append(ws, a.inner)
				}
				es = append(es, a.outer)
			}
			sort.Strings(ws)
			sort.Strings(es)
			r.Signature = "write=" + strings.Join(ws, "+") + "/entries=" + strings.Join(es, "|")
		}
		out = append(out, r)
	}
	return out
}
