// Command check is the single driver of all property checks.
//
//	check <ID> --tier quick|thorough [--replay file]
package main

import (
	"fmt"
	"io"
	"log"
	"os"
	"runtime/debug"

	"verif/fw"
	"verif/props"
)

func main() {
	if len(os.Args) < 2 {
		fmt.Fprintln(os.Stderr, "usage: check <ID> [--tier quick|thorough] [--replay file]")
		os.Exit(2)
	}
	id := os.Args[1]
	log.SetOutput(io.Discard) // the library logs deprecation notes to stderr
	tier := os.Getenv("VERIF_TIER")
	if tier == "" {
		tier = "quick"
	}
	replay := ""
	for i := 2; i < len(os.Args); i++ {
		switch os.Args[i] {
		case "--tier":
			i++
			tier = os.Args[i]
		case "--replay":
			i++
			replay = os.Args[i]
		default:
			// passed to the property (worker mode etc.)
		}
	}
	p, ok := props.Registry[id]
	if !ok {
		fw.Fatalf("unknown property %q", id)
	}
	c := fw.New(id, tier)
	defer func() {
		// A panic that escapes a check and comes out of the library is reported as a violation
		// (the unchanged tree never gets here); anything else is a machinery error.
		if r := recover(); r != nil {
			stack := string(debug.Stack())
			if site := fw.LibraryFrame(stack); site != "" {
				c.Violation("uncaught-library-panic@"+site, map[string]string{"panic": fmt.Sprint(r), "stack": fw.Trunc(stack, 3000)})
				c.Exhaustive = false
				c.Finish()
			}
			fmt.Fprintf(os.Stderr, "%v\n%s\n", r, stack)
			fw.Fatalf("harness panic outside the library: %v", r)
		}
	}()
	if replay != "" {
		if p.Replay == nil {
			fw.Fatalf("property %s has no replay function", id)
		}
		p.Replay(c, replay)
		c.Finish()
	}
	p.Run(c)
	c.Finish()
}
