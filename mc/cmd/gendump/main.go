package main

import (
	"fmt"
	"os"
	"strconv"

	"verif/gen"
)

func main() {
	bound, _ := strconv.Atoi(os.Args[1])
	var all []gen.Variant
	for i, e := range gen.Catalogue() {
		all = append(all, gen.Variants(e, i, bound)...)
	}
	fmt.Print(gen.Module(all))
}
