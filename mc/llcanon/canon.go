// Package llcanon turns llvm-dis output into a comparison form in which only the freedoms the
// properties grant are normalised: order of top-level definitions, attribute-group numbering and
// metadata numbering (colour refinement over the metadata graph).
package llcanon

import (
	"crypto/sha256"
	"encoding/hex"
	"regexp"
	"sort"
	"strings"
)

// Entity is one top-level definition of an llvm-dis module.
type Entity struct {
	Kind string // type comdat global func attr namedmd md other
	Name string
	Text string
}

var (
	reAttrRef = regexp.MustCompile(`#(\d+)`)
	reMDRef   = regexp.MustCompile(`!(\d+)`)
	reDefName = regexp.MustCompile(`^(?:define|declare)[^@]*(@[^\s(]+|@"[^"]*")\(`)
)

// Split parses llvm-dis output into entities.
func Split(text string) []Entity {
	var es []Entity
	lines := strings.Split(text, "\n")
	for i := 0; i < len(lines); i++ {
		l := lines[i]
		switch {
		case l == "" || strings.HasPrefix(l, "; ModuleID") || strings.HasPrefix(l, "source_filename"):
		case strings.HasPrefix(l, ";"):
			// comment lines such as "; Function Attrs: ..." are derived, drop them.
		case strings.HasPrefix(l, "define"):
			var b []string
			for ; i < len(lines); i++ {
				b = append(b, stripComment(lines[i]))
				if lines[i] == "}" {
					break
				}
			}
			t := strings.Join(b, "\n")
			es = append(es, Entity{"func", defName(b[0]), t})
		case strings.HasPrefix(l, "declare"):
			es = append(es, Entity{"func", defName(l), stripComment(l)})
		case strings.HasPrefix(l, "attributes #"):
			es = append(es, Entity{"attr", strings.Fields(l)[1], l})
		case strings.HasPrefix(l, "!") && len(l) > 1 && l[1] >= '0' && l[1] <= '9':
			es = append(es, Entity{"md", strings.Fields(l)[0], l})
		case strings.HasPrefix(l, "!"):
			es = append(es, Entity{"namedmd", strings.Fields(l)[0], l})
		case strings.HasPrefix(l, "%"):
			es = append(es, Entity{"type", strings.Fields(l)[0], l})
		case strings.HasPrefix(l, "$"):
			es = append(es, Entity{"comdat", strings.Fields(l)[0], l})
		case strings.HasPrefix(l, "@"):
			es = append(es, Entity{"global", strings.Fields(l)[0], stripComment(l)})
		default:
			es = append(es, Entity{"other", "", l})
		}
	}
	return es
}

func stripComment(l string) string {
	// llvm-dis appends "; preds = ..." / "; No predecessors!" comments; strings cannot contain
	// an unescaped '"' so a ';' outside quotes starts a comment.
	inq := false
	for i := 0; i < len(l); i++ {
		switch l[i] {
		case '"':
			inq = !inq
		case ';':
			if !inq {
				return strings.TrimRight(l[:i], " \t")
			}
		}
	}
	return l
}

func defName(l string) string {
	if m := reDefName.FindStringSubmatch(l); m != nil {
		return m[1]
	}
	return l
}

func h(s string) string {
	x := sha256.Sum256([]byte(s))
	return hex.EncodeToString(x[:6])
}

// Canon returns the normalised entities, sorted, keyed for comparison.
func Canon(text string) []Entity {
	es := Split(text)
	attrs := map[string]string{}
	md := map[string]string{}
	for _, e := range es {
		switch e.Kind {
		case "attr":
			// attributes #0 = { ... }
			if i := strings.Index(e.Text, "= "); i >= 0 {
				attrs[strings.TrimPrefix(e.Name, "#")] = e.Text[i+2:]
			}
		case "md":
			if i := strings.Index(e.Text, "= "); i >= 0 {
				md[strings.TrimPrefix(e.Name, "!")] = e.Text[i+2:]
			}
		}
	}
	// metadata colour refinement.
	col := map[string]string{}
	for k := range md {
		col[k] = "_"
	}
	for round := 0; round < 8; round++ {
		next := map[string]string{}
		for k, body := range md {
			next[k] = h(reMDRef.ReplaceAllStringFunc(body, func(m string) string {
				if c, ok := col[m[1:]]; ok {
					return "!<" + c + ">"
				}
				return m
			}))
		}
		col = next
	}
	subst := func(s string) string {
		s = reAttrRef.ReplaceAllStringFunc(s, func(m string) string {
			if a, ok := attrs[m[1:]]; ok {
				return a
			}
			return m
		})
		return reMDRef.ReplaceAllStringFunc(s, func(m string) string {
			if c, ok := col[m[1:]]; ok {
				return "!<" + c + ">"
			}
			return m
		})
	}
	var out []Entity
	for _, e := range es {
		switch e.Kind {
		case "attr":
			continue // inlined at the use sites
		case "md":
			k := strings.TrimPrefix(e.Name, "!")
			out = append(out, Entity{"md", "!<" + col[k] + ">", "!<" + col[k] + "> = " + subst(md[k])})
		default:
			out = append(out, Entity{e.Kind, e.Name, subst(e.Text)})
		}
	}
	sort.SliceStable(out, func(i, j int) bool {
		if out[i].Kind != out[j].Kind {
			return out[i].Kind < out[j].Kind
		}
		if out[i].Name != out[j].Name {
			return out[i].Name < out[j].Name
		}
		return out[i].Text < out[j].Text
	})
	return out
}

// Diff returns the entities that differ between two canonical lists: (only in a, only in b).
func Diff(a, b []Entity) (onlyA, onlyB []Entity) {
	cnt := map[string]int{}
	for _, e := range a {
		cnt[e.Kind+"\x00"+e.Text]++
	}
	for _, e := range b {
		k := e.Kind + "\x00" + e.Text
		if cnt[k] > 0 {
			cnt[k]--
		} else {
			onlyB = append(onlyB, e)
		}
	}
	seen := map[string]int{}
	for _, e := range b {
		seen[e.Kind+"\x00"+e.Text]++
	}
	for _, e := range a {
		k := e.Kind + "\x00" + e.Text
		if seen[k] > 0 {
			seen[k]--
		} else {
			onlyA = append(onlyA, e)
		}
	}
	return
}
