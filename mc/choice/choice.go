// Package choice is the deviation-bounded exhaustive explorer (E1 of DESIGN.md): a body calls
// Choose(n) wherever something could be otherwise; choice 0 is the default/simplest answer; Explore
// runs the body on every choice vector with at most `bound` non-default choices.
package choice

import "fmt"

// Ctx records and replays the choices of one execution.
type Ctx struct {
	prefix []int
	Trace  []int // choice taken at each point
	N      []int // number of alternatives at each point
	Labels []string
}

// Choose returns the choice for this point: the replayed prefix value, else 0.
func (c *Ctx) Choose(n int, label string) int {
	i := len(c.Trace)
	v := 0
	if i < len(c.prefix) {
		v = c.prefix[i]
		if v >= n {
			panic(fmt.Sprintf("choice: replay divergence at point %d (%s): choice %d of %d", i, label, v, n))
		}
	}
	c.Trace = append(c.Trace, v)
	c.N = append(c.N, n)
	c.Labels = append(c.Labels, label)
	return v
}

// Flip is Choose(2) as a bool (default false).
func (c *Ctx) Flip(label string) bool { return c.Choose(2, label) == 1 }

// Deviations returns the labelled non-default choices of the execution.
func (c *Ctx) Deviations() []string {
	var out []string
	for i, v := range c.Trace {
		if v != 0 {
			out = append(out, fmt.Sprintf("%s=%d", c.Labels[i], v))
		}
	}
	return out
}

// Explore runs body on every choice vector with at most bound non-zero choices (bound<0: all) and
// calls visit after each execution. It returns the number of executions.
func Explore(bound int, body func(c *Ctx), visit func(c *Ctx)) int {
	type node struct {
		prefix []int
		cost   int
	}
	stack := []node{{nil, 0}}
	n := 0
	for len(stack) > 0 {
		nd := stack[len(stack)-1]
		stack = stack[:len(stack)-1]
		c := &Ctx{prefix: nd.prefix}
		body(c)
		n++
		if visit != nil {
			visit(c)
		}
		if bound >= 0 && nd.cost >= bound {
			continue
		}
		for i := len(c.Trace) - 1; i >= len(nd.prefix); i-- {
			for alt := c.N[i] - 1; alt >= 1; alt-- {
				p := make([]int, i+1)
				copy(p, c.Trace[:i])
				p[i] = alt
				stack = append(stack, node{p, nd.cost + 1})
			}
		}
	}
	return n
}

// Run executes body once with the given choice vector (replay).
func Run(prefix []int, body func(c *Ctx)) *Ctx {
	c := &Ctx{prefix: prefix}
	body(c)
	return c
}
