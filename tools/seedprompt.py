#!/usr/bin/env python3
"""seedprompt.py <PROP> <ROUND-LETTER> <worktree> <outdir>: prints the prompt given to an independent
sub-agent that writes a seeded property-breaking change. The prompt contains only the property text,
the scratch worktree and one line per idea earlier sub-agents already used for this property (taken
from their own meta.json, not from anything in /verif's checks)."""
import json, glob, sys

prop, rnd, wt, out = sys.argv[1:5]
P = {}
for l in open('/verif/properties.jsonl'):
    d = json.loads(l)
    P[d['id']] = d
p = P[prop]
used = []
for f in sorted(glob.glob(f'/verif/seeded/{prop}-*/meta.json')):
    d = json.load(open(f))
    s = d.get('summary', '')
    used.append('- ' + s[:260].replace('\n', ' '))
text = f"""You are helping to evaluate a verification harness for the Go library llir/llvm (pure-Go model of LLVM IR: parser in ./asm, IR in ./ir, printer = String()/LLString()/WriteTo). You work ONLY in your own scratch git worktree of the library at {wt} (already created, clean, at the current HEAD). Do not touch /repo or /verif, and do not read anything under /verif.

PROPERTY ({prop}: {p.get('title','')})
{p.get('statement','')}

TASK
Write ONE realistic change to the library source (non-test files under {wt}) that BREAKS this property while
 (a) the library still compiles (`go build ./...`),
 (b) the library's existing test suite still passes unedited (`go test -vet=off -count=1 ./...` in {wt}; takes ~1-2 min),
 (c) it looks like something a maintainer could plausibly write and a reviewer could wave through (a refactoring, optimisation, "simplification", cache, fast path, merged branches, shared helper, bounds tweak, off-by-one at a boundary, two cooperating sites that each look fine alone),
 (d) it needs something SPECIFIC to manifest: an unusual-but-valid input shape, a particular combination of two features, a multi-step sequence of operations, a boundary value, a particular interleaving/order, state leaked from an earlier call -- NOT something ordinary use or the simplest input would expose at once.
Also write a demonstration: a Go test file `demo_test.go` containing `func TestSeedDemo(t *testing.T)` (external test package, e.g. `package asm_test` or `package ir_test`), whose FIRST line is the comment `// place: <dir relative to repo root where the file must be copied, e.g. asm or ir or ir/types>`. The demo must PASS on the unchanged tree and FAIL deterministically with your change. LLVM 14 tools are installed (llvm-as-14, llvm-dis-14, opt-14, lli-14) if you want to confirm that an input is valid LLVM; the demo itself should not need them.

Ideas ALREADY USED by earlier attempts for this property -- do NOT repeat these or close variants (different file/mechanism/trigger please; go further afield: other code paths, other entity kinds, other entry points, rarely used options, interactions between two packages):
{chr(10).join(used) if used else '- (none)'}

ENVIRONMENT
- No network. In every shell call first: export GOFLAGS=-mod=mod GOPROXY=off GOSUMDB=off GOTOOLCHAIN=local
- Go 1.23; module github.com/llir/llvm; the parser front-end github.com/llir/ll is in the module cache (read-only; do not change it -- only files inside {wt}).
- The tree at HEAD already contains some recent "fix:" commits; work from it as it is.

DELIVERABLES (write them to {out}/, create the directory):
 1. patch.diff  -- `git -C {wt} diff` of your change (library source only; no test files, no demo). It must apply with `git apply` on a clean checkout of HEAD.
 2. demo_test.go -- as described above.
 3. meta.json -- {{"property": "{prop}", "summary": "<what was changed, where, and the plausible cover story>", "needs": "<what exactly is needed for the breakage to manifest, and what stays unaffected>", "demo_cmd": "go test -vet=off -count=1 -run TestSeedDemo ./<dir>/", "ran": ["<each command you ran to confirm (a)-(d) and its outcome>"]}}
Before finishing, CONFIRM yourself: clean tree + demo -> PASS; change applied -> build ok, full suite passes (without the demo file), demo -> FAIL. Then leave the worktree clean (`git -C {wt} checkout -- .`, remove the copied demo file) -- the deliverables in {out}/ are what counts. Reply with a 3-line summary (what, trigger, confirmation)."""
print(text)
