// Command mkoverlay generates a `go build -overlay` file for a checkout of github.com/llir/llvm.
//
//	mkoverlay -repo /repo -hooks /verif/hooks -out DIR -mode light|full
//
// light: adds the virtual packages <module>/vhook and <module>/vexport (no source rewriting).
// full:  additionally rewrites every non-test file of the library so that
//   - import "sync" resolves to the vhook shims (scheduling points + race-detector edges),
//   - `go f(x)` becomes vhook.Go(func(){ f(x) }),
//   - every `for k, v := range M` with M of map type (decided by go/types, so loops added later are
//     found too) iterates over vhook.Keys(M, site): canonical order, permuted by the harness.
//   - channel operations and select statements are reported (the scheduler does not model them).
//
// The list of rewritten sites is written to DIR/sites.json.
package main

import (
	"bytes"
	"encoding/json"
	"flag"
	"fmt"
	"go/ast"
	"go/printer"
	"go/token"
	"go/types"
	"os"
	"path/filepath"
	"sort"
	"strings"

	"golang.org/x/tools/go/packages"
)

type site struct {
	Site string `json:"site"`
	Kind string `json:"kind"`
	Key  string `json:"key,omitempty"`
}

func main() {
	repo := flag.String("repo", "/repo", "library checkout")
	hooks := flag.String("hooks", "/verif/hooks", "directory with vhook/ and vexport/ sources")
	out := flag.String("out", "", "output directory")
	mode := flag.String("mode", "light", "light|full")
	var adds multi
	flag.Var(&adds, "add", "virtualpath=realpath: extra overlay entry (repeatable)")
	flag.Parse()
	if *out == "" {
		fatal("missing -out")
	}
	absRepo, _ := filepath.Abs(*repo)
	must(os.MkdirAll(*out, 0o755))
	replace := map[string]string{}
	// Virtual packages.
	for _, pkg := range []string{"vhook", "vexport"} {
		ents, err := os.ReadDir(filepath.Join(*hooks, pkg))
		must(err)
		for _, e := range ents {
			if strings.HasSuffix(e.Name(), ".go") {
				src, _ := filepath.Abs(filepath.Join(*hooks, pkg, e.Name()))
				replace[filepath.Join(absRepo, pkg, e.Name())] = src
			}
		}
	}
	for _, a := range adds {
		kv := strings.SplitN(a, "=", 2)
		if len(kv) != 2 {
			fatal("bad -add %q", a)
		}
		replace[kv[0]] = kv[1]
	}
	var sites []site
	unsupported := []string{}
	if *mode == "full" {
		cfg := &packages.Config{
			Mode: packages.NeedName | packages.NeedFiles | packages.NeedCompiledGoFiles | packages.NeedSyntax | packages.NeedTypes | packages.NeedTypesInfo | packages.NeedImports | packages.NeedDeps,
			Dir:  absRepo,
			Env:  append(os.Environ(), "GOFLAGS=-mod=mod", "GOPROXY=off", "GOSUMDB=off", "GOTOOLCHAIN=local"),
		}
		pkgs, err := packages.Load(cfg, "./asm/...", "./ir/...", "./internal/...")
		must(err)
		sort.Slice(pkgs, func(i, j int) bool { return pkgs[i].PkgPath < pkgs[j].PkgPath })
		for _, p := range pkgs {
			if len(p.Errors) > 0 {
				fatal("package %s has errors: %v", p.PkgPath, p.Errors)
			}
			for i, f := range p.Syntax {
				fname := p.CompiledGoFiles[i]
				rel, _ := filepath.Rel(absRepo, fname)
				rw := &rewriter{fset: p.Fset, info: p.TypesInfo, file: f, rel: rel}
				rw.run()
				sites = append(sites, rw.sites...)
				unsupported = append(unsupported, rw.unsupported...)
				if !rw.changed {
					continue
				}
				var buf bytes.Buffer
				// Preserve an existing build constraint.
				cons := buildConstraint(f)
				if cons != "" {
					fmt.Fprintf(&buf, "//go:build (%s) && go1.18\n\n", cons)
				} else {
					buf.WriteString("//go:build go1.18\n\n")
				}
				f.Comments = nil
				f.Doc = nil
				stripDocs(f)
				must(printer.Fprint(&buf, token.NewFileSet(), f))
				dst := filepath.Join(*out, "src", rel)
				must(os.MkdirAll(filepath.Dir(dst), 0o755))
				must(os.WriteFile(dst, buf.Bytes(), 0o644))
				absDst, _ := filepath.Abs(dst)
				replace[fname] = absDst
			}
		}
	}
	ov, _ := json.MarshalIndent(map[string]interface{}{"Replace": replace}, "", " ")
	must(os.WriteFile(filepath.Join(*out, "overlay.json"), ov, 0o644))
	sj, _ := json.MarshalIndent(map[string]interface{}{"sites": sites, "unsupported": unsupported}, "", " ")
	must(os.WriteFile(filepath.Join(*out, "sites.json"), sj, 0o644))
	fmt.Printf("mkoverlay: mode=%s files=%d sites=%d unsupported=%d\n", *mode, len(replace), len(sites), len(unsupported))
}

func buildConstraint(f *ast.File) string {
	for _, cg := range f.Comments {
		if cg.Pos() > f.Package {
			break
		}
		for _, c := range cg.List {
			if strings.HasPrefix(c.Text, "//go:build ") {
				return strings.TrimPrefix(c.Text, "//go:build ")
			}
		}
	}
	return ""
}

func stripDocs(f *ast.File) {
	ast.Inspect(f, func(n ast.Node) bool {
		switch n := n.(type) {
		case *ast.GenDecl:
			n.Doc = nil
		case *ast.FuncDecl:
			n.Doc = nil
		case *ast.Field:
			n.Doc, n.Comment = nil, nil
		case *ast.ValueSpec:
			n.Doc, n.Comment = nil, nil
		case *ast.TypeSpec:
			n.Doc, n.Comment = nil, nil
		case *ast.ImportSpec:
			n.Doc, n.Comment = nil, nil
		}
		return true
	})
}

type multi []string

func (m *multi) String() string     { return strings.Join(*m, ",") }
func (m *multi) Set(v string) error { *m = append(*m, v); return nil }

type rewriter struct {
	fset        *token.FileSet
	info        *types.Info
	file        *ast.File
	rel         string
	changed     bool
	needVhook   bool
	sites       []site
	unsupported []string
	tmp         int
}

const vhookPath = "github.com/llir/llvm/vhook"

func (rw *rewriter) pos(n ast.Node) string {
	p := rw.fset.Position(n.Pos())
	return fmt.Sprintf("%s:%d", rw.rel, p.Line)
}

func (rw *rewriter) run() {
	// 1. import "sync" -> sync "<module>/vhook".
	for _, imp := range rw.file.Imports {
		if imp.Path.Value == `"sync"` {
			name := "sync"
			if imp.Name != nil {
				name = imp.Name.Name
			}
			imp.Name = ast.NewIdent(name)
			imp.Path.Value = `"` + vhookPath + `"`
			imp.EndPos = 0
			rw.changed = true
			rw.sites = append(rw.sites, site{Site: rw.pos(imp), Kind: "sync-import"})
		}
		if imp.Path.Value == `"sync/atomic"` {
			rw.unsupported = append(rw.unsupported, rw.pos(imp)+": sync/atomic (not a scheduling point)")
		}
	}
	// 2. statements.
	ast.Inspect(rw.file, func(n ast.Node) bool {
		switch n := n.(type) {
		case *ast.BlockStmt:
			rw.stmts(n.List)
		case *ast.CaseClause:
			rw.stmts(n.Body)
		case *ast.CommClause:
			rw.stmts(n.Body)
		case *ast.LabeledStmt:
			one := []ast.Stmt{n.Stmt}
			rw.stmts(one)
			n.Stmt = one[0]
		case *ast.SelectStmt:
			rw.unsupported = append(rw.unsupported, rw.pos(n)+": select")
		case *ast.SendStmt:
			rw.unsupported = append(rw.unsupported, rw.pos(n)+": channel send")
		case *ast.UnaryExpr:
			if n.Op == token.ARROW {
				rw.unsupported = append(rw.unsupported, rw.pos(n)+": channel receive")
			}
		}
		return true
	})
	if rw.needVhook {
		rw.file.Decls = append([]ast.Decl{&ast.GenDecl{Tok: token.IMPORT, Specs: []ast.Spec{
			&ast.ImportSpec{Name: ast.NewIdent("vhookpkg"), Path: &ast.BasicLit{Kind: token.STRING, Value: `"` + vhookPath + `"`}},
		}}}, rw.file.Decls...)
	}
}

func (rw *rewriter) stmts(list []ast.Stmt) {
	for i, s := range list {
		switch s := s.(type) {
		case *ast.GoStmt:
			// go f(x)  =>  vhookpkg.Go(func() { f(x) })
			list[i] = &ast.ExprStmt{X: &ast.CallExpr{
				Fun: &ast.SelectorExpr{X: ast.NewIdent("vhookpkg"), Sel: ast.NewIdent("Go")},
				Args: []ast.Expr{&ast.FuncLit{
					Type: &ast.FuncType{Params: &ast.FieldList{}},
					Body: &ast.BlockStmt{List: []ast.Stmt{&ast.ExprStmt{X: s.Call}}},
				}},
			}}
			rw.changed, rw.needVhook = true, true
			rw.sites = append(rw.sites, site{Site: rw.pos(s), Kind: "go-stmt"})
		case *ast.RangeStmt:
			tv, ok := rw.info.Types[s.X]
			if !ok {
				continue
			}
			mt, ok := tv.Type.Underlying().(*types.Map)
			if !ok {
				if _, isChan := tv.Type.Underlying().(*types.Chan); isChan {
					rw.unsupported = append(rw.unsupported, rw.pos(s)+": range over channel")
				}
				continue
			}
			if !pure(s.X) {
				fatal("%s: range over map expression with possible side effects", rw.pos(s))
			}
			st := rw.pos(s)
			rw.sites = append(rw.sites, site{Site: st, Kind: "map-range", Key: mt.Key().String()})
			rw.changed, rw.needVhook = true, true
			keysCall := &ast.CallExpr{
				Fun:  &ast.SelectorExpr{X: ast.NewIdent("vhookpkg"), Sel: ast.NewIdent("Keys")},
				Args: []ast.Expr{s.X, &ast.BasicLit{Kind: token.STRING, Value: fmt.Sprintf("%q", st)}},
			}
			var pre []ast.Stmt
			keyIdent := ast.NewIdent("_")
			if s.Key != nil {
				if id, ok := s.Key.(*ast.Ident); ok && id.Name == "_" {
					// no key wanted
				} else if s.Tok == token.DEFINE {
					keyIdent = s.Key.(*ast.Ident)
				} else {
					rw.tmp++
					keyIdent = ast.NewIdent(fmt.Sprintf("vhookk%d", rw.tmp))
					pre = append(pre, &ast.AssignStmt{Lhs: []ast.Expr{s.Key}, Tok: token.ASSIGN, Rhs: []ast.Expr{keyIdent}})
				}
			}
			if s.Value != nil {
				if id, ok := s.Value.(*ast.Ident); !(ok && id.Name == "_") {
					if keyIdent.Name == "_" {
						rw.tmp++
						keyIdent = ast.NewIdent(fmt.Sprintf("vhookk%d", rw.tmp))
					}
					tok := token.ASSIGN
					if s.Tok == token.DEFINE {
						tok = token.DEFINE
					}
					pre = append(pre, &ast.AssignStmt{Lhs: []ast.Expr{s.Value}, Tok: tok, Rhs: []ast.Expr{&ast.IndexExpr{X: s.X, Index: ast.NewIdent(keyIdent.Name)}}})
				}
			}
			body := &ast.BlockStmt{List: append(pre, s.Body.List...)}
			list[i] = &ast.RangeStmt{Key: ast.NewIdent("_"), Value: keyIdent, Tok: token.DEFINE, X: keysCall, Body: body}
			if keyIdent.Name == "_" {
				list[i].(*ast.RangeStmt).Value = nil
				list[i].(*ast.RangeStmt).Key = nil
				list[i].(*ast.RangeStmt).Tok = token.ILLEGAL
			}
		}
	}
}

// pure reports whether e is an identifier / selector chain (re-evaluation is harmless).
func pure(e ast.Expr) bool {
	switch e := e.(type) {
	case *ast.Ident:
		return true
	case *ast.SelectorExpr:
		return pure(e.X)
	case *ast.ParenExpr:
		return pure(e.X)
	case *ast.StarExpr:
		return pure(e.X)
	}
	return false
}

func must(err error) {
	if err != nil {
		fatal("%v", err)
	}
}

func fatal(f string, a ...interface{}) {
	fmt.Fprintf(os.Stderr, "mkoverlay: "+f+"\n", a...)
	os.Exit(2)
}
